// mpir-ir: whole-library fact extractor over linked LLVM bitcode.
//
// Emits one JSON document:
//   globals[]   name, linkage, constant, type, loc, init (nested ints / refs),
//               uses[] = {fn, kind, line, via}   kind in
//                 store        the global's storage is written in fn
//                 load         read
//                 callarg      passed to an EXTERNAL callee (callee, argno, attrs)
//                 escape       its address is stored into memory / returned to outside
//                 ininit       its address sits in another global's initializer
//   functions[] name, defined, linkage, attrs, loc, callees[] {name,line}, indirect_calls
//
// "Derived from G" is a flow-insensitive closure over GEP / casts / phi /
// select / constant expressions (run after SROA so locals are in SSA), through
// pointers returned by defined callees, and through pointer tables (a pointer
// loaded from a global H whose initializer names G is derived from G).
// Calls are handled by summaries: writesParam[F][k] = F (or something it calls)
// may store through its k-th pointer parameter; a global passed to such a
// parameter is written *at the call site that names the global*.
#include "llvm/IR/Constants.h"
#include "llvm/IR/DebugInfoMetadata.h"
#include "llvm/IR/InstIterator.h"
#include "llvm/IR/Instructions.h"
#include "llvm/IR/IntrinsicInst.h"
#include "llvm/IR/LLVMContext.h"
#include "llvm/IR/Module.h"
#include "llvm/IR/Operator.h"
#include "llvm/IRReader/IRReader.h"
#include "llvm/Support/JSON.h"
#include "llvm/Support/MemoryBuffer.h"
#include "llvm/Support/SourceMgr.h"
#include "llvm/Support/raw_ostream.h"
#include <map>
#include <set>
#include <string>
#include <vector>

using namespace llvm;

static std::string tyStr(Type *T) {
  std::string s;
  raw_string_ostream os(s);
  T->print(os);
  return os.str();
}

static std::string gvLoc(const GlobalVariable &G) {
  SmallVector<DIGlobalVariableExpression *, 1> v;
  G.getDebugInfo(v);
  for (auto *e : v)
    if (auto *dv = e->getVariable())
      return (dv->getDirectory() + "/" + dv->getFilename() + ":" + Twine(dv->getLine())).str();
  return "";
}

static std::string fnLoc(const Function &F) {
  if (auto *sp = F.getSubprogram())
    return (sp->getDirectory() + "/" + sp->getFilename() + ":" + Twine(sp->getLine())).str();
  return "";
}

static unsigned instLine(const Instruction *I) {
  if (const DebugLoc &dl = I->getDebugLoc())
    return dl.getLine();
  return 0;
}

static size_t budget;

static json::Value constJson(const Constant *C, std::set<const GlobalValue *> &refs) {
  if (budget == 0)
    return "…";
  --budget;
  if (auto *ci = dyn_cast<ConstantInt>(C)) {
    if (ci->getBitWidth() <= 63)
      return (int64_t)ci->getZExtValue();
    SmallString<40> s;
    ci->getValue().toStringUnsigned(s);
    return std::string(s.str()); // big ints as decimal strings
  }
  if (auto *cf = dyn_cast<ConstantFP>(C)) {
    json::Object o;
    SmallString<40> s;
    cf->getValueAPF().bitcastToAPInt().toStringUnsigned(s);
    o["fpbits"] = std::string(s.str());
    o["double"] = cf->getType()->isDoubleTy() ? cf->getValueAPF().convertToDouble() : 0.0;
    return std::move(o);
  }
  if (isa<ConstantAggregateZero>(C)) {
    Type *T = C->getType();
    json::Array a;
    if (auto *at = dyn_cast<ArrayType>(T)) {
      for (uint64_t i = 0; i < at->getNumElements() && budget; ++i)
        a.push_back(constJson(Constant::getNullValue(at->getElementType()), refs));
    } else if (auto *st = dyn_cast<StructType>(T)) {
      for (unsigned i = 0; i < st->getNumElements(); ++i)
        a.push_back(constJson(Constant::getNullValue(st->getElementType(i)), refs));
    }
    return std::move(a);
  }
  if (isa<ConstantPointerNull>(C))
    return nullptr;
  if (auto *cds = dyn_cast<ConstantDataSequential>(C)) {
    json::Array a;
    for (unsigned i = 0; i < cds->getNumElements(); ++i) {
      if (cds->getElementType()->isIntegerTy()) {
        uint64_t v = cds->getElementAsInteger(i);
        if (cds->getElementType()->getIntegerBitWidth() <= 63 || v < (1ULL << 63))
          a.push_back((int64_t)v);
        else
          a.push_back(std::to_string(v));
      } else if (cds->getElementType()->isDoubleTy())
        a.push_back(cds->getElementAsDouble(i));
      else if (cds->getElementType()->isFloatTy())
        a.push_back((double)cds->getElementAsFloat(i));
      else
        a.push_back("?");
    }
    return std::move(a);
  }
  if (isa<ConstantArray>(C) || isa<ConstantStruct>(C) || isa<ConstantVector>(C)) {
    json::Array a;
    for (unsigned i = 0; i < C->getNumOperands(); ++i)
      a.push_back(constJson(cast<Constant>(C->getOperand(i)), refs));
    return std::move(a);
  }
  if (auto *gv = dyn_cast<GlobalValue>(C)) {
    refs.insert(gv);
    json::Object o;
    o["ref"] = gv->getName().str();
    return std::move(o);
  }
  if (auto *ce = dyn_cast<ConstantExpr>(C)) {
    // find the base global
    const Constant *b = ce;
    while (auto *e = dyn_cast<ConstantExpr>(b)) {
      if (e->getNumOperands() == 0)
        break;
      b = cast<Constant>(e->getOperand(0));
    }
    json::Object o;
    if (auto *gv = dyn_cast<GlobalValue>(b)) {
      refs.insert(gv);
      o["ref"] = gv->getName().str();
      o["expr"] = ce->getOpcodeName();
    } else
      o["expr"] = ce->getOpcodeName();
    return std::move(o);
  }
  if (isa<UndefValue>(C))
    return "undef";
  return "?";
}

struct Use1 {
  std::string fn, kind, via;
  unsigned line;
  bool operator<(const Use1 &o) const {
    return std::tie(fn, kind, line, via) < std::tie(o.fn, o.kind, o.line, o.via);
  }
};

int main(int argc, char **argv) {
  if (argc < 2) {
    errs() << "usage: mpir-ir linked.bc\n";
    return 2;
  }
  LLVMContext ctx;
  SMDiagnostic err;
  std::unique_ptr<Module> M = parseIRFile(argv[1], err, ctx);
  if (!M) {
    err.print("mpir-ir", errs());
    return 2;
  }

  // which globals' addresses sit in which global's initializer
  std::map<const GlobalVariable *, std::set<const GlobalValue *>> initRefs;
  json::Array jglobals;
  std::map<const GlobalVariable *, json::Value> initJson;
  for (auto &G : M->globals()) {
    std::set<const GlobalValue *> refs;
    budget = 70000;
    if (G.hasInitializer())
      initJson.emplace(&G, constJson(G.getInitializer(), refs));
    initRefs[&G] = refs;
  }

  // ---- derived sets: Value -> set of bases (GlobalVariable or Argument) ----
  typedef std::set<const Value *> BaseSet;
  std::map<const Value *, BaseSet> der;
  auto addDer = [&](const Value *v, const BaseSet &s) {
    auto &d = der[v];
    size_t n = d.size();
    d.insert(s.begin(), s.end());
    return d.size() != n;
  };
  std::function<BaseSet(const Value *)> baseOf = [&](const Value *v) -> BaseSet {
    if (isa<GlobalVariable>(v) || isa<Argument>(v))
      return {v};
    if (auto *ce = dyn_cast<ConstantExpr>(v)) {
      BaseSet s;
      for (auto &op : ce->operands()) {
        auto t = baseOf(op.get());
        s.insert(t.begin(), t.end());
      }
      return s;
    }
    auto it = der.find(v);
    if (it != der.end())
      return it->second;
    return {};
  };

  bool changed = true;
  int rounds = 0;
  while (changed && rounds++ < 50) {
    changed = false;
    for (auto &F : *M) {
      for (auto &I : instructions(F)) {
        if (isa<GetElementPtrInst>(I) || isa<CastInst>(I) || isa<PHINode>(I) ||
            isa<SelectInst>(I) || isa<FreezeInst>(I)) {
          BaseSet s;
          unsigned first = isa<SelectInst>(I) ? 1 : 0;
          unsigned last = isa<GetElementPtrInst>(I) ? 1 : I.getNumOperands();
          for (unsigned k = first; k < last; ++k) {
            auto t = baseOf(I.getOperand(k));
            s.insert(t.begin(), t.end());
          }
          if (!s.empty())
            changed |= addDer(&I, s);
        } else if (auto *ld = dyn_cast<LoadInst>(&I)) {
          // pointer loaded from a table global whose initializer names other globals
          if (ld->getType()->isPointerTy()) {
            BaseSet s;
            for (auto *h : baseOf(ld->getPointerOperand()))
              if (auto *hg = dyn_cast<GlobalVariable>(h))
                for (auto *r : initRefs[hg])
                  if (auto *g = dyn_cast<GlobalVariable>(r))
                    s.insert(g);
            if (!s.empty())
              changed |= addDer(&I, s);
          }
        } else if (auto *cb = dyn_cast<CallBase>(&I)) {
          const Function *cal = cb->getCalledFunction();
          if (cal && !cal->isDeclaration() && cb->getType()->isPointerTy()) {
            // returned pointers: globals directly, parameters mapped to the actuals
            BaseSet s;
            for (auto &BB : *cal)
              if (auto *r = dyn_cast<ReturnInst>(BB.getTerminator()))
                if (r->getReturnValue())
                  for (auto *b : baseOf(r->getReturnValue())) {
                    if (isa<GlobalVariable>(b))
                      s.insert(b);
                    else if (auto *a = dyn_cast<Argument>(b))
                      if (a->getArgNo() < cb->arg_size()) {
                        auto t = baseOf(cb->getArgOperand(a->getArgNo()));
                        s.insert(t.begin(), t.end());
                      }
                  }
            if (!s.empty())
              changed |= addDer(&I, s);
          }
        }
      }
    }
  }

  // ---- read-only argument table for external callees (spec file, argv[2]) ----
  std::map<std::string, std::set<int>> roArgs; // -1 = all
  if (argc > 2) {
    auto buf = MemoryBuffer::getFile(argv[2]);
    if (buf) {
      SmallVector<StringRef, 64> lines;
      (*buf)->getBuffer().split(lines, '\n');
      for (auto ln : lines) {
        if (ln.empty() || ln.startswith("#"))
          continue;
        SmallVector<StringRef, 4> cols;
        ln.split(cols, '\t');
        if (cols.size() < 2)
          continue;
        SmallVector<StringRef, 8> as;
        cols[1].split(as, ',');
        for (auto a : as) {
          a = a.trim();
          int v;
          if (a == "*")
            roArgs[cols[0].str()].insert(-1);
          else if (!a.getAsInteger(10, v))
            roArgs[cols[0].str()].insert(v);
        }
      }
    }
  }
  auto externReadonly = [&](const Function *cal, unsigned k) {
    if (k < cal->arg_size() && (cal->hasParamAttribute(k, Attribute::ReadOnly) ||
                                cal->hasParamAttribute(k, Attribute::ReadNone)))
      return true;
    auto it = roArgs.find(cal->getName().str());
    if (it == roArgs.end())
      return false;
    return it->second.count(-1) || it->second.count((int)k);
  };

  // ---- summaries: does F write through / let escape its pointer parameter k ----
  std::map<const Argument *, std::string> writesParam; // arg -> how
  auto calleeOf = [](const CallBase *cb) -> const Function * {
    const Function *cal = cb->getCalledFunction();
    if (!cal)
      if (auto *f2 = dyn_cast<Function>(cb->getCalledOperand()->stripPointerCasts()))
        cal = f2;
    return cal;
  };
  changed = true;
  rounds = 0;
  while (changed && rounds++ < 50) {
    changed = false;
    for (auto &F : *M) {
      if (F.isDeclaration())
        continue;
      auto mark = [&](const Value *ptr, const std::string &how) {
        for (auto *b : baseOf(ptr))
          if (auto *a = dyn_cast<Argument>(b))
            if (!writesParam.count(a)) {
              writesParam[a] = how;
              changed = true;
            }
      };
      for (auto &I : instructions(F)) {
        if (auto *st = dyn_cast<StoreInst>(&I))
          mark(st->getPointerOperand(), "store");
        else if (isa<AtomicRMWInst>(I) || isa<AtomicCmpXchgInst>(I))
          mark(I.getOperand(0), "store");
        else if (auto *mi = dyn_cast<MemIntrinsic>(&I))
          mark(mi->getRawDest(), "store");
        else if (auto *cb = dyn_cast<CallBase>(&I)) {
          if (isa<DbgInfoIntrinsic>(I))
            continue;
          const Function *cal = calleeOf(cb);
          if (cal && cal->isIntrinsic())
            continue;
          for (unsigned k = 0; k < cb->arg_size(); ++k) {
            if (!cb->getArgOperand(k)->getType()->isPointerTy())
              continue;
            if (!cal)
              mark(cb->getArgOperand(k), "indirect call");
            else if (cal->isDeclaration() || k >= cal->arg_size()) {
              if (!externReadonly(cal, k))
                mark(cb->getArgOperand(k), "extern " + cal->getName().str());
            } else if (writesParam.count(cal->getArg(k)))
              mark(cb->getArgOperand(k), "via " + cal->getName().str());
          }
        }
      }
    }
  }

  std::map<const GlobalVariable *, std::set<Use1>> uses;
  auto rec = [&](const Value *ptr, const Function &F, const char *kind, const Instruction *I,
                 std::string via = "") {
    for (auto *b : baseOf(ptr))
      if (auto *g = dyn_cast<GlobalVariable>(b))
        uses[g].insert({F.getName().str(), kind, via, instLine(I)});
  };

  json::Array jfuncs;
  for (auto &F : *M) {
    json::Object jf;
    jf["name"] = F.getName().str();
    jf["defined"] = !F.isDeclaration();
    jf["internal"] = F.hasLocalLinkage();
    jf["loc"] = fnLoc(F);
    json::Array attrs;
    if (F.doesNotAccessMemory())
      attrs.push_back("readnone");
    if (F.onlyReadsMemory())
      attrs.push_back("readonly");
    if (F.doesNotReturn())
      attrs.push_back("noreturn");
    if (F.onlyAccessesArgMemory())
      attrs.push_back("argmemonly");
    jf["attrs"] = std::move(attrs);
    json::Array wp;
    for (auto &A : F.args())
      if (writesParam.count(&A)) {
        json::Object o;
        o["arg"] = (int64_t)A.getArgNo();
        o["how"] = writesParam[&A];
        wp.push_back(std::move(o));
      }
    jf["writes_params"] = std::move(wp);
    // raw edges for R-CONSTSRC: every store through / pass-on of a pointer derived from a parameter
    if (!F.isDeclaration()) {
      json::Array pe;
      jf["sret"] = F.arg_size() > 0 && F.hasParamAttribute(0, Attribute::StructRet);
      auto edge = [&](const Value *ptr, const char *kind, const Instruction *I, const std::string &callee, int k) {
        for (auto *b : baseOf(ptr))
          if (auto *a = dyn_cast<Argument>(b))
            if (a->getParent() == &F) {
              json::Object o;
              o["arg"] = (int64_t)a->getArgNo();
              o["kind"] = kind;
              o["line"] = (int64_t)instLine(I);
              if (!callee.empty())
                o["callee"] = callee;
              if (k >= 0)
                o["k"] = (int64_t)k;
              pe.push_back(std::move(o));
            }
      };
      for (auto &I : instructions(F)) {
        if (auto *st = dyn_cast<StoreInst>(&I))
          edge(st->getPointerOperand(), "store", &I, "", -1);
        else if (isa<AtomicRMWInst>(I) || isa<AtomicCmpXchgInst>(I))
          edge(I.getOperand(0), "store", &I, "", -1);
        else if (auto *mi = dyn_cast<MemIntrinsic>(&I))
          edge(mi->getRawDest(), "store", &I, "", -1);
        else if (auto *cb = dyn_cast<CallBase>(&I)) {
          if (isa<DbgInfoIntrinsic>(I))
            continue;
          const Function *cal = calleeOf(cb);
          if (cal && cal->isIntrinsic())
            continue;
          for (unsigned k = 0; k < cb->arg_size(); ++k) {
            if (!cb->getArgOperand(k)->getType()->isPointerTy())
              continue;
            if (!cal)
              edge(cb->getArgOperand(k), "indirect", &I, "", (int)k);
            else if (cal->isDeclaration() || k >= cal->arg_size())
              edge(cb->getArgOperand(k), externReadonly(cal, k) ? "extern-ro" : "extern", &I, cal->getName().str(), (int)k);
            else
              edge(cb->getArgOperand(k), "pass", &I, cal->getName().str(), (int)k);
          }
        }
      }
      jf["param_edges"] = std::move(pe);
    }
    json::Array callees;
    int indirect = 0;
    json::Array fnaddr; // functions whose address is taken here
    for (auto &I : instructions(F)) {
      if (auto *st = dyn_cast<StoreInst>(&I)) {
        rec(st->getPointerOperand(), F, "store", &I);
        rec(st->getValueOperand(), F, "escape", &I, "stored-as-value");
        if (auto *fv = dyn_cast<Function>(st->getValueOperand()->stripPointerCasts()))
          fnaddr.push_back(fv->getName().str());
      } else if (auto *ld = dyn_cast<LoadInst>(&I)) {
        rec(ld->getPointerOperand(), F, "load", &I);
      } else if (isa<AtomicRMWInst>(I) || isa<AtomicCmpXchgInst>(I)) {
        rec(I.getOperand(0), F, "store", &I);
      } else if (auto *r = dyn_cast<ReturnInst>(&I)) {
        if (r->getReturnValue() && !F.hasLocalLinkage())
          rec(r->getReturnValue(), F, "escape", &I, "returned");
      } else if (auto *cb = dyn_cast<CallBase>(&I)) {
        if (isa<DbgInfoIntrinsic>(I))
          continue;
        const Function *cal = calleeOf(cb);
        if (auto *mi = dyn_cast<MemIntrinsic>(&I)) {
          rec(mi->getRawDest(), F, "store", &I, "mem-intrinsic");
          if (auto *mt = dyn_cast<MemTransferInst>(&I))
            rec(mt->getRawSource(), F, "load", &I, "mem-intrinsic");
          continue;
        }
        if (cal && cal->isIntrinsic())
          continue;
        if (!cal) {
          ++indirect;
          for (unsigned k = 0; k < cb->arg_size(); ++k)
            if (cb->getArgOperand(k)->getType()->isPointerTy())
              rec(cb->getArgOperand(k), F, "callarg", &I, "indirect#" + std::to_string(k));
          json::Object jc;
          jc["name"] = "";
          jc["line"] = (int64_t)instLine(&I);
          std::string through;
          if (auto *ld = dyn_cast<LoadInst>(cb->getCalledOperand()->stripPointerCasts()))
            for (auto *g : baseOf(ld->getPointerOperand()))
              if (isa<GlobalVariable>(g))
                through += g->getName().str() + " ";
          jc["through"] = through;
          callees.push_back(std::move(jc));
          continue;
        }
        json::Object jc;
        jc["name"] = cal->getName().str();
        jc["line"] = (int64_t)instLine(&I);
        callees.push_back(std::move(jc));
        for (unsigned k = 0; k < cb->arg_size(); ++k) {
          const Value *av = cb->getArgOperand(k);
          if (auto *fv = dyn_cast<Function>(av->stripPointerCasts()))
            fnaddr.push_back(fv->getName().str());
          if (!av->getType()->isPointerTy())
            continue;
          if (cal->isDeclaration() || k >= cal->arg_size()) {
            std::string via = cal->getName().str() + "#" + std::to_string(k);
            if (externReadonly(cal, k))
              via += ":readonly";
            rec(av, F, "callarg", &I, via);
          } else if (writesParam.count(cal->getArg(k))) {
            rec(av, F, "store", &I, "via " + cal->getName().str() + "#" + std::to_string(k));
          } else
            rec(av, F, "load", &I, "via " + cal->getName().str() + "#" + std::to_string(k));
        }
      }
    }
    jf["callees"] = std::move(callees);
    jf["indirect_calls"] = indirect;
    jf["fnaddr_taken"] = std::move(fnaddr);
    jfuncs.push_back(std::move(jf));
  }

  for (auto &G : M->globals()) {
    json::Object jg;
    jg["name"] = G.getName().str();
    jg["constant"] = G.isConstant();
    jg["internal"] = G.hasLocalLinkage();
    jg["declaration"] = G.isDeclaration();
    jg["thread_local"] = G.isThreadLocal();
    jg["type"] = tyStr(G.getValueType());
    jg["loc"] = gvLoc(G);
    auto it = initJson.find(&G);
    if (it != initJson.end())
      jg["init"] = it->second;
    json::Array inits;
    for (auto &kv : initRefs)
      if (kv.first != &G && kv.second.count(&G))
        inits.push_back(kv.first->getName().str());
    jg["in_initializer_of"] = std::move(inits);
    json::Array ju;
    for (auto &u : uses[&G]) {
      json::Object o;
      o["fn"] = u.fn;
      o["kind"] = u.kind;
      o["line"] = (int64_t)u.line;
      o["via"] = u.via;
      ju.push_back(std::move(o));
    }
    jg["uses"] = std::move(ju);
    jglobals.push_back(std::move(jg));
  }

  json::Object root;
  root["globals"] = std::move(jglobals);
  root["functions"] = std::move(jfuncs);
  outs() << json::Value(std::move(root)) << "\n";
  return 0;
}
