// mpir-sa: exports the type-checked program of each MPIR unit as per-function
// control-flow graphs whose elements are resolved expression trees (JSON).
//
//   mpir-sa [--overlay cfg.yaml] [--out DIR] [--all-headers] file.c... -- <clang flags>
//
// One JSON file per input unit:  DIR/<mangled path>.json
//   { "unit": path, "functions": [ {name, file, line, ret, static, params[], blocks[] } ],
//     "globals": [ file-scope variables ], "records": [ struct layouts ], "errors": n }
//
// The path rules themselves (typestate, alias dataflow, interval analysis,
// assertion purity, ...) are implemented over this export in /verif/py.
//
// libTooling's ClangTool ignores -ivfsoverlay, so the overlay YAML is parsed
// here and installed as the tool's base file system.
#include "clang/AST/ASTConsumer.h"
#include "clang/AST/ASTContext.h"
#include "clang/AST/Expr.h"
#include "clang/AST/ExprCXX.h"
#include "clang/AST/RecordLayout.h"
#include "clang/AST/RecursiveASTVisitor.h"
#include "clang/AST/Stmt.h"
#include "clang/Analysis/CFG.h"
#include "clang/Basic/SourceManager.h"
#include "clang/Frontend/CompilerInstance.h"
#include "clang/Frontend/FrontendActions.h"
#include "clang/Lex/Lexer.h"
#include "clang/Tooling/CompilationDatabase.h"
#include "clang/Tooling/Tooling.h"
#include "llvm/Support/FileSystem.h"
#include "llvm/Support/MemoryBuffer.h"
#include "llvm/Support/VirtualFileSystem.h"
#include "llvm/Support/raw_ostream.h"
#include <algorithm>
#include <map>
#include <set>
#include <string>
#include <vector>

using namespace clang;
using namespace clang::tooling;

static std::string gOutDir = ".";
static bool gAllHeaders = false;
static bool gCxx = false;

static void jstr(llvm::raw_ostream &os, llvm::StringRef s) {
  os << '"';
  for (unsigned char c : s) {
    switch (c) {
    case '"': os << "\\\""; break;
    case '\\': os << "\\\\"; break;
    case '\n': os << "\\n"; break;
    case '\t': os << "\\t"; break;
    case '\r': os << "\\r"; break;
    default:
      if (c < 0x20 || c >= 0x7f) {
        char b[8];
        snprintf(b, sizeof b, "\\u%04x", c);
        os << b;
      } else
        os << c;
    }
  }
  os << '"';
}

namespace {

class Exporter {
public:
  ASTContext &Ctx;
  SourceManager &SM;
  const LangOptions &LO;
  llvm::raw_ostream &os;
  std::map<const Decl *, int> ids;
  const FunctionDecl *CurFD = nullptr;

  Exporter(ASTContext &C, llvm::raw_ostream &o)
      : Ctx(C), SM(C.getSourceManager()), LO(C.getLangOpts()), os(o) {}

  int idOf(const Decl *d) {
    d = d->getCanonicalDecl();
    auto it = ids.find(d);
    if (it != ids.end())
      return it->second;
    int n = ids.size() + 1;
    ids[d] = n;
    return n;
  }

  std::string fileOf(SourceLocation L) {
    L = SM.getExpansionLoc(L);
    auto fe = SM.getFileEntryForID(SM.getFileID(L));
    if (!fe)
      return "";
    llvm::SmallString<256> p(fe->tryGetRealPathName());
    if (p.empty())
      p = fe->getName();
    return std::string(p.str());
  }
  unsigned lineOf(SourceLocation L) { return SM.getExpansionLineNumber(L); }

  // macro expansion stack, innermost first
  void macros(SourceLocation L, std::vector<std::string> &out) {
    int guard = 0;
    while (L.isMacroID() && guard++ < 24) {
      if (SM.isMacroBodyExpansion(L)) {
        llvm::StringRef n = Lexer::getImmediateMacroName(L, SM, LO);
        if (!n.empty() && (out.empty() || out.back() != n))
          out.push_back(n.str());
        L = SM.getImmediateExpansionRange(L).getBegin();
      } else {
        // macro argument: step to where the argument was written
        L = SM.getImmediateSpellingLoc(L);
        if (!L.isMacroID())
          break;
        // the argument itself may be inside a macro body
        llvm::StringRef n = Lexer::getImmediateMacroName(L, SM, LO);
        (void)n;
        L = SM.getImmediateMacroCallerLoc(L);
      }
    }
  }
  // Full stack: every macro whose expansion contains the location, through macro bodies AND
  // macro arguments (a token written inside ASSERT (...)'s argument reaches ASSERT_ALWAYS's body
  // only through a macro-argument expansion entry).  Innermost first.
  void macrosFull(SourceLocation L, std::vector<std::string> &out, int depth = 0) {
    int guard = 0;
    while (L.isMacroID() && guard++ < 40 && depth < 12) {
      if (SM.isMacroArgExpansion(L)) {
        // where the token was spelled (possibly inside another macro's expansion) ...
        macrosFull(SM.getImmediateSpellingLoc(L), out, depth + 1);
        // ... and the macro body into which the argument was substituted
        L = SM.getImmediateExpansionRange(L).getBegin();
      } else {
        llvm::StringRef n = Lexer::getImmediateMacroName(L, SM, LO);
        if (!n.empty() && std::find(out.begin(), out.end(), n.str()) == out.end())
          out.push_back(n.str());
        L = SM.getImmediateExpansionRange(L).getBegin();
      }
    }
  }
  void emitMacros(SourceLocation L) {
    std::vector<std::string> m;
    macrosFull(L, m);
    if (m.empty())
      return;
    os << ",\"m\":[";
    for (size_t i = 0; i < m.size(); ++i) {
      if (i)
        os << ',';
      jstr(os, m[i]);
    }
    os << ']';
  }

  std::string text(const Stmt *S, unsigned maxlen = 120) {
    CharSourceRange R = SM.getExpansionRange(S->getSourceRange());
    bool inv = false;
    llvm::StringRef t = Lexer::getSourceText(R, SM, LO, &inv);
    if (inv)
      return "";
    std::string s;
    bool sp = false;
    for (char c : t) {
      if (c == '\n' || c == '\t' || c == ' ') {
        if (!sp)
          s += ' ';
        sp = true;
      } else {
        s += c;
        sp = false;
      }
      if (s.size() >= maxlen) {
        s += "...";
        break;
      }
    }
    return s;
  }

  void type(QualType T) {
    jstr(os, T.getAsString());
  }
  // canonical type with typedefs removed
  void ctype(QualType T) { jstr(os, T.getCanonicalType().getAsString()); }

  static bool pointeeConst(QualType T) {
    T = T.getCanonicalType();
    if (auto *pt = T->getAs<PointerType>())
      return pt->getPointeeType().isConstQualified();
    if (auto *at = dyn_cast<ArrayType>(T.getTypePtr()))
      return at->getElementType().isConstQualified();
    return false;
  }

  void emitAPSInt(const llvm::APSInt &v) {
    llvm::SmallString<40> s;
    v.toString(s, 10);
    os << s; // python ints are unbounded
  }

  bool tryFold(const Expr *E) {
    if (E->isValueDependent() || E->isTypeDependent())
      return false;
    QualType T = E->getType();
    if (T.isNull() || !(T->isIntegralOrEnumerationType()))
      return false;
    if (E->isLValue())
      return false;
    Expr::EvalResult R;
    if (!E->EvaluateAsInt(R, Ctx, Expr::SE_NoSideEffects))
      return false;
    if (R.HasSideEffects)
      return false;
    os << "{\"k\":\"int\",\"v\":";
    emitAPSInt(R.Val.getInt());
    if (!isa<IntegerLiteral>(E->IgnoreParenImpCasts())) {
      os << ",\"folded\":1,\"txt\":";
      jstr(os, text(E, 80));
    }
    os << '}';
    return true;
  }

  void varRef(const ValueDecl *D) {
    if (auto *vd = dyn_cast<VarDecl>(D)) {
      os << "{\"k\":\"var\",\"id\":" << idOf(vd) << ",\"name\":";
      jstr(os, vd->getName());
      os << ",\"t\":";
      type(vd->getType());
      os << ",\"ct\":";
      ctype(vd->getType());
      if (auto *pv = dyn_cast<ParmVarDecl>(vd))
        os << ",\"param\":" << pv->getFunctionScopeIndex();
      if (vd->hasGlobalStorage())
        os << (vd->isStaticLocal() ? ",\"static_local\":1" : ",\"global\":1");
      if (vd->getType().isConstQualified())
        os << ",\"const\":1";
      os << '}';
    } else if (auto *fd = dyn_cast<FunctionDecl>(D)) {
      os << "{\"k\":\"fn\",\"name\":";
      jstr(os, fd->getName());
      os << '}';
    } else if (auto *ec = dyn_cast<EnumConstantDecl>(D)) {
      os << "{\"k\":\"int\",\"v\":";
      emitAPSInt(ec->getInitVal());
      os << ",\"enum\":";
      jstr(os, ec->getName());
      os << '}';
    } else {
      os << "{\"k\":\"other\",\"cls\":\"decl\"}";
    }
  }

  void emitCalleeParams(const FunctionProtoType *FPT, const FunctionDecl *FD) {
    os << ",\"params\":[";
    unsigned n = FD ? FD->getNumParams() : (FPT ? FPT->getNumParams() : 0);
    for (unsigned i = 0; i < n; ++i) {
      QualType T = FD ? FD->getParamDecl(i)->getType() : FPT->getParamType(i);
      if (i)
        os << ',';
      os << "{\"t\":";
      type(T);
      os << ",\"ct\":";
      ctype(T);
      if (T->isPointerType())
        os << ",\"ptr\":1";
      if (pointeeConst(T))
        os << ",\"pc\":1";
      os << '}';
    }
    os << ']';
    if ((FD && FD->isVariadic()) || (FPT && FPT->isVariadic()))
      os << ",\"variadic\":1";
  }

  void expr(const Stmt *S) {
    if (!S) {
      os << "null";
      return;
    }
    if (auto *E = dyn_cast<Expr>(S)) {
      // strip wrappers
      while (true) {
        if (auto *p = dyn_cast<ParenExpr>(E))
          E = p->getSubExpr();
        else if (auto *ic = dyn_cast<ImplicitCastExpr>(E))
          E = ic->getSubExpr();
        else if (auto *ce = dyn_cast<ConstantExpr>(E))
          E = ce->getSubExpr();
        else if (auto *ov = dyn_cast<OpaqueValueExpr>(E)) {
          if (ov->getSourceExpr())
            E = ov->getSourceExpr();
          else
            break;
        } else if (auto *ewc = dyn_cast<ExprWithCleanups>(E))
          E = ewc->getSubExpr();
        else if (auto *mte = dyn_cast<MaterializeTemporaryExpr>(E))
          E = mte->getSubExpr();
        else if (auto *bte = dyn_cast<CXXBindTemporaryExpr>(E))
          E = bte->getSubExpr();
        else
          break;
      }
      S = E;
      if (!isa<IntegerLiteral>(E) && !isa<CallExpr>(E) && !isa<StmtExpr>(E) && tryFold(E))
        return;
    }
    switch (S->getStmtClass()) {
    case Stmt::IntegerLiteralClass: {
      auto *L = cast<IntegerLiteral>(S);
      os << "{\"k\":\"int\",\"v\":";
      llvm::SmallString<40> s;
      L->getValue().toString(s, 10, L->getType()->isSignedIntegerType());
      os << s << '}';
      return;
    }
    case Stmt::CharacterLiteralClass:
      os << "{\"k\":\"int\",\"v\":" << cast<CharacterLiteral>(S)->getValue() << ",\"char\":1}";
      return;
    case Stmt::FloatingLiteralClass: {
      os << "{\"k\":\"float\",\"v\":";
      llvm::SmallString<40> s;
      cast<FloatingLiteral>(S)->getValue().toString(s);
      jstr(os, s);
      os << '}';
      return;
    }
    case Stmt::StringLiteralClass: {
      auto *L = cast<StringLiteral>(S);
      os << "{\"k\":\"str\",\"len\":" << L->getLength() << ",\"v\":";
      if (L->getCharByteWidth() == 1)
        jstr(os, L->getBytes().substr(0, 300));
      else
        os << "\"\"";
      os << '}';
      return;
    }
    case Stmt::PredefinedExprClass:
      os << "{\"k\":\"str\",\"v\":\"__func__\"}";
      return;
    case Stmt::DeclRefExprClass:
      varRef(cast<DeclRefExpr>(S)->getDecl());
      return;
    case Stmt::MemberExprClass: {
      auto *M = cast<MemberExpr>(S);
      if (isa<CXXMethodDecl>(M->getMemberDecl())) {
        os << "{\"k\":\"method\",\"name\":";
        jstr(os, M->getMemberDecl()->getNameAsString());
        os << ",\"base\":";
        expr(M->getBase());
        os << '}';
        return;
      }
      os << "{\"k\":\"member\",\"field\":";
      jstr(os, M->getMemberDecl()->getName());
      os << ",\"arrow\":" << (M->isArrow() ? 1 : 0) << ",\"t\":";
      type(M->getType());
      os << ",\"base\":";
      expr(M->getBase());
      os << '}';
      return;
    }
    case Stmt::ArraySubscriptExprClass: {
      auto *A = cast<ArraySubscriptExpr>(S);
      os << "{\"k\":\"index\",\"base\":";
      expr(A->getBase());
      os << ",\"idx\":";
      expr(A->getIdx());
      os << '}';
      return;
    }
    case Stmt::UnaryOperatorClass: {
      auto *U = cast<UnaryOperator>(S);
      os << "{\"k\":\"unop\",\"op\":";
      std::string op = UnaryOperator::getOpcodeStr(U->getOpcode()).str();
      if (U->isPostfix())
        op = "post" + op;
      else if (U->isIncrementDecrementOp())
        op = "pre" + op;
      jstr(os, op);
      os << ",\"e\":";
      expr(U->getSubExpr());
      os << '}';
      return;
    }
    case Stmt::BinaryOperatorClass:
    case Stmt::CompoundAssignOperatorClass: {
      auto *B = cast<BinaryOperator>(S);
      os << "{\"k\":\"binop\",\"op\":";
      jstr(os, B->getOpcodeStr());
      os << ",\"l\":";
      expr(B->getLHS());
      os << ",\"r\":";
      expr(B->getRHS());
      if (B->isAssignmentOp()) {
        os << ",\"line\":" << lineOf(B->getOperatorLoc());
      }
      if (B->getType()->isPointerType())
        os << ",\"ptr\":1";
      os << '}';
      return;
    }
    case Stmt::ConditionalOperatorClass: {
      auto *C = cast<ConditionalOperator>(S);
      os << "{\"k\":\"cond\",\"c\":";
      expr(C->getCond());
      os << ",\"a\":";
      expr(C->getTrueExpr());
      os << ",\"b\":";
      expr(C->getFalseExpr());
      os << '}';
      return;
    }
    case Stmt::BinaryConditionalOperatorClass: {
      auto *C = cast<BinaryConditionalOperator>(S);
      os << "{\"k\":\"cond\",\"c\":";
      expr(C->getCommon());
      os << ",\"a\":";
      expr(C->getCommon());
      os << ",\"b\":";
      expr(C->getFalseExpr());
      os << '}';
      return;
    }
    case Stmt::CXXOperatorCallExprClass:
    case Stmt::CXXMemberCallExprClass:
    case Stmt::CallExprClass: {
      auto *C = cast<CallExpr>(S);
      const FunctionDecl *FD = C->getDirectCallee();
      os << "{\"k\":\"call\",\"callee\":";
      if (FD)
        jstr(os, FD->getNameAsString());
      else
        os << "null";
      if (gCxx && FD) {
        os << ",\"qual\":";
        jstr(os, FD->getQualifiedNameAsString());
      }
      os << ",\"line\":" << lineOf(C->getBeginLoc());
      os << ",\"t\":";
      type(C->getType());
      if (FD && FD->isNoReturn())
        os << ",\"noreturn\":1";
      if (C->getBuiltinCallee())
        os << ",\"builtin\":1";
      if (!FD || isa<CXXMemberCallExpr>(C)) {
        os << ",\"fn\":";
        expr(C->getCallee());
      }
      const FunctionProtoType *FPT = nullptr;
      if (!FD) {
        QualType CT = C->getCallee()->getType();
        if (auto *pt = CT->getAs<PointerType>())
          CT = pt->getPointeeType();
        FPT = CT->getAs<FunctionProtoType>();
      }
      emitCalleeParams(FPT, FD);
      os << ",\"args\":[";
      for (unsigned i = 0; i < C->getNumArgs(); ++i) {
        if (i)
          os << ',';
        expr(C->getArg(i));
      }
      os << ']';
      emitMacros(C->getBeginLoc());
      os << '}';
      return;
    }
    case Stmt::CStyleCastExprClass:
    case Stmt::CXXStaticCastExprClass:
    case Stmt::CXXReinterpretCastExprClass:
    case Stmt::CXXConstCastExprClass:
    case Stmt::CXXFunctionalCastExprClass: {
      auto *C = cast<ExplicitCastExpr>(S);
      os << "{\"k\":\"cast\",\"t\":";
      type(C->getType());
      os << ",\"ct\":";
      ctype(C->getType());
      os << ",\"e\":";
      expr(C->getSubExpr());
      os << '}';
      return;
    }
    case Stmt::UnaryExprOrTypeTraitExprClass:
      os << "{\"k\":\"other\",\"cls\":\"sizeof\"}";
      return;
    case Stmt::InitListExprClass: {
      auto *I = cast<InitListExpr>(S);
      os << "{\"k\":\"initlist\",\"elems\":[";
      for (unsigned i = 0; i < I->getNumInits(); ++i) {
        if (i)
          os << ',';
        expr(I->getInit(i));
      }
      os << "]}";
      return;
    }
    case Stmt::VAArgExprClass: {
      auto *V = cast<VAArgExpr>(S);
      os << "{\"k\":\"va_arg\",\"t\":";
      type(V->getType());
      os << ",\"ct\":";
      ctype(V->getType());
      os << ",\"line\":" << lineOf(V->getBeginLoc());
      os << ",\"e\":";
      expr(V->getSubExpr());
      os << '}';
      return;
    }
    case Stmt::StmtExprClass: {
      os << "{\"k\":\"stmtexpr\"}";
      return;
    }
    case Stmt::CompoundLiteralExprClass: {
      os << "{\"k\":\"compoundlit\",\"e\":";
      expr(cast<CompoundLiteralExpr>(S)->getInitializer());
      os << '}';
      return;
    }
    case Stmt::DeclStmtClass: {
      auto *D = cast<DeclStmt>(S);
      os << "{\"k\":\"decl\",\"decls\":[";
      bool first = true;
      for (auto *d : D->decls()) {
        auto *vd = dyn_cast<VarDecl>(d);
        if (!vd)
          continue;
        if (!first)
          os << ',';
        first = false;
        os << "{\"var\":";
        varRef(vd);
        if (auto *cat = Ctx.getAsConstantArrayType(vd->getType())) {
          os << ",\"array\":";
          llvm::SmallString<40> s;
          cat->getSize().toString(s, 10, false);
          os << s;
        } else if (Ctx.getAsVariableArrayType(vd->getType())) {
          os << ",\"vla\":";
          expr(Ctx.getAsVariableArrayType(vd->getType())->getSizeExpr());
        }
        if (vd->hasInit()) {
          os << ",\"init\":";
          expr(vd->getInit());
        }
        os << '}';
      }
      os << "]}";
      return;
    }
    case Stmt::ReturnStmtClass: {
      os << "{\"k\":\"return\",\"e\":";
      expr(cast<ReturnStmt>(S)->getRetValue());
      os << '}';
      return;
    }
    case Stmt::GCCAsmStmtClass: {
      auto *A = cast<GCCAsmStmt>(S);
      os << "{\"k\":\"asm\",\"outs\":[";
      for (unsigned i = 0; i < A->getNumOutputs(); ++i) {
        if (i)
          os << ',';
        expr(A->getOutputExpr(i));
      }
      os << "],\"ins\":[";
      for (unsigned i = 0; i < A->getNumInputs(); ++i) {
        if (i)
          os << ',';
        expr(A->getInputExpr(i));
      }
      os << "]}";
      return;
    }
    case Stmt::NullStmtClass:
      os << "{\"k\":\"null\"}";
      return;
    case Stmt::CXXThisExprClass:
      os << "{\"k\":\"this\"}";
      return;
    case Stmt::CXXConstructExprClass:
    case Stmt::CXXTemporaryObjectExprClass: {
      auto *C = cast<CXXConstructExpr>(S);
      os << "{\"k\":\"construct\",\"cls\":";
      jstr(os, C->getConstructor()->getParent()->getNameAsString());
      os << ",\"t\":";
      type(C->getType());
      os << ",\"args\":[";
      for (unsigned i = 0; i < C->getNumArgs(); ++i) {
        if (i)
          os << ',';
        expr(C->getArg(i));
      }
      os << "]}";
      return;
    }
    default:
      os << "{\"k\":\"other\",\"cls\":";
      jstr(os, S->getStmtClassName());
      // still export children so that calls inside are not lost
      os << ",\"kids\":[";
      bool first = true;
      for (const Stmt *c : S->children()) {
        if (!c)
          continue;
        if (!first)
          os << ',';
        first = false;
        expr(c);
      }
      os << "]}";
      return;
    }
  }

  bool wanted(const FunctionDecl *FD) {
    if (!FD->doesThisDeclarationHaveABody())
      return false;
    if (FD->isDependentContext())
      return false;
    SourceLocation L = SM.getExpansionLoc(FD->getLocation());
    if (SM.isInSystemHeader(L))
      return false;
    if (gAllHeaders)
      return true;
    if (SM.isInMainFile(L))
      return true;
    std::string f = fileOf(L);
    llvm::StringRef b = llvm::sys::path::filename(f);
    // template-style includes (mpz/aors.h, mul_i.h, fits_s.h ...) belong to the unit;
    // the big shared headers are exported once with --all-headers.
    if (b == "gmp-impl.h" || b == "mpir.h" || b == "gmp.h" || b.startswith("longlong") ||
        b == "mpirxx.h" || b == "fft.h" || b == "randmt.h")
      return false;
    return true;
  }

  void function(const FunctionDecl *FD, bool &firstFn) {
    CurFD = FD;
    CFG::BuildOptions BO;
    BO.PruneTriviallyFalseEdges = true;
    BO.AddImplicitDtors = false;
    BO.AddTemporaryDtors = false;
    BO.AddInitializers = true;
    std::unique_ptr<CFG> cfg = CFG::buildCFG(FD, FD->getBody(), &Ctx, BO);
    if (!firstFn)
      os << ",\n";
    firstFn = false;
    os << "{\"name\":";
    jstr(os, FD->getNameAsString());
    if (gCxx) {
      os << ",\"qual\":";
      jstr(os, FD->getQualifiedNameAsString());
      // template specialization arguments, for reporting
      std::string s;
      llvm::raw_string_ostream ss(s);
      FD->getNameForDiagnostic(ss, Ctx.getPrintingPolicy(), true);
      os << ",\"diag\":";
      jstr(os, ss.str());
      if (auto *md = dyn_cast<CXXMethodDecl>(FD)) {
        os << ",\"cls\":";
        std::string c;
        llvm::raw_string_ostream cs(c);
        md->getParent()->getNameForDiagnostic(cs, Ctx.getPrintingPolicy(), true);
        jstr(os, cs.str());
        if (auto *spec = dyn_cast<ClassTemplateSpecializationDecl>(md->getParent())) {
          auto from = spec->getSpecializedTemplateOrPartial();
          if (auto *ps = from.dyn_cast<ClassTemplatePartialSpecializationDecl *>()) {
            os << ",\"partial_line\":" << lineOf(ps->getLocation());
            os << ",\"partial_sig\":";
            jstr(os, ps->getInjectedSpecializationType().getAsString());
          }
          else if (auto *ct = from.dyn_cast<ClassTemplateDecl *>())
            os << ",\"primary_line\":" << lineOf(ct->getLocation());
        }
      }
    }
    os << ",\"file\":";
    jstr(os, fileOf(FD->getLocation()));
    os << ",\"line\":" << lineOf(FD->getLocation());
    os << ",\"endline\":" << lineOf(FD->getBodyRBrace());
    os << ",\"ret\":";
    type(FD->getReturnType());
    os << ",\"static\":" << (FD->getStorageClass() == SC_Static || FD->isInlined() ? 1 : 0);
    os << ",\"params\":[";
    for (unsigned i = 0; i < FD->getNumParams(); ++i) {
      auto *p = FD->getParamDecl(i);
      if (i)
        os << ',';
      os << "{\"id\":" << idOf(p) << ",\"name\":";
      jstr(os, p->getName());
      os << ",\"t\":";
      type(p->getType());
      os << ",\"ct\":";
      ctype(p->getType());
      if (p->getType()->isPointerType())
        os << ",\"ptr\":1";
      if (pointeeConst(p->getType()))
        os << ",\"pc\":1";
      os << '}';
    }
    os << "]";
    if (FD->isVariadic())
      os << ",\"variadic\":1";
    if (!cfg) {
      os << ",\"nocfg\":1,\"blocks\":[]}";
      return;
    }
    os << ",\"entry\":" << cfg->getEntry().getBlockID() << ",\"exit\":" << cfg->getExit().getBlockID();
    os << ",\"blocks\":[";
    bool firstB = true;
    for (const CFGBlock *B : *cfg) {
      if (!firstB)
        os << ',';
      firstB = false;
      os << "\n {\"id\":" << B->getBlockID();
      if (B->hasNoReturnElement())
        os << ",\"noreturn\":1";
      if (const Stmt *lab = B->getLabel()) {
        if (auto *cs = dyn_cast<CaseStmt>(lab)) {
          os << ",\"case\":";
          expr(cs->getLHS());
          if (cs->getRHS()) {
            os << ",\"case_hi\":";
            expr(cs->getRHS());
          }
        } else if (isa<DefaultStmt>(lab))
          os << ",\"default\":1";
        else if (auto *ls = dyn_cast<LabelStmt>(lab)) {
          os << ",\"label\":";
          jstr(os, ls->getName());
        }
      }
      os << ",\"elems\":[";
      bool firstE = true;
      for (const CFGElement &E : *B) {
        auto cs = E.getAs<CFGStmt>();
        if (!cs)
          continue;
        const Stmt *S = cs->getStmt();
        if (!firstE)
          os << ',';
        firstE = false;
        os << "\n  {\"line\":" << lineOf(S->getBeginLoc());
        emitMacros(S->getBeginLoc());
        os << ",\"e\":";
        expr(S);
        os << '}';
      }
      os << "]";
      if (const Stmt *T = B->getTerminatorStmt()) {
        os << ",\"term\":{\"kind\":";
        const char *kind = T->getStmtClassName();
        if (auto *bo = dyn_cast<BinaryOperator>(T))
          kind = bo->getOpcode() == BO_LAnd ? "&&" : bo->getOpcode() == BO_LOr ? "||" : kind;
        jstr(os, kind);
        os << ",\"line\":" << lineOf(T->getBeginLoc());
        emitMacros(T->getBeginLoc());
        if (const Stmt *c = B->getTerminatorCondition()) {
          os << ",\"cond\":";
          expr(c);
          os << ",\"txt\":";
          jstr(os, text(c, 160));
        }
        os << '}';
      }
      os << ",\"succs\":[";
      bool firstS = true;
      for (auto I = B->succ_begin(); I != B->succ_end(); ++I) {
        if (!firstS)
          os << ',';
        firstS = false;
        if (const CFGBlock *sb = I->getReachableBlock())
          os << sb->getBlockID();
        else if (const CFGBlock *ub = I->getPossiblyUnreachableBlock())
          os << "{\"pruned\":" << ub->getBlockID() << '}';
        else
          os << "null";
      }
      os << "]}";
    }
    os << "]}";
  }

  void globalVar(const VarDecl *VD, bool &first) {
    if (!first)
      os << ",\n";
    first = false;
    os << "{\"name\":";
    jstr(os, VD->getName());
    os << ",\"id\":" << idOf(VD) << ",\"file\":";
    jstr(os, fileOf(VD->getLocation()));
    os << ",\"line\":" << lineOf(VD->getLocation()) << ",\"t\":";
    type(VD->getType());
    os << ",\"def\":" << (VD->isThisDeclarationADefinition() == VarDecl::Definition ? 1 : 0);
    os << ",\"const\":" << (VD->getType().isConstQualified() ||
                                    (Ctx.getAsArrayType(VD->getType()) &&
                                     Ctx.getBaseElementType(VD->getType()).isConstQualified())
                                ? 1
                                : 0);
    if (auto *cat = Ctx.getAsConstantArrayType(VD->getType())) {
      llvm::SmallString<40> s;
      cat->getSize().toString(s, 10, false);
      os << ",\"array\":" << s;
    }
    if (VD->hasInit() && VD->isThisDeclarationADefinition() == VarDecl::Definition) {
      os << ",\"init\":";
      expr(VD->getInit());
    }
    os << '}';
  }

  void record(const RecordDecl *RD, bool &first) {
    if (!RD->isCompleteDefinition() || RD->getName().empty() && !RD->getTypedefNameForAnonDecl())
      return;
    if (!first)
      os << ",\n";
    first = false;
    os << "{\"name\":";
    jstr(os, RD->getName().empty() ? RD->getTypedefNameForAnonDecl()->getName() : RD->getName());
    os << ",\"file\":";
    jstr(os, fileOf(RD->getLocation()));
    os << ",\"line\":" << lineOf(RD->getLocation()) << ",\"fields\":[";
    bool ff = true;
    for (auto *f : RD->fields()) {
      if (!ff)
        os << ',';
      ff = false;
      os << "{\"name\":";
      jstr(os, f->getName());
      os << ",\"t\":";
      type(f->getType());
      os << ",\"ct\":";
      ctype(f->getType());
      if (auto *cat = Ctx.getAsConstantArrayType(f->getType())) {
        llvm::SmallString<40> s;
        cat->getSize().toString(s, 10, false);
        os << ",\"array\":" << s;
      }
      os << '}';
    }
    os << "]}";
  }
};

class Consumer : public ASTConsumer {
  std::string unit;

public:
  explicit Consumer(std::string u) : unit(std::move(u)) {}
  void HandleTranslationUnit(ASTContext &Ctx) override {
    std::string mangled = unit;
    for (auto &c : mangled)
      if (c == '/')
        c = '_';
    std::string path = gOutDir + "/" + mangled + ".json";
    std::error_code ec;
    llvm::raw_fd_ostream out(path, ec);
    if (ec) {
      llvm::errs() << "cannot write " << path << "\n";
      return;
    }
    Exporter X(Ctx, out);
    out << "{\"unit\":";
    jstr(out, unit);
    out << ",\"errors\":" << Ctx.getDiagnostics().getNumErrors();
    out << ",\"functions\":[\n";
    bool first = true;

    struct V : RecursiveASTVisitor<V> {
      Exporter &X;
      bool &first;
      std::vector<const VarDecl *> gvars;
      std::vector<const RecordDecl *> recs;
      std::vector<const FunctionDecl *> protos;
      std::vector<const ClassTemplatePartialSpecializationDecl *> partials;
      V(Exporter &x, bool &f) : X(x), first(f) {}
      bool VisitClassTemplatePartialSpecializationDecl(ClassTemplatePartialSpecializationDecl *D) {
        if (D->isThisDeclarationADefinition())
          partials.push_back(D);
        return true;
      }
      bool shouldVisitTemplateInstantiations() const { return true; }
      bool VisitFunctionDecl(FunctionDecl *FD) {
        if (X.wanted(FD))
          X.function(FD, first);
        else if (!FD->doesThisDeclarationHaveABody() && FD->isFirstDecl() &&
                 !X.SM.isInSystemHeader(X.SM.getExpansionLoc(FD->getLocation())))
          protos.push_back(FD);
        return true;
      }
      bool VisitVarDecl(VarDecl *VD) {
        if (VD->hasGlobalStorage() && !isa<ParmVarDecl>(VD) &&
            !X.SM.isInSystemHeader(X.SM.getExpansionLoc(VD->getLocation())))
          gvars.push_back(VD);
        return true;
      }
      bool VisitRecordDecl(RecordDecl *RD) {
        if (!X.SM.isInSystemHeader(X.SM.getExpansionLoc(RD->getLocation())))
          recs.push_back(RD);
        return true;
      }
    } v(X, first);
    v.TraverseDecl(Ctx.getTranslationUnitDecl());
    out << "\n],\"globals\":[\n";
    first = true;
    for (auto *g : v.gvars)
      X.globalVar(g, first);
    out << "\n],\"records\":[\n";
    first = true;
    if (!gCxx)
      for (auto *r : v.recs)
        X.record(r, first);
    out << "\n],\"protos\":[\n";
    first = true;
    if (gAllHeaders && !gCxx)
      for (auto *fd : v.protos) {
        if (!first)
          out << ",\n";
        first = false;
        out << "{\"name\":";
        jstr(out, fd->getNameAsString());
        out << ",\"file\":";
        jstr(out, X.fileOf(fd->getLocation()));
        out << ",\"line\":" << X.lineOf(fd->getLocation()) << ",\"ret\":";
        X.type(fd->getReturnType());
        X.emitCalleeParams(nullptr, fd);
        if (fd->isNoReturn())
          out << ",\"noreturn\":1";
        out << "}";
      }
    out << "\n],\"partials\":[\n";
    first = true;
    if (gCxx)
      for (auto *ps : v.partials) {
        bool hasEval = false;
        for (auto *d : ps->decls())
          if (auto *m = dyn_cast<CXXMethodDecl>(d))
            if (m->getNameAsString() == "eval")
              hasEval = true;
        if (!first)
          out << ",\n";
        first = false;
        out << "{\"name\":";
        jstr(out, ps->getNameAsString());
        out << ",\"file\":";
        jstr(out, X.fileOf(ps->getLocation()));
        out << ",\"line\":" << X.lineOf(ps->getLocation()) << ",\"has_eval\":" << (hasEval ? 1 : 0) << ",\"sig\":";
        jstr(out, ps->getInjectedSpecializationType().getAsString());
        out << "}";
      }
    out << "\n]}\n";
  }
};

class Action : public ASTFrontendAction {
public:
  std::unique_ptr<ASTConsumer> CreateASTConsumer(CompilerInstance &CI, llvm::StringRef file) override {
    CI.getDiagnostics().setSuppressAllDiagnostics(true);
    return std::make_unique<Consumer>(file.str());
  }
};

} // namespace

int main(int argc, const char **argv) {
  std::vector<std::string> files, flags;
  std::string overlay;
  int i = 1;
  for (; i < argc; ++i) {
    std::string a = argv[i];
    if (a == "--") {
      ++i;
      break;
    }
    if (a == "--overlay" && i + 1 < argc)
      overlay = argv[++i];
    else if (a == "--out" && i + 1 < argc)
      gOutDir = argv[++i];
    else if (a == "--all-headers")
      gAllHeaders = true;
    else if (a == "--cxx")
      gCxx = true;
    else
      files.push_back(a);
  }
  for (; i < argc; ++i)
    flags.push_back(argv[i]);
  if (files.empty()) {
    llvm::errs() << "usage: mpir-sa [--overlay y] [--out dir] files... -- flags\n";
    return 2;
  }
  llvm::IntrusiveRefCntPtr<llvm::vfs::FileSystem> base = llvm::vfs::getRealFileSystem();
  if (!overlay.empty()) {
    auto buf = llvm::MemoryBuffer::getFile(overlay);
    if (!buf) {
      llvm::errs() << "cannot read overlay " << overlay << "\n";
      return 2;
    }
    auto vfs = llvm::vfs::getVFSFromYAML(std::move(*buf), nullptr, overlay, nullptr, llvm::vfs::getRealFileSystem());
    if (!vfs) {
      llvm::errs() << "bad overlay " << overlay << "\n";
      return 2;
    }
    auto ofs = llvm::makeIntrusiveRefCnt<llvm::vfs::OverlayFileSystem>(llvm::vfs::getRealFileSystem());
    ofs->pushOverlay(std::move(vfs));
    base = ofs;
  }
  int rc = 0;
  // each unit has its own directory-relative flags (-I., -DOPERATION_x): the driver
  // passes per-file flags by invoking us once per flag set; files in one call share flags
  // except for {BASE} and {DIR} placeholders.
  for (auto &f : files) {
    std::vector<std::string> fl;
    std::string dir = llvm::sys::path::parent_path(f).str();
    std::string basen = llvm::sys::path::stem(f).str();
    for (auto s : flags) {
      size_t p;
      while ((p = s.find("{DIR}")) != std::string::npos)
        s.replace(p, 5, dir);
      while ((p = s.find("{BASE}")) != std::string::npos)
        s.replace(p, 6, basen);
      fl.push_back(s);
    }
    FixedCompilationDatabase db(dir.empty() ? "." : dir, fl);
    ClangTool tool(db, {f}, std::make_shared<PCHContainerOperations>(), base);
    tool.setDiagnosticConsumer(new IgnoringDiagConsumer());
    int r = tool.run(newFrontendActionFactory<Action>().get());
    if (r != 0) {
      llvm::errs() << "mpir-sa: errors in " << f << "\n";
      rc = 1;
    }
  }
  return rc;
}
