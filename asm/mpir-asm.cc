// mpir-asm: decode assembled MPIR kernels (ELF x86-64 relocatable objects) with LLVM MC and emit, per object,
// a JSON description of every instruction: explicit/implicit register defs and uses (with 64-bit super
// registers and access widths), memory operands, immediates, branch targets, and the instruction properties
// LLVM records (mayLoad, mayStore, branch, call, return, indirect branch).  Symbols and relocations are
// included so that the Python side can find entry points and the targets of jump tables.
//
//   mpir-asm obj.o [obj.o ...]  > facts.json
#include "llvm/MC/MCAsmInfo.h"
#include "llvm/MC/MCContext.h"
#include "llvm/MC/MCDisassembler/MCDisassembler.h"
#include "llvm/MC/MCInst.h"
#include "llvm/MC/MCInstPrinter.h"
#include "llvm/MC/MCInstrInfo.h"
#include "llvm/MC/MCRegisterInfo.h"
#include "llvm/MC/MCSubtargetInfo.h"
#include "llvm/MC/MCTargetOptions.h"
#include "llvm/MC/TargetRegistry.h"
#include "llvm/Object/ELFObjectFile.h"
#include "llvm/Object/ObjectFile.h"
#include "llvm/Support/JSON.h"
#include "llvm/Support/TargetSelect.h"
#include "llvm/Support/raw_ostream.h"
#include <map>
#include <string>

using namespace llvm;
using namespace llvm::object;

static std::unique_ptr<MCRegisterInfo> MRI;
static std::unique_ptr<MCInstrInfo> MII;

static json::Object regJson(unsigned R) {
  json::Object o;
  o["r"] = StringRef(MRI->getName(R)).lower();
  // largest super register
  unsigned top = R;
  for (MCSuperRegIterator S(R, MRI.get(), false); S.isValid(); ++S)
    top = *S;
  o["top"] = StringRef(MRI->getName(top)).lower();
  // width in bits from the register classes it belongs to
  unsigned bits = 0;
  for (unsigned c = 0; c < MRI->getNumRegClasses(); ++c) {
    const MCRegisterClass &RC = MRI->getRegClass(c);
    if (RC.contains(R)) {
      unsigned b = RC.getSizeInBits();
      if (b && (bits == 0 || b < bits))
        bits = b;
    }
  }
  o["bits"] = (int64_t)bits;
  return o;
}

int main(int argc, char **argv) {
  LLVMInitializeX86TargetInfo();
  LLVMInitializeX86TargetMC();
  LLVMInitializeX86Disassembler();
  std::string TripleName = "x86_64-unknown-linux-gnu", Err;
  const Target *T = TargetRegistry::lookupTarget(TripleName, Err);
  if (!T) {
    errs() << Err << "\n";
    return 2;
  }
  MRI.reset(T->createMCRegInfo(TripleName));
  MCTargetOptions MCOpts;
  std::unique_ptr<MCAsmInfo> MAI(T->createMCAsmInfo(*MRI, TripleName, MCOpts));
  std::unique_ptr<MCSubtargetInfo> STI(T->createMCSubtargetInfo(
      TripleName, "skylake", "+avx,+avx2,+bmi,+bmi2,+adx,+sse4.2,+popcnt,+lzcnt,+3dnow,+3dnowa"));
  MII.reset(T->createMCInstrInfo());
  MCContext Ctx(Triple(TripleName), MAI.get(), MRI.get(), STI.get());
  std::unique_ptr<MCDisassembler> Dis(T->createMCDisassembler(*STI, Ctx));
  std::unique_ptr<MCInstPrinter> IP(T->createMCInstPrinter(Triple(TripleName), 0, *MAI, *MII, *MRI));
  if (!Dis || !IP) {
    errs() << "no disassembler\n";
    return 2;
  }
  json::Array objs;
  for (int ai = 1; ai < argc; ++ai) {
    json::Object jo;
    jo["object"] = argv[ai];
    auto BinOrErr = ObjectFile::createObjectFile(argv[ai]);
    if (!BinOrErr) {
      jo["error"] = toString(BinOrErr.takeError());
      objs.push_back(std::move(jo));
      continue;
    }
    ObjectFile &Obj = *BinOrErr->getBinary();
    // section index -> name
    std::map<uint64_t, std::string> secName;
    for (const SectionRef &S : Obj.sections())
      if (auto N = S.getName())
        secName[S.getIndex()] = N->str();
    json::Array syms;
    for (const SymbolRef &S : Obj.symbols()) {
      json::Object js;
      auto N = S.getName();
      auto A = S.getAddress();
      auto Ty = S.getType();
      auto Sec = S.getSection();
      auto Fl = S.getFlags();
      if (!N || !A || !Ty || !Sec || !Fl)
        continue;
      js["name"] = N->str();
      js["addr"] = (int64_t)*A;
      js["global"] = bool(*Fl & SymbolRef::SF_Global);
      js["undefined"] = bool(*Fl & SymbolRef::SF_Undefined);
      js["type"] = (int64_t)*Ty;
      if (*Sec != Obj.section_end())
        js["section"] = secName[(*Sec)->getIndex()];
      syms.push_back(std::move(js));
    }
    jo["symbols"] = std::move(syms);
    json::Array secs;
    int decodeFailures = 0;
    for (const SectionRef &S : Obj.sections()) {
      json::Object jsx;
      auto N = S.getName();
      std::string name = N ? N->str() : "";
      jsx["name"] = name;
      jsx["text"] = S.isText();
      jsx["size"] = (int64_t)S.getSize();
      // relocations that apply to this section
      json::Array rels;
      for (const SectionRef &RS : Obj.sections()) {
        auto Rel = RS.getRelocatedSection();
        if (!Rel || *Rel == Obj.section_end() || (*Rel)->getIndex() != S.getIndex())
          continue;
        for (const RelocationRef &R : RS.relocations()) {
          json::Object jr;
          jr["offset"] = (int64_t)R.getOffset();
          jr["type"] = (int64_t)R.getType();
          SmallString<32> tn;
          R.getTypeName(tn);
          jr["typename"] = std::string(tn.str());
          auto SI = R.getSymbol();
          if (SI != Obj.symbol_end()) {
            if (auto SN = SI->getName())
              jr["symbol"] = SN->str();
            auto SecOr = SI->getSection();
            if (SecOr && *SecOr != Obj.section_end())
              jr["symsection"] = secName[(*SecOr)->getIndex()];
            if (auto SA = SI->getAddress())
              jr["symaddr"] = (int64_t)*SA;
          }
          if (auto *EO = dyn_cast<ELFObjectFileBase>(&Obj)) {
            if (auto Add = ELFRelocationRef(R).getAddend())
              jr["addend"] = (int64_t)*Add;
          }
          rels.push_back(std::move(jr));
        }
      }
      jsx["relocs"] = std::move(rels);
      if (S.isText()) {
        auto C = S.getContents();
        if (!C) {
          jsx["error"] = "no contents";
          secs.push_back(std::move(jsx));
          continue;
        }
        ArrayRef<uint8_t> Bytes((const uint8_t *)C->data(), C->size());
        json::Array insts;
        uint64_t addr = 0;
        while (addr < Bytes.size()) {
          MCInst I;
          uint64_t sz = 0;
          auto st = Dis->getInstruction(I, sz, Bytes.slice(addr), addr, nulls());
          json::Object ji;
          ji["a"] = (int64_t)addr;
          if (st != MCDisassembler::Success) {
            ji["bad"] = true;
            ji["n"] = 1;
            ++decodeFailures;
            insts.push_back(std::move(ji));
            addr += 1;
            continue;
          }
          ji["n"] = (int64_t)sz;
          const MCInstrDesc &D = MII->get(I.getOpcode());
          ji["op"] = MII->getName(I.getOpcode()).str();
          std::string txt;
          raw_string_ostream ts(txt);
          IP->printInst(&I, addr, "", *STI, ts);
          ts.flush();
          // trim
          size_t b = txt.find_first_not_of(" \t");
          ji["t"] = b == std::string::npos ? txt : txt.substr(b);
          json::Array defs, uses, mems, imms;
          unsigned nd = D.getNumDefs();
          for (unsigned k = 0; k < I.getNumOperands(); ++k) {
            const MCOperand &O = I.getOperand(k);
            bool isMem = k < D.getNumOperands() && D.OpInfo[k].OperandType == MCOI::OPERAND_MEMORY;
            // LEA's address operand is not typed OPERAND_MEMORY (it does not access memory) but has the same 5-operand form
            if (!isMem && k == 1 && MII->getName(I.getOpcode()).startswith("LEA") && I.getNumOperands() == 6)
              isMem = true;
            if (isMem && k + 4 < I.getNumOperands() + 0 && O.isReg()) {
              // x86 memory reference: base, scale, index, disp, segment
              json::Object m;
              const MCOperand &Base = I.getOperand(k), &Scale = I.getOperand(k + 1), &Index = I.getOperand(k + 2),
                              &Disp = I.getOperand(k + 3);
              if (Base.isReg() && Base.getReg())
                m["base"] = regJson(Base.getReg());
              if (Index.isReg() && Index.getReg())
                m["index"] = regJson(Index.getReg());
              if (Scale.isImm())
                m["scale"] = Scale.getImm();
              if (Disp.isImm())
                m["disp"] = Disp.getImm();
              else
                m["disp_sym"] = true;
              mems.push_back(std::move(m));
              k += 4;
              continue;
            }
            if (O.isReg()) {
              if (!O.getReg())
                continue;
              if (k < nd)
                defs.push_back(regJson(O.getReg()));
              else
                uses.push_back(regJson(O.getReg()));
              // tied operands: a def tied to a use is also read (two-address x86 forms list both)
            } else if (O.isImm()) {
              imms.push_back(O.getImm());
            }
          }
          json::Array idefs, iuses;
          if (const MCPhysReg *p = D.getImplicitDefs())
            for (; *p; ++p)
              idefs.push_back(regJson(*p));
          if (const MCPhysReg *p = D.getImplicitUses())
            for (; *p; ++p)
              iuses.push_back(regJson(*p));
          ji["defs"] = std::move(defs);
          ji["uses"] = std::move(uses);
          ji["idefs"] = std::move(idefs);
          ji["iuses"] = std::move(iuses);
          if (!mems.empty())
            ji["mem"] = std::move(mems);
          if (!imms.empty())
            ji["imm"] = std::move(imms);
          json::Array fl;
          if (D.mayLoad())
            fl.push_back("load");
          if (D.mayStore())
            fl.push_back("store");
          if (D.isBranch())
            fl.push_back("branch");
          if (D.isConditionalBranch())
            fl.push_back("cond");
          if (D.isUnconditionalBranch())
            fl.push_back("uncond");
          if (D.isIndirectBranch())
            fl.push_back("indirect");
          if (D.isCall())
            fl.push_back("call");
          if (D.isReturn())
            fl.push_back("ret");
          ji["f"] = std::move(fl);
          if (D.isBranch() || D.isCall()) {
            // pc-relative target
            for (unsigned k = 0; k < I.getNumOperands(); ++k)
              if (k < D.getNumOperands() && D.OpInfo[k].OperandType == MCOI::OPERAND_PCREL && I.getOperand(k).isImm())
                ji["target"] = (int64_t)(addr + sz + I.getOperand(k).getImm());
          }
          insts.push_back(std::move(ji));
          addr += sz;
        }
        jsx["insts"] = std::move(insts);
      }
      secs.push_back(std::move(jsx));
    }
    jo["sections"] = std::move(secs);
    jo["decode_failures"] = decodeFailures;
    objs.push_back(std::move(jo));
  }
  outs() << json::Value(std::move(objs)) << "\n";
  return 0;
}
