/* Replay: gmp_randinit_lc_2exp with an odd m2exp whose half is not limb aligned (45).
   lc() hands (m2exp+1)/2 = 23 bits to randget_lc, which advances by m2exp/2 = 22 bits per chunk:
   (a) a request of exactly k*22 bits is never masked, so mpz_urandomb (z, st, 22) returns values >= 2^22;
   (b) the bit at every chunk boundary is the OR of two state bits (set ~75% of the time).
   build: gcc -I$REPO lc45.c $REPO/.libs/libmpir.a -o lc45 ; exit 1 = defect present */
#include <stdio.h>
#include "mpir.h"
int main (void)
{
  gmp_randstate_t st; mpz_t a, z; int i, over = 0, ones = 0, n = 20000;
  mpz_init_set_str (a, "5851F42D4C957F2D", 16); mpz_init (z);
  gmp_randinit_lc_2exp (st, a, 1, 45);
  gmp_randseed_ui (st, 12345);
  for (i = 0; i < n; i++)
    {
      mpz_urandomb (z, st, 22);
      if (mpz_sizeinbase (z, 2) > 22) over++;
    }
  for (i = 0; i < n; i++)
    {
      mpz_urandomb (z, st, 60);
      ones += mpz_tstbit (z, 22);
    }
  printf ("mpz_urandomb(22): %d of %d values >= 2^22;  bit 22 of 60-bit draws set in %.1f%%\n", over, n, 100.0 * ones / n);
  return over != 0 || ones > n * 0.6;
}
