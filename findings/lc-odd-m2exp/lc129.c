/* replay: gmp_randinit_lc_2exp with m2exp = 129 (odd, m2exp/2 = 64 a multiple of the limb size): one lc() step yields 65 bits
   = two limbs, but randget_lc / mpz_urandomb (x, r, 64) reserve one limb.  Guard-zone allocator detects the overwrite. */
#include <stdio.h>
#include <stdlib.h>
#include <string.h>
#include "mpir.h"
#define GUARD 64
static int corrupt;
static void *g_alloc (size_t n) { unsigned char *p = malloc (n + 2 * GUARD + sizeof (size_t)); *(size_t *) p = n; memset (p + sizeof (size_t), 0xA5, GUARD); memset (p + sizeof (size_t) + GUARD + n, 0xA5, GUARD); return p + sizeof (size_t) + GUARD; }
static void g_check (void *q, size_t n, const char *who)
{ unsigned char *p = (unsigned char *) q - GUARD - sizeof (size_t); size_t i, real = *(size_t *) p;
  if (real != n) { printf ("%s: size %zu given, block has %zu\n", who, n, real); corrupt = 1; }
  for (i = 0; i < GUARD; i++) if (p[sizeof (size_t) + i] != 0xA5) { printf ("%s: byte %zu BEFORE the block overwritten\n", who, GUARD - i); corrupt = 1; break; }
  for (i = 0; i < GUARD; i++) if (p[sizeof (size_t) + GUARD + real + i] != 0xA5) { printf ("%s: byte %zu PAST the %zu-byte block overwritten\n", who, i, real); corrupt = 1; break; } }
static void g_free (void *q, size_t n) { g_check (q, n, "free"); free ((unsigned char *) q - GUARD - sizeof (size_t)); }
static void *g_realloc (void *q, size_t o, size_t n) { void *r = g_alloc (n); memcpy (r, q, o < n ? o : n); g_free (q, o); return r; }
int main (int argc, char **argv)
{
  unsigned long m2exp = argc > 1 ? strtoul (argv[1], 0, 0) : 129;
  gmp_randstate_t rs; mpz_t a, x; int i;
  mp_set_memory_functions (g_alloc, g_realloc, g_free);
  mpz_init_set_str (a, "48A74F367FA7B5C8ACBB36901308FA85", 16);
  gmp_randinit_lc_2exp (rs, a, 1, m2exp);
  mpz_init2 (x, 64);                       /* exactly one limb */
  for (i = 0; i < 4; i++) mpz_urandomb (x, rs, 64);
  mpz_clear (x); mpz_clear (a); gmp_randclear (rs);
  printf ("m2exp=%lu: %s\n", m2exp, corrupt ? "HEAP CORRUPTED" : "ok");
  return corrupt;
}
