/* Replay: mpz_powm temporarily MODIFIES its const modulus operand.
   The modulus limbs are placed in a page that is made read-only after initialisation (mpz_roinit_n gives a
   read-only mpz view of them).  A correct library only reads them.  With n odd, REDC_N threshold <= n <= 256,
   mpz_powm -> mpn_powm -> mpn_redc_n -> mpn_mulmod_bnm1 (.., mp, n, ..) -> mpn_mulmod_2expm1 (rp, ap, (mp_ptr) mp, ..)
   masks zp[m-1] in place (and restores it later): the store faults.
   build:  gcc -I/repo powm_ro.c /repo/.libs/libmpir.a -o powm_ro ; ./powm_ro <limbs>
   exit 0 = operand was only read; exit 1 = the library wrote to its const operand (SIGSEGV caught). */
#include <stdio.h>
#include <stdlib.h>
#include <string.h>
#include <signal.h>
#include <setjmp.h>
#include <sys/mman.h>
#include <unistd.h>
#include "mpir.h"

static sigjmp_buf jb;
static void *fault_addr;
static void on_segv (int sig, siginfo_t *si, void *ctx) { fault_addr = si->si_addr; siglongjmp (jb, 1); }

int main (int argc, char **argv)
{
  long n = argc > 1 ? atol (argv[1]) : 101, i;
  long pg = sysconf (_SC_PAGESIZE);
  size_t bytes = ((n * sizeof (mp_limb_t) + pg - 1) / pg) * pg;
  mp_limb_t *mp = mmap (NULL, bytes, PROT_READ | PROT_WRITE, MAP_PRIVATE | MAP_ANONYMOUS, -1, 0);
  mpz_t m, b, e, r;
  struct sigaction sa;
  gmp_randstate_t rs;

  gmp_randinit_default (rs);
  mpz_init (b); mpz_init (e); mpz_init (r);
  mpz_urandomb (b, rs, n * GMP_LIMB_BITS - 3);
  mpz_urandomb (e, rs, 200);
  for (i = 0; i < n; i++) mp[i] = 0x9e3779b97f4a7c15UL * (i + 1) | 1;     /* odd, top limb non-zero */
  mprotect (mp, bytes, PROT_READ);
  mpz_roinit_n (m, mp, n);

  memset (&sa, 0, sizeof sa);
  sa.sa_sigaction = on_segv; sa.sa_flags = SA_SIGINFO;
  sigaction (SIGSEGV, &sa, NULL);
  if (sigsetjmp (jb, 1))
    {
      printf ("n=%ld: mpz_powm WROTE to its const modulus: fault at limb %ld of %ld\n", n,
              (long) ((mp_limb_t *) fault_addr - mp), n);
      return 1;
    }
  mpz_powm (r, b, e, m);
  printf ("n=%ld: modulus only read\n", n);
  return 0;
}
