#include <stdio.h>
#include "mpir.h"
int main(void){
  mpq_t q, r; mpq_init(q); mpq_init(r);
  mpz_set_ui(mpq_numref(q),3);
  mpz_set_str(mpq_denref(q),"1234567890abcdef1122334455667789aabbccddeeff00110000000000000000",16);
  mpq_canonicalize(q);
  mpq_mul_2exp(r,q,64);
  mpq_mul_2exp(q,q,64);
  gmp_printf("%Qx\n%Qx\n",r,q);
  return !mpq_equal(q,r);
}
