#include <stdio.h>
#include <stdlib.h>
#include <string.h>
#include "mpir.h"
/* allocator with a 16-byte canary after every block, checked on free/realloc */
static int bad;
static void *xa(size_t n){ unsigned char*p=malloc(n+16+sizeof(size_t)); *(size_t*)p=n; memset(p+sizeof(size_t)+n,0xA5,16); return p+sizeof(size_t);}
static void chk(void*q,size_t n,const char*who){ unsigned char*p=(unsigned char*)q; size_t real=*(size_t*)(p-sizeof(size_t));
  if(real!=n){printf("%s: size passed %zu != allocated %zu\n",who,n,real);bad=1;}
  for(int i=0;i<16;i++) if(p[real+i]!=0xA5){printf("%s: byte %d past the end of a %zu-byte block was overwritten (0x%02x)\n",who,i,real,p[real+i]);bad=1;break;}}
static void xf(void*q,size_t n){ chk(q,n,"free"); free((char*)q-sizeof(size_t)); }
static void *xr(void*q,size_t o,size_t n){ chk(q,o,"realloc"); void*r=xa(n); memcpy(r,q,o<n?o:n); free((char*)q-sizeof(size_t)); return r;}
int main(int argc,char**argv){
  unsigned long q=strtoul(argv[1],0,10); int base=atoi(argv[2]);
  mp_set_memory_functions(xa,xr,xf);
  mpz_t x; mpz_init(x); mpz_setbit(x,q); mpz_sub_ui(x,x,1);
  size_t est=mpz_sizeinbase(x,base);
  char*s=mpz_get_str(NULL,base,x);
  size_t len=strlen(s);
  printf("bits=%lu base=%d sizeinbase=%zu digits=%zu\n",q,base,est,len);
  return bad|| est<len;
}
