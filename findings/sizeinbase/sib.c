#include <stdio.h>
#include <stdlib.h>
#include <string.h>
#include "mpir.h"
int main(int argc,char**argv){
  unsigned long q=strtoul(argv[1],0,10); int base=atoi(argv[2]);
  mpz_t x; mpz_init(x); mpz_setbit(x,q); mpz_sub_ui(x,x,1);
  size_t est=mpz_sizeinbase(x,base);
  char*s=mpz_get_str(NULL,base,x);
  size_t len=strlen(s);
  printf("bits=%lu base=%d sizeinbase=%zu actual_digits=%zu %s\n",q,base,est,len, est<len?"TOO SMALL":"ok");
  return est<len;
}
