/* Replay: mpf_sub (x, x, y) / mpf_ui_sub (x, 1, x) in an --enable-assert build, with x carrying more limbs than its current precision
   (mpf_set_prec_raw lowers the precision and keeps the data, as documented) and the other operand negligible (ediff >= prec).
   The "V completely cancelled" branch copies with MPN_COPY (rp, up, usize) after `up` was advanced past the excess limbs: destination
   below the source inside one block.  The copy is right, but MPN_COPY asserts MPN_SAME_OR_SEPARATE_P -> "GNU MP assertion failed".
   build: gcc -DHAVE_CONFIG_H -D__GMP_WITHIN_GMP -DWANT_ASSERT=1 -I$REPO -I$REPO/mpf -c $REPO/mpf/sub.c $REPO/mpf/ui_sub.c
          gcc -I$REPO sub_inplace.c sub.o ui_sub.o $REPO/.libs/libmpir.a          exit 0 = fine, abort = defect */
#include <stdio.h>
#include <stdlib.h>
#include <sys/wait.h>
#include <unistd.h>
#include "mpir.h"

static int run (int which)
{
  pid_t p = fork ();
  if (p == 0)
    {
      mpf_t x, y;
      mpf_init2 (x, 64 * 8);
      mpf_init2 (y, 64);
      mpf_set_ui (x, 3); mpf_sqrt (x, x);            /* 9 limbs of data */
      mpf_set_prec_raw (x, 64 * 4);                  /* now prec+1 = 6 limbs < size 9, and 9 - 6 < 6: the ranges overlap */
      mpf_set_ui (y, 1); mpf_div_2exp (y, y, 64 * 40);  /* far below x */
      if (which == 0) mpf_sub (x, x, y); else { mpf_set (y, x); mpf_div_2exp (x, x, 64 * 40); mpf_set_prec_raw (x, 64 * 4); mpf_ui_sub (x, 5, x); }
      _exit (0);
    }
  int st; waitpid (p, &st, 0);
  return WIFSIGNALED (st) || WEXITSTATUS (st) != 0;
}
int main (void)
{
  int a = run (0);
  printf ("mpf_sub (x, x, tiny) with size > prec+1: %s\n", a ? "ABORTED (assertion)" : "ok");
  return a;
}
