#include <stdio.h>
#include <stdlib.h>
#include <string.h>
#include "mpir.h"
typedef unsigned __int128 u128;
static void ref_mul(mp_limb_t *r, const mp_limb_t *u, long un, const mp_limb_t *v, long vn)
{ long i, j; memset(r, 0, (un + vn) * 8);
  for (j = 0; j < vn; j++) { mp_limb_t cy = 0, y = v[j]; for (i = 0; i < un; i++) { u128 t = (u128) u[i] * y + r[i + j] + cy; r[i + j] = (mp_limb_t) t; cy = (mp_limb_t) (t >> 64);} r[j + un] = cy; } }
static unsigned long long s = 88172645463325252ULL;
static unsigned long long rnd(void) { s ^= s << 13; s ^= s >> 7; s ^= s << 17; return s; }
int main(void)
{ long un, vn, i, bad = 0; long sizes[][2] = {{30,20},{200,150},{400,300},{1000,700},{3000,2500},{5000,4000},{8000,7900},{6000,3000}};
  for (i = 0; i < 8; i++) { un = sizes[i][0]; vn = sizes[i][1];
    mp_limb_t *u = malloc(un*8), *r = malloc((un+vn)*8), *q = malloc((un+vn)*8); long j;
    for (j = 0; j < un; j++) u[j] = rnd();
    mpn_mul(r, u, un, u, vn); ref_mul(q, u, un, u, vn);
    printf("un=%ld vn=%ld same-pointer prefix: %s\n", un, vn, memcmp(r,q,(un+vn)*8) ? "WRONG" : "ok");
  } return 0; }
