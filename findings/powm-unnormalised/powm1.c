/* replay: mpz_powm (r, b, 1, m) with negative b and |b| shorter in limbs than m leaves a zero top limb in r */
#include <stdio.h>
#include "mpir.h"
int main (void)
{
  mpz_t r, b, e, m; int bad = 0;
  mpz_init (r); mpz_init (b); mpz_init_set_ui (e, 1); mpz_init (m);
  mpz_set_ui (m, 1); mpz_mul_2exp (m, m, 128);             /* m = 2^128: 3 limbs */
  mpz_set_ui (b, 1); mpz_mul_2exp (b, b, 128); mpz_sub_ui (b, b, 1); mpz_neg (b, b);   /* b = -(2^128-1): 2 limbs */
  mpz_powm (r, b, e, m);
  gmp_printf ("r = %Zd, SIZ = %d, top limb = %lu\n", r, (int) r->_mp_size, (unsigned long) r->_mp_d[(r->_mp_size > 0 ? r->_mp_size : 1) - 1]);
  if (r->_mp_size != 0 && r->_mp_d[(r->_mp_size > 0 ? r->_mp_size : -r->_mp_size) - 1] == 0) { printf ("NOT NORMALISED: leading zero limb\n"); bad = 1; }
  if (mpz_cmp_ui (r, 1) != 0) { printf ("value differs from 1 as seen by mpz_cmp_ui\n"); bad |= 2; }
  return bad;
}
