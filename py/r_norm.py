"""R-NORM (C04): "no leading zero limb" - a size is trimmed with the single-limb idiom  n -= (p[n-1] == 0)  only after an operation that
can leave at most ONE zero high limb.

The library normalises results either with MPN_NORMALIZE (a loop) or, where the author knows the result has lost at most one limb,
with a single test.  The single test is adequate after a product, a square, a shift, an addition, an exact division or a quotient
(normalised inputs lose at most one high limb); it is not adequate after a subtraction of two multi-limb numbers, a bitwise and /
xor / and-not, or for a remainder: these can cancel any number of high limbs, and a result with a zero top limb is not a well-formed
mpz (mpz_cmp, mpz_sizeinbase, mpz_get_str and every mpn routine that asserts a non-zero top limb misbehave on it).

For every occurrence of the idiom the rule finds the last mpn call that wrote through the same pointer variable (same block, then
the chain of dominators) and classifies it by the table below.  adequate -> proved; cancelling -> violation; no writer found or a
callee outside the table -> undecided.  Value arguments that bound the cancellation (Fibonacci ratios in mpn_fib2_ui) are reviewed
exceptions in spec/norm_exceptions.tsv."""
import collections

import sa, r_divzero
from core import *
from r_tmp import base_var

FIXTURE = os.path.join(VERIF, "selftest", "fixtures", "alias_fix.c")

# callee -> {argument index of the destination: verdict}
ONE = "adequate"
MANY = "cancelling"
WRITERS = {}
for _n in ("mul", "mul_n", "sqr", "mul_1", "lshift", "rshift", "lshift1", "rshift1", "lshift2", "add", "add_n", "add_1", "sub_1", "addmul_1",
           "divexact_1", "divexact_byfobm1", "divexact_by3c", "divexact", "tdiv_q", "sb_bdiv_q", "dc_bdiv_q", "fib2_ui", "mullow_n", "copyi",
           "copyd", "divrem_1", "preinv_divrem_1", "divrem_2", "divrem", "sqrtrem", "mul_fft_main", "toom3_mul", "kara_mul_n", "mul_basecase"):
    WRITERS["__gmpn_" + _n] = {0: ONE}
WRITERS["__gmpn_tdiv_qr"] = {0: ONE, 1: MANY}          # quotient / remainder
WRITERS["__gmpn_sqrtrem"] = {0: ONE, 1: MANY}
for _n in ("sub", "sub_n", "and_n", "andn_n", "xor_n", "nand_n", "xnor_n", "nior_n", "submul_1", "sumdiff_n", "mod_1", "neg_n", "com_n", "not"):
    WRITERS["__gmpn_" + _n] = {0: MANY}
WRITERS["__gmpn_sumdiff_n"] = {0: ONE, 1: MANY}
WRITERS["fread"] = {0: MANY}


def _strip(e):
    while isinstance(e, dict) and e.get("k") in ("cast", "paren"):
        e = e["e"]
    return e


def idiom(e):
    """(size var id, pointer var) for  n -= (p[n - 1] == 0)  /  n -= p[n-1] == 0"""
    e = _strip(e)
    if isinstance(e, dict) and e.get("k") == "binop" and e["op"] == "-=" and _strip(e["l"]).get("k") == "var":
        r = _strip(e["r"])
        if isinstance(r, dict) and r.get("k") == "binop" and r["op"] == "==":
            l, z = _strip(r["l"]), _strip(r["r"])
            if l.get("k") == "index" and z.get("k") == "int" and z["v"] == 0:
                b = base_var(l["base"])
                if b is not None:
                    return (_strip(e["l"])["id"], b)
    return None


def analyse(fn, prop, F, stats, exceptions):
    blocks = sa.blocks_by_id(fn)
    dom = preds = None
    for b in fn["blocks"]:
        for i, el in enumerate(b["elems"]):
            r = idiom(el["e"])
            if not r:
                continue
            nid, pv = r
            if dom is None:
                dom, preds = r_divzero.dominators(fn)
            if b["id"] not in dom:
                continue
            stats["single_step_sites"] += 1
            seq = [b["elems"][:i]]
            ds = [d for d in dom[b["id"]] if d != b["id"]]
            ds.sort(key=lambda d: -len(dom[d]))
            seq += [blocks[d]["elems"] for d in ds]
            verdict, why = None, None
            for els in seq:
                for el2 in reversed(els):
                    e2 = el2["e"]
                    if e2.get("k") != "call" or not e2.get("callee"):
                        # a direct store through the pointer (p[i] = ..) resets what we know
                        continue
                    ps = e2.get("params", [])
                    for ai, a in enumerate(e2.get("args", [])):
                        bv = base_var(a) if isinstance(a, dict) else None
                        if bv is None or bv["id"] != pv["id"] or ai >= len(ps) or ps[ai].get("pc") or not ps[ai].get("ptr"):
                            continue
                        verdict = WRITERS.get(e2["callee"], {}).get(ai, "unknown")
                        why = (e2["callee"], el2["line"])
                        break
                    if verdict:
                        break
                if verdict:
                    break
            if verdict == ONE:
                stats["proved"] += 1
            elif verdict == MANY:
                if (fn["name"], str(el["line"])) in exceptions or (fn["name"], pv["name"]) in exceptions:
                    stats["reviewed_exceptions"] += 1
                    continue
                F.append(Finding(prop, "R-NORM", fn["file"], el["line"], fn["name"], "single-step-after:%s:%s" % (why[0], pv["name"]),
                                 "%s trims the size of {%s, ..} with a single test at line %d, but the limbs were last written by %s at line %d, "
                                 "which can cancel any number of high limbs: the result may keep a zero top limb (not a well-formed number; "
                                 "use MPN_NORMALIZE)" % (fn["name"], pv["name"], el["line"], why[0], why[1])))
            else:
                stats["undecided"] += 1


def run(prop="C04", tier="quick"):
    res = dict(findings=[], stats=collections.Counter(), samples=[], notes=[])
    ex = sa.export(sa.cfg_builtfx())
    sa.check_errors(ex)
    exceptions = {(r[0], r[1]) for r in spec_tsv("norm_exceptions.tsv", 3)}
    fx = []
    for path, fn in ex.functions():
        if path == FIXTURE:
            analyse(fn, prop, fx, collections.Counter(), set())
            continue
        if sa.is_foreign_fixture(path, FIXTURE):
            continue
        analyse(fn, prop, res["findings"], res["stats"], exceptions)
    got = collections.Counter(f.function for f in fx)
    if not got.get("fix_norm_after_sub") or got.get("fix_norm_after_mul"):
        raise AnalysisBroken("R-NORM fixtures: %r" % dict(got))
    st = res["stats"]
    if st["single_step_sites"] < 40:
        raise AnalysisBroken("R-NORM: only %d single-step normalisation sites found (floor 40)" % st["single_step_sites"])
    res["stats"] = dict(st)
    res["obligations"] = st["single_step_sites"]
    res["undecided"] = st.get("undecided", 0)
    res["samples"].append(dict(rule="R-NORM", sites=st["single_step_sites"], proved=st.get("proved", 0), undecided=st.get("undecided", 0)))
    res["notes"].append("fixtures: 1 positive fired, 1 negative silent; %d reviewed exception(s)" % len(exceptions))
    res["exhaustive"] = True
    return res


def run_c03(prop="C03", tier="quick"):
    """C03 view: mpz_add / mpz_sub and friends 'return the exact signed result' including equal-magnitude cancellation: a subtraction can
    cancel any number of high limbs, so the size must be trimmed by a full MPN_NORMALIZE, not by the one-limb step."""
    return scope_to_anchors(run(prop, tier), prop)
