"""R-STREAM (C17): a failing or short stream transfer reaches the return value.

For every function with a FILE* parameter and a non-void result: on every CFG path, each stream
transfer (fwrite/fputc/putc/fputs/fprintf/vfprintf, fread, or a library function that itself
takes the stream) is 'pending' until the path learns its outcome:
  * its own result compared with what the call returns on success (fwrite/fread: the requested
    count; fputc/putc/fputs: EOF; fprintf: < 0; library callee: 0) - the item is discharged on the
    success edge only;
  * for output: ferror(stream) tested - discharged on the no-error edge.
A return with an undischarged item must return the failure constant (literal 0 / -1), a location the
path set to 0 after the failure was known, or - for a library callee - the callee's own result.
Path-sensitive over (pending set, ferror outcome, zeroed locations); no values are modelled."""
import collections

import sa
from core import *

OUT_COUNT = {"fwrite": 2}                 # success == args[idx]
IN_COUNT = {"fread": 2}
OUT_EOF = {"fputc", "putc", "fputs", "_IO_putc", "putc_unlocked", "fputc_unlocked"}
OUT_NEG = {"fprintf", "vfprintf"}
FIXTURE = os.path.join(VERIF, "selftest", "fixtures", "stream_fix.c")


def key(e):
    if not isinstance(e, dict):
        return "?"
    k = e.get("k")
    if k == "var":
        return "v%d" % e["id"]
    if k == "int":
        return str(e["v"])
    if k == "member":
        return key(e["base"]) + "." + e["field"]
    if k == "cast":
        return key(e["e"])
    if k == "binop":
        return "(%s%s%s)" % (key(e["l"]), e["op"], key(e["r"]))
    if k == "unop":
        return "(%s%s)" % (e["op"], key(e["e"]))
    if k == "index":
        return "%s[%s]" % (key(e["base"]), key(e["idx"]))
    if k == "call":
        return "call:%s@%s" % (e.get("callee"), e.get("line"))
    return "?" + str(k)


def is_file_ptr(t):
    return "_IO_FILE *" in t or t.strip() in ("FILE *",)


def strip(e):
    return sa.strip_expect(e)


def lit(e):
    e = strip(e)
    return e["v"] if isinstance(e, dict) and e.get("k") == "int" else None


class Item(tuple):
    """(kind, line, callkey, holder, requested, callee)   kind in out-count/out-eof/out-neg/in-count/lib-out/lib-in"""
    __slots__ = ()


def analyse(fn, lib_stream_fns, prop, res):
    blocks = sa.blocks_by_id(fn)
    F = res["findings"]
    name, file = fn["name"], fn["file"]

    def classify(call):
        c = call.get("callee")
        if c in OUT_COUNT:
            return "out-count", key(call["args"][OUT_COUNT[c]]) if len(call["args"]) > OUT_COUNT[c] else None
        if c in IN_COUNT:
            return "in-count", key(call["args"][IN_COUNT[c]]) if len(call["args"]) > IN_COUNT[c] else None
        if c in OUT_EOF:
            return "out-eof", "-1"
        if c in OUT_NEG:
            return "out-neg", None
        if c in lib_stream_fns and c != name:
            return lib_stream_fns[c], "0"
        return None, None

    # state: (frozenset(items), fe, frozenset(zeroed keys))
    init = (frozenset(), None, frozenset())
    IN = collections.defaultdict(set)
    IN[fn["entry"]].add(init)
    work = [fn["entry"]]
    reported = set()
    nitems = 0
    iters = 0

    def report(item, line, how):
        kkey = (item[1], line)
        if kkey in reported:
            return
        reported.add(kkey)
        F.append(Finding(prop, "R-STREAM", file, line, name, "%s-unchecked:%s" % (item[5], how),
                         "the %s at line %d can fail or come up short, and the path to the return at line %d never learns it "
                         "(no comparison with the value the call returns on success%s): the function reports success"
                         % (item[5], item[1], line, ", no ferror test" if item[0].startswith(("out", "lib-out")) else "")))

    while work:
        iters += 1
        if iters > 50000:
            raise AnalysisBroken("R-STREAM budget exceeded in " + name)
        bid = work.pop()
        b = blocks[bid]
        states = set(IN[bid])
        for el in b["elems"]:
            e = el["e"]
            new = set()
            for items, fe, zeroed in states:
                if e.get("k") == "call":
                    kind, req = classify(e)
                    if kind:
                        it = (kind, el["line"], key(e), None, req, e.get("callee"))
                        items = frozenset(x for x in items if x[2] != it[2]) | {it}
                    elif e.get("callee") == "ferror":
                        pass
                    new.add((items, fe, zeroed))
                    continue
                # assignments: holder binding, invalidation, zeroing
                its, zz = set(items), set(zeroed)

                def f(n):
                    if n is not e and n.get("k") == "call":
                        return False
                    tgt = val = None
                    if n.get("k") == "binop" and n["op"] == "=":
                        tgt, val = n["l"], n["r"]
                    elif n.get("k") == "binop" and n["op"].endswith("=") and n["op"] not in ("==", "!=", "<=", ">="):
                        tgt, val = n["l"], None
                    elif n.get("k") == "decl":
                        for d in n["decls"]:
                            if "init" in d:
                                bind(d["var"], d["init"])
                        return
                    if tgt is not None:
                        bind(tgt, val)

                def bind(tgt, val):
                    tk = key(tgt)
                    # a holder that is overwritten / accumulated no longer carries the result
                    for x in list(its):
                        if x[3] == tk:
                            its.discard(x)
                            its.add((x[0], x[1], x[2], None, x[4], x[5]))
                    zz.discard(tk)
                    if val is None:
                        return
                    v = strip(val)
                    if isinstance(v, dict) and v.get("k") == "call":
                        for x in list(its):
                            if x[2] == key(v):
                                its.discard(x)
                                its.add((x[0], x[1], x[2], tk, x[4], x[5]))
                    elif lit(v) == 0:
                        zz.add(tk)
                    elif isinstance(v, dict) and v.get("k") == "cond":
                        # ret = (nitems == 1 ? n : 0): the CFG has already split on the condition, and a state that still holds the
                        # transfer as pending came through the edge on which the test did NOT establish success - it receives the other arm
                        c = strip(v["c"])
                        for x in list(its):
                            one = (frozenset([x]), None, frozenset())
                            if x not in refine(one, c, True)[0]:
                                fail_arm = v["b"]
                            elif x not in refine(one, c, False)[0]:
                                fail_arm = v["a"]
                            else:
                                continue
                            if lit(fail_arm) in (0, -1):
                                zz.add(tk)
                sa.walk(e, f)
                items, zeroed = frozenset(its), frozenset(zz)
                if e.get("k") == "return":
                    rv = e.get("e")
                    check_return(rv, items, fe, zeroed, el["line"], report)
                new.add((items, fe, zeroed))
            states = new
        if b.get("noreturn"):
            continue
        t = b.get("term")
        cond = strip(sa.effective_cond(t)) if t and t.get("cond") and len(b["succs"]) == 2 else None
        for si, s in enumerate(b["succs"]):
            if not isinstance(s, int):
                continue
            out = set()
            for st in states:
                out.add(refine(st, cond, si == 0) if cond is not None else st)
            if s == fn["exit"]:
                continue
            if not out <= IN[s]:
                if len(IN[s]) > 400:
                    raise AnalysisBroken("R-STREAM path-state budget exceeded in " + name)
                IN[s] |= out
                work.append(s)
    return


def refine(st, cond, truth):
    items, fe, zeroed = st
    neg = False
    c = cond
    while isinstance(c, dict) and c.get("k") == "unop" and c["op"] == "!":
        c = strip(c["e"])
        neg = not neg
    t = truth != neg
    if not isinstance(c, dict):
        return st
    # ferror (stream)
    if c.get("k") == "call" and c.get("callee") == "ferror":
        if t:
            return (items, True, frozenset())
        return (frozenset(x for x in items if not x[0].startswith(("out", "lib-out"))), False, zeroed)
    if c.get("k") == "binop" and c["op"] in ("!=", "==") and lit(c["r"]) == 0 and strip(c["l"]).get("k") == "call" \
            and strip(c["l"]).get("callee") == "ferror":
        err = (c["op"] == "!=") == t
        if err:
            return (items, True, frozenset())
        return (frozenset(x for x in items if not x[0].startswith(("out", "lib-out"))), False, zeroed)
    # result tests
    def side_matches(x, e):
        e = strip(e)
        ke = key(e)
        return ke == x[2] or (x[3] is not None and ke == x[3])
    out = set(items)
    if c.get("k") == "binop" and c["op"] in ("==", "!=", "<", ">", "<=", ">="):
        for x in items:
            for a, bb, flip in ((c["l"], c["r"], False), (c["r"], c["l"], True)):
                if not side_matches(x, a):
                    continue
                other = key(strip(bb))
                op = c["op"]
                if flip:
                    op = {"<": ">", ">": "<", "<=": ">=", ">=": "<="}.get(op, op)
                kind = x[0]
                succ = None       # does this edge establish success?
                if kind in ("out-count", "in-count") and x[4] is not None and other == x[4]:
                    if op == "==":
                        succ = t
                    elif op == "!=":
                        succ = not t
                    elif op == "<":            # result < requested  => failure on true edge
                        succ = not t
                    elif op == ">=":
                        succ = t
                elif kind == "out-eof" and other == "-1":
                    if op == "==":
                        succ = not t
                    elif op == "!=":
                        succ = t
                elif kind in ("out-eof", "out-neg") and other == "0":
                    if op == "<":
                        succ = not t
                    elif op == ">=":
                        succ = t
                elif kind.startswith("lib") and other == "0":
                    if op == "==":
                        succ = not t
                    elif op in ("!=", ">"):
                        succ = t
                if succ:
                    out.discard(x)
                elif succ is False:
                    # failure known on this edge: zeroing after this point counts
                    zeroed = frozenset()
    elif c.get("k") in ("var", "member", "call"):
        for x in items:
            if side_matches(x, c) and x[0].startswith("lib"):
                if t:
                    out.discard(x)
                else:
                    zeroed = frozenset()
    return (frozenset(out), fe, zeroed)


def check_return(rv, items, fe, zeroed, line, report):
    if not items:
        return
    rv = strip(rv) if rv else None
    if rv is None:
        return
    # return ferror (s) ? 0 : n   -- choose the arm from the path's ferror outcome
    if rv.get("k") == "cond":
        c = strip(rv["c"])
        isfe = c.get("k") == "call" and c.get("callee") == "ferror"
        if isfe and fe is True:
            rv = strip(rv["a"])
        elif isfe and fe is False:
            rv = strip(rv["b"])
    v = lit(rv)
    if v in (0, -1):
        return
    rk = key(rv)
    if rk in zeroed:
        return
    for x in items:
        if x[0].startswith("lib") and (rk == x[2] or (x[3] is not None and rk == x[3])):
            continue            # the callee's own result (0 on failure) is what we return
        if fe is False and x[0].startswith(("out", "lib-out")):
            continue
        report(x, line, x[5])


def run(prop="C17", tier="quick"):
    res = dict(findings=[], stats=collections.Counter(), samples=[], notes=[])
    ex = sa.export(sa.cfg_builtfx())
    sa.check_errors(ex)
    # library functions that take the stream themselves and report failure as 0
    lib = {}
    fns = []
    for path, fn in ex.functions():
        if sa.is_foreign_fixture(path, FIXTURE):
            continue
        if any(is_file_ptr(p.get("ct", "")) for p in fn["params"]):
            fns.append((path, fn))
    direct = set(OUT_COUNT) | set(IN_COUNT) | OUT_EOF | OUT_NEG
    inputs = set(IN_COUNT) | {"getc", "fgetc", "ungetc", "_IO_getc"}
    # classify each library stream function as output or input by what it (transitively) calls
    calls = {}
    for path, fn in fns:
        cs = set()
        for b in fn["blocks"]:
            for el in b["elems"]:
                if el["e"].get("k") == "call" and el["e"].get("callee"):
                    cs.add(el["e"]["callee"])
        calls[fn["name"]] = cs
    kind = {}
    changed = True
    while changed:
        changed = False
        for n, cs in calls.items():
            k = kind.get(n)
            nk = k
            if cs & inputs or any(kind.get(c) == "lib-in" for c in cs):
                nk = "lib-in"
            elif cs & direct or any(kind.get(c) == "lib-out" for c in cs):
                nk = nk or "lib-out"
            if nk != k:
                kind[n] = nk
                changed = True
    for path, fn in fns:
        if fn["ret"].strip() == "void" or fn["name"] not in kind:
            continue
        lib[fn["name"]] = kind[fn["name"]]
    for path, fn in fns:
        if fn["ret"].strip() == "void":
            continue
        n0 = len(res["findings"])
        transfers = sum(1 for b in fn["blocks"] for el in b["elems"]
                        if el["e"].get("k") == "call" and (el["e"].get("callee") in direct or el["e"].get("callee") in lib))
        if not transfers:
            continue
        analyse(fn, lib, prop, res)
        res["stats"]["stream_functions"] += 1
        res["stats"]["transfer_sites"] += transfers
        res["stats"]["returns"] += sum(1 for b in fn["blocks"] for el in b["elems"] if el["e"].get("k") == "return")
        if fn["file"] != FIXTURE:
            res["samples"].append(dict(rule="R-STREAM", function=fn["name"], file=relpath(fn["file"]), transfers=transfers,
                                       kind=kind.get(fn["name"]), verdict="ok" if len(res["findings"]) == n0 else "REFUTED"))
    fx = [f for f in res["findings"] if f.file == FIXTURE]
    res["findings"] = [f for f in res["findings"] if f.file != FIXTURE]
    exp = {"fix_old_fprintf_memory": "fwrite-unchecked", "fix_old_fprintf_reps": "fwrite-unchecked",
           "fix_raw_count": "fwrite-unchecked", "fix_fread_short": "fread-unchecked",
           "fix_good_ferror": None, "fix_good_count": None, "fix_good_zeroed": None,
           "fix_stream_cond_expr": None, "fix_stream_cond_expr_bad": "fwrite-unchecked"}
    for fname, sig in exp.items():
        got = [f.signature for f in fx if f.function == fname]
        if sig is None and got:
            raise AnalysisBroken("R-STREAM fires on its negative fixture %s: %s" % (fname, got))
        if sig is not None and not any(g.startswith(sig) for g in got):
            raise AnalysisBroken("R-STREAM no longer fires on its positive fixture %s (expected %s, got %s)" % (fname, sig, got))
    res["stats"]["stream_functions"] -= len(exp)
    if res["stats"]["stream_functions"] < 6:
        raise AnalysisBroken("R-STREAM found only %d stream functions (floor 6; today 9)" % res["stats"]["stream_functions"])
    res["stats"] = dict(res["stats"])
    res["obligations"] = res["stats"]["transfer_sites"]
    res["notes"].append("fixtures: 4 positive fired (incl. the pre-fix forms of gmp_fprintf_memory/reps), 3 negative silent")
    res["exhaustive"] = True
    return res
