"""Compilation database for /repo derived by parsing the Makefiles as text.

`make -n -B` must never be used in /repo (it re-runs autoconf/configure), so
the unit list is read from the object variables of the top-level Makefile and
each C unit gets the command the build uses:
    cc -DHAVE_CONFIG_H -I. -I<top> -D__GMP_WITHIN_GMP -DOPERATION_<base> X.c
run from its directory.
"""
import os, re, subprocess, sys

REPO = os.environ.get("VERIF_REPO", "/repo")


class AnalysisBroken(Exception):
    pass


def _make_vars(path):
    """Parse `NAME = value` lines (with backslash continuations)."""
    out = {}
    try:
        text = open(path, errors="replace").read()
    except OSError as e:
        raise AnalysisBroken("cannot read %s: %s" % (path, e))
    text = text.replace("\\\n", " ")
    for m in re.finditer(r"^([A-Za-z_][A-Za-z0-9_]*)\s*=\s*(.*)$", text, re.M):
        out[m.group(1)] = m.group(2).strip()
    return out


def _expand(v, mv, depth=0):
    def rep(m):
        name = m.group(1)
        if name == "U":
            return ""
        return _expand(mv.get(name, ""), mv, depth + 1) if depth < 8 else ""
    v = v.replace("$U", "")
    return re.sub(r"\$\(([A-Za-z0-9_]+)\)", rep, v)


class Unit:
    __slots__ = ("rel", "dir", "base", "kind", "src")

    def __init__(self, rel, kind):
        self.rel = rel                       # path relative to repo, as built (mpn/add_n.c)
        self.dir = os.path.dirname(rel)
        self.base = os.path.splitext(os.path.basename(rel))[0]
        self.kind = kind                     # 'c' | 'asm' | 'as'
        self.src = os.path.realpath(os.path.join(REPO, rel))  # symlink target

    def flags(self, extra=()):
        top = REPO
        d = os.path.join(REPO, self.dir) if self.dir else REPO
        f = ["-DHAVE_CONFIG_H", "-I" + d, "-I" + top, "-D__GMP_WITHIN_GMP",
             "-DOPERATION_" + self.base, "-Wno-error", "-w"]
        return f + list(extra)

    @property
    def path(self):
        return os.path.join(REPO, self.rel)

    def __repr__(self):
        return "Unit(%s)" % self.rel


def units():
    """All units of libmpir as the pinned build lists them."""
    mv = _make_vars(os.path.join(REPO, "Makefile"))
    objs = []
    for var in ("am_libmpir_la_OBJECTS", "libmpir_la_DEPENDENCIES"):
        if var not in mv:
            raise AnalysisBroken("Makefile variable %s vanished" % var)
        objs += _expand(mv[var], mv).split()
    seen, res = set(), []
    for o in objs:
        if not o.endswith(".lo"):
            continue
        stem = o[:-3]
        if stem in seen or stem in ("cxx/dummy", "mpn/dummy1"):
            continue
        seen.add(stem)
        for ext, kind in ((".c", "c"), (".asm", "asm"), (".as", "as")):
            if os.path.exists(os.path.join(REPO, stem + ext)):
                res.append(Unit(stem + ext, kind))
                break
        else:
            raise AnalysisBroken("no source for object %s" % o)
    return res


def c_units():
    return [u for u in units() if u.kind == "c"]


def asm_units():
    return [u for u in units() if u.kind != "c"]


def crosscheck_archive(us):
    """Unit count must agree with the built archive when it exists."""
    a = os.path.join(REPO, ".libs", "libmpir.a")
    if not os.path.exists(a):
        return None
    try:
        n = len(subprocess.run(["ar", "t", a], capture_output=True, text=True,
                               check=True).stdout.split())
    except Exception:
        return None
    return n


def generic_all_extra():
    """mpn/generic/*.c and mpn/x86_64/**/*.c that are NOT already built units
    (shadowed by assembly, or alternative implementations) + the other tal-*.c."""
    built = {u.src for u in c_units()}
    res = []
    import glob
    for p in sorted(glob.glob(os.path.join(REPO, "mpn/generic/*.c"))):
        if os.path.realpath(p) not in built:
            res.append(p)
    return res


if __name__ == "__main__":
    us = units()
    print(len(us), "units;", sum(u.kind == "c" for u in us), "C;",
          sum(u.kind != "c" for u in us), "asm; archive:", crosscheck_archive(us))
