"""Mutation self-tests: each mutant is applied to a scratch COPY of one file, which shadows the
original through the VFS overlay (never inside /repo); the variant must still parse and the
rule must name the seeded instance."""
import json, os

import core
from core import REPO, VERIF, scratch, AnalysisBroken


def load():
    return json.load(open(os.path.join(VERIF, "selftest", "mutants.json")))


def apply(m):
    """returns overlay mapping or None when the mutant no longer applies"""
    mapping = {}
    if "patch" in m:
        # a stored unified diff (benign/<id>/patch.diff): each touched file is copied to scratch and patched there
        import re, shutil, subprocess, tempfile
        diff = open(os.path.join(VERIF, m["patch"])).read()
        files = re.findall(r"^\+\+\+ b/(\S+)", diff, re.M)
        root = os.path.join(scratch(), "mutp-%s" % m["id"])
        shutil.rmtree(root, ignore_errors=True)
        for f in files:
            os.makedirs(os.path.dirname(os.path.join(root, f)), exist_ok=True)
            try:
                shutil.copy(os.path.realpath(os.path.join(REPO, f)), os.path.join(root, f))
            except OSError:
                return None
        r = subprocess.run(["patch", "-p1", "-s", "--no-backup-if-mismatch", "-d", root], input=diff, text=True, capture_output=True)
        if r.returncode != 0:
            return None
        for f in files:
            mapping[os.path.join(REPO, f)] = os.path.join(root, f)
        return mapping
    edits = m["edits"] if "edits" in m else [dict(file=m["file"], find=m["find"], replace=m["replace"])]
    for i, ed in enumerate(edits):
        src = os.path.join(REPO, ed["file"])
        try:
            text = open(mapping.get(src, src)).read()
        except OSError:
            return None
        if text.count(ed["find"]) < 1:
            return None
        text = text.replace(ed["find"], ed["replace"], 1)
        dst = os.path.join(scratch(), "mut-%s-%d-%s" % (m["id"], i, os.path.basename(ed["file"])))
        open(dst, "w").write(text)
        mapping[src] = dst
    return mapping


def run_mutant(m, runner):
    """runner(prop) -> rule result; returns (status, detail): caught / missed / skipped / broken"""
    mp = apply(m)
    if mp is None:
        return "skipped", "pattern no longer present"
    core.set_overlay(mp)
    try:
        r = runner()
    except AnalysisBroken as e:
        return "broken", str(e)[:300]
    finally:
        core.set_overlay({})
    if m.get("neutral"):
        # a behaviour-preserving variant: the rule must stay silent
        if r["findings"]:
            f = r["findings"][0]
            return "false-alarm", "%s: %s" % (f.signature, f.what[:160])
        return "quiet", "no findings on the behaviour-preserving variant"
    hits = [f for f in r["findings"] if m["expect"] in f.signature or m["expect"] in f.function or m["expect"] in f.what]
    if hits:
        return "caught", "%s: %s" % (hits[0].signature, hits[0].what[:160])
    return "missed", "%d other findings" % len(r["findings"])
