"""Mutation self-tests: each mutant is applied to a scratch COPY of one file, which shadows the
original through the VFS overlay (never inside /repo); the variant must still parse and the
rule must name the seeded instance."""
import json, os

import core
from core import REPO, VERIF, scratch, AnalysisBroken


def load():
    return json.load(open(os.path.join(VERIF, "selftest", "mutants.json")))


def apply(m):
    """returns overlay mapping or None when the mutant no longer applies"""
    mapping = {}
    edits = m["edits"] if "edits" in m else [dict(file=m["file"], find=m["find"], replace=m["replace"])]
    for i, ed in enumerate(edits):
        src = os.path.join(REPO, ed["file"])
        try:
            text = open(mapping.get(src, src)).read()
        except OSError:
            return None
        if text.count(ed["find"]) < 1:
            return None
        text = text.replace(ed["find"], ed["replace"], 1)
        dst = os.path.join(scratch(), "mut-%s-%d-%s" % (m["id"], i, os.path.basename(ed["file"])))
        open(dst, "w").write(text)
        mapping[src] = dst
    return mapping


def run_mutant(m, runner):
    """runner(prop) -> rule result; returns (status, detail): caught / missed / skipped / broken"""
    mp = apply(m)
    if mp is None:
        return "skipped", "pattern no longer present"
    core.set_overlay(mp)
    try:
        r = runner()
    except AnalysisBroken as e:
        return "broken", str(e)[:300]
    finally:
        core.set_overlay({})
    hits = [f for f in r["findings"] if m["expect"] in f.signature or m["expect"] in f.function or m["expect"] in f.what]
    if hits:
        return "caught", "%s: %s" % (hits[0].signature, hits[0].what[:160])
    return "missed", "%d other findings" % len(r["findings"])
