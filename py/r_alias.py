"""C05 / C04 front end of aliasflow: R-STALE + R-CLOBBER over every function of mpz/, mpq/, mpf/ with an output operand."""
import aliasflow
from core import *

FIXTURE = os.path.join(VERIF, "selftest", "fixtures", "alias_fix.c")
EXPECT = {"fix_stale_ptr": ("R-STALE", "stale:up"), "fix_clobber_order": ("R-CLOBBER", "clobber:v:w"),
          "fix_extent_carry": ("R-EXTENT", "overrun:w"), "fix_alias_good": None, "fix_alias_guarded": None,
          "fix_constsrc_scratch": ("R-CONSTSRC", "constsrc:u"), "fix_constsrc_guarded": None,
          "fix_view_alias": ("R-CLOBBER", "view-alias:v:w"), "fix_view_local": None,
          "fix_size_exceeds": ("R-EXTENT", "size-exceeds-alloc:w"),
          "fix_alias_selected": None, "fix_alias_selected_bad": ("R-CLOBBER", "clobber:w:z"),
          "fix_copy_halves": None, "fix_copy_shift_one": ("R-OVERLAP", "copy-asserts-separate:MPN_COPY"),
          "fix_extent_clamp_store": ("R-EXTENT", "overrun-on-path:w"), "fix_extent_max_alloc": None}


def run(prop="C05", tier="quick", rules=("R-STALE", "R-CLOBBER", "R-OVERLAP", "R-CONSTSRC")):
    r = aliasflow.run_rules(prop, rules=rules, extra_files=[FIXTURE])
    fx = [f for f in r["findings"] if f.file == FIXTURE]
    r["findings"] = [f for f in r["findings"] if f.file != FIXTURE]
    for fname, exp in EXPECT.items():
        if exp is not None and exp[0] not in rules:
            continue
        got = [(f.rule, f.signature) for f in fx if f.function == fname]
        if exp is None and got:
            raise AnalysisBroken("aliasflow fires on its negative fixture %s: %s" % (fname, got))
        if exp is not None and exp not in got:
            raise AnalysisBroken("aliasflow no longer fires on its positive fixture %s (expected %s, got %s)" % (fname, exp, got))
    st = r["stats"]
    if st.get("functions", 0) < 180:
        raise AnalysisBroken("aliasflow analysed only %d functions (floor 180)" % st.get("functions", 0))
    r["obligations"] = st.get("limb_pointer_uses", 0) + st.get("input_reads", 0)
    if "R-OVERLAP" in rules:
        r["obligations"] += st.get("overlap_obligations", 0)
        r["undecided"] = r.get("undecided", 0) + st.get("overlap_undecided", 0)
    if "R-CONSTSRC" in rules:
        if st.get("constsrc_obligations", 0) < 1:
            raise AnalysisBroken("R-CONSTSRC: only %d writes through input-only operands seen (floor 1; today mpz_root, mpz_rootrem x2 and the fixtures)" % st.get("constsrc_obligations", 0))
        r["obligations"] += st.get("constsrc_obligations", 0)
        r["undecided"] = r.get("undecided", 0) + st.get("constsrc_undecided", 0)
    if "R-EXTENT" in rules:
        r["obligations"] += st.get("extent_obligations", 0) + st.get("sizestore_obligations", 0)
        r["undecided"] = r.get("undecided", 0) + st.get("extent_undecided", 0) + st.get("sizestore_undecided", 0)
    r["notes"].append("fixtures: 2 positive fired, 2 negative silent; %d reviewed exception sites (spec/alias_exceptions.tsv)" % 5)
    r["samples"].append(dict(rule="aliasflow", functions=st.get("functions"), realloc_events=st.get("realloc_events"),
                             limb_pointer_uses=st.get("limb_pointer_uses"), input_reads=st.get("input_reads"),
                             max_alias_partitions=st.get("partitions_max")))
    r["exhaustive"] = True
    return r


def run_mem(prop="C04", tier="quick"):
    """C04 view: stale limb pointers and writes past the size just requested"""
    return run(prop, tier, rules=("R-STALE", "R-EXTENT"))


def run_c03(prop="C03", tier="quick"):
    """C03 view: 'the integer functions built on them return the exact signed result' also when the destination is one of the sources
    (in-place use is part of the property's quantifier): R-STALE / R-CLOBBER findings inside the mpz functions the property names."""
    return scope_to_anchors(run(prop, tier, rules=("R-STALE", "R-CLOBBER")), prop)


def run_c13(prop="C13", tier="quick"):
    """C13 view (format rule "at most prec+1 limbs"): R-EXTENT findings - a write into an mpf destination beyond the prec+1 limbs its block
    holds, or a size stored that exceeds them - inside the files the property is anchored in."""
    # in-place calls are ordinary calls of these functions (the manual allows rop to be an operand), so the alias clauses are necessary
    # conditions of the error bound as well: stale pointers, clobbered inputs and callee overlap contracts inside C13's files
    return scope_to_anchors(run(prop, tier, rules=("R-EXTENT", "R-STALE", "R-CLOBBER", "R-OVERLAP")), prop)


def run_c14(prop="C14", tier="quick"):
    """C14 view (--enable-assert must not change what a call does): the R-OVERLAP clause that exists only in assert builds - an MPN_COPY whose
    operands may overlap with the destination below the source is a correct copy that aborts on MPN_COPY's own MPN_SAME_OR_SEPARATE_P
    assertion."""
    r = run(prop, tier, rules=("R-OVERLAP",))
    keep = [f for f in r["findings"] if f.signature.startswith("copy-asserts-separate")]
    r["notes"].append("assert-build clause only: %d other R-OVERLAP finding(s) belong to C05" % (len(r["findings"]) - len(keep)))
    r["findings"] = keep
    return r
