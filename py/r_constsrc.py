"""R-CONSTSRC.ir (C05, C15): no function stores through a pointer parameter that its prototype declares pointer-to-const,
directly or through anything it calls.

C's type system stops enforcing `const` at the first cast, and the library has about twenty casts that drop the qualifier
(`d2p = (mp_ptr) dp`, `mpn_mulmod_2expm1 (rp, (mp_ptr) ap, (mp_ptr) bp, ...)`).  An operand that is not an output must keep
its value (C05), and it must not even be modified temporarily, because other threads may be reading the same source object
(C15: "possibly reading the same source objects ... no data race occurs inside the library") and because a const operand may
live in read-only memory (mpz_roinit_n).

Facts come from the linked, SROA'd LLVM IR of all built units (ir/mpir-ir.cc `param_edges`): for every defined function F
and pointer parameter a, every store / memset / memcpy destination derived from a (closure over GEP, casts, phi, select,
returned pointers), and every call that passes a pointer derived from a on as argument k of callee g.  Source-level
constness comes from the type-checked AST export: the declared parameter types of every defined function, and - for
external callees (assembly kernels, libc) - the parameter types seen at the call sites.  Least fixpoint:

    W (F, a)  <-  F stores through a
              |   F passes a to defined g at k and W (g, k)
              |   F passes a to external g at k and g's prototype declares parameter k pointer-to-non-const

A violation is W (F, a) for a parameter a that F's own prototype declares pointer-to-const; the report gives the call chain
down to the store.  Pointers passed on through indirect calls are counted as undecided.  The closure does not follow
pointers loaded from memory (PTR (u) of an mpz_srcptr u is a load): the mpz/mpq/mpf layer is covered by aliasflow's
R-CONSTSRC instead."""
import collections

import sa
from core import *

FIXTURE = os.path.join(VERIF, "selftest", "fixtures", "constsrc_fix.c")


def pointee_const(ct):
    """True when `ct` is a pointer type whose pointee is const-qualified (const T *, T const *, const char *const * ...)"""
    ct = ct.strip()
    if "(*" in ct or not ct.endswith("*") and not ct.rstrip().endswith("*const") and "*" not in ct:
        return False
    if "*" not in ct:
        return False
    # drop qualifiers of the pointer itself
    while ct.endswith("const") or ct.endswith("restrict") or ct.endswith("__restrict"):
        ct = ct[:ct.rindex(" ")].strip() if " " in ct else ct
        if not ct.endswith(("const", "restrict", "__restrict")):
            break
    if not ct.endswith("*"):
        return False
    inner = ct[:-1].strip()
    if inner.endswith("const"):
        return True
    return "*" not in inner and (inner.startswith("const ") or " const" in inner)


def run(prop="C05", tier="quick"):
    res = dict(findings=[], stats=collections.Counter(), samples=[], notes=[])
    F = res["findings"]
    facts = ir_facts()
    fns = {f["name"]: f for f in facts["functions"]}
    if not any("param_edges" in f for f in facts["functions"]):
        raise AnalysisBroken("R-CONSTSRC.ir: the IR extractor emitted no param_edges (stale build/mpir-ir?)")
    ex = sa.export(sa.cfg_builtfx())
    sa.check_errors(ex)
    decl, where = {}, {}
    extern_pc = collections.defaultdict(dict)
    fixture_fns = []
    for path, fn in ex.functions():
        if path == FIXTURE:
            fixture_fns.append(fn)
        key = fn["name"]
        if fn.get("static") and key in decl and where.get(key) != path:
            decl[key] = None                   # two static functions of one name: ambiguous, leave undecided
            continue
        decl[key] = [("*" in p.get("ct", ""), pointee_const(p.get("ct", ""))) for p in fn["params"]]
        where[key] = path
        for b in fn["blocks"]:
            for el in b["elems"]:
                def f(e):
                    if e.get("k") == "call" and e.get("callee"):
                        for k, pp in enumerate(e.get("params", [])):
                            if pp.get("ptr") or "*" in pp.get("ct", ""):
                                extern_pc[e["callee"]][k] = pointee_const(pp.get("ct", "")) or bool(pp.get("pc"))
                sa.walk(el["e"], f)
    exceptions = {(r[0], r[1]): r[2] for r in spec_tsv("constsrc_exceptions.tsv")}

    def fixpoint(funcs):
        W = {}
        changed = True
        while changed:
            changed = False
            for f in funcs:
                for e in f.get("param_edges", []):
                    key = (f["name"], e["arg"])
                    if key in W:
                        continue
                    r = None
                    if e["kind"] == "store":
                        r = ("store", e["line"])
                    elif e["kind"] == "pass" and (e["callee"], e["k"]) in W:
                        r = ("pass", e["line"], e["callee"], e["k"])
                    elif e["kind"] == "extern":
                        pc = extern_pc.get(e["callee"], {}).get(e["k"])
                        if pc is None:
                            res["stats"]["extern_unknown_prototype"] += 1
                        elif not pc:
                            r = ("extern", e["line"], e["callee"], e["k"])
                    if r:
                        W[key] = r
                        changed = True
        return W

    def chain(W, key, depth=0):
        r = W[key]
        if r[0] == "store":
            return "stores through it at line %d" % r[1]
        if r[0] == "extern":
            return "passes it at line %d to %s, whose prototype takes parameter %d as pointer to non-const" % (r[1], r[2], r[3] + 1)
        nxt = (r[2], r[3])
        loc = fns.get(r[2], {}).get("loc", "")
        return "passes it at line %d to %s (%s) as parameter %d, which %s" % (
            r[1], r[2], relpath(loc.rpartition(":")[0]) if loc else "?", r[3] + 1, chain(W, nxt, depth + 1) if depth < 8 else "...")

    def judge(W, funcs, out, stats):
        for f in funcs:
            if not f.get("defined"):
                continue
            d = decl.get(f["name"])
            if d is None:
                continue
            shift = 1 if f.get("sret") else 0
            for i, (isptr, isconst) in enumerate(d):
                if not (isptr and isconst):
                    continue
                stats["const_pointer_params"] += 1
                a = i + shift
                if any(e["arg"] == a and e["kind"] == "indirect" for e in f.get("param_edges", [])):
                    stats["passed_to_indirect_call"] += 1
                if (f["name"], a) in W:
                    if (f["name"], str(i)) in exceptions or (f["name"], "*") in exceptions:
                        stats["reviewed_exceptions"] += 1
                        continue
                    loc = f.get("loc", "")
                    file, _, line = loc.rpartition(":")
                    out.append(Finding(prop, "R-CONSTSRC.ir", file, int(line or 0), f["name"], "const-param-written:%d" % i,
                                       "%s declares parameter %d pointer-to-const but %s: an operand that is not an output is modified "
                                       "(even a temporary modification races with concurrent readers of the same source object and "
                                       "faults for operands in read-only memory)" % (f["name"], i + 1, chain(W, (f["name"], a)))))

    W = fixpoint(facts["functions"])
    judge(W, facts["functions"], F, res["stats"])
    res["stats"]["functions"] = sum(1 for f in facts["functions"] if f.get("defined"))
    res["stats"]["param_edges"] = sum(len(f.get("param_edges", [])) for f in facts["functions"])
    res["stats"]["written_params"] = len(W)
    if res["stats"]["const_pointer_params"] < 400:
        raise AnalysisBroken("R-CONSTSRC.ir: only %d pointer-to-const parameters found (floor 400)" % res["stats"]["const_pointer_params"])
    # ---- fixtures: compiled separately to bitcode and analysed with the same code
    fxf = ir_facts("constsrc-fixture", units_=[FixtureUnit(FIXTURE)])
    for fn in fixture_fns:
        decl[fn["name"]] = [("*" in p.get("ct", ""), pointee_const(p.get("ct", ""))) for p in fn["params"]]
    fout, fst = [], collections.Counter()
    judge(fixpoint(fxf["functions"]), fxf["functions"], fout, fst)
    got = collections.Counter(f.function for f in fout)
    if not got.get("fix_const_bad_direct") or not got.get("fix_const_bad_chain") or got.get("fix_const_good") or got.get("fix_const_ptrptr"):
        raise AnalysisBroken("R-CONSTSRC.ir fixtures: %r" % dict(got))
    res["stats"] = dict(res["stats"])
    res["obligations"] = res["stats"]["const_pointer_params"]
    res["undecided"] = res["stats"].get("passed_to_indirect_call", 0)
    res["samples"].append(dict(rule="R-CONSTSRC.ir", const_pointer_params=res["stats"]["const_pointer_params"],
                               written_params=len(W), param_edges=res["stats"]["param_edges"]))
    res["notes"].append("fixtures: 2 positive fired, 2 negative silent; %d reviewed exceptions (spec/constsrc_exceptions.tsv)" % len(exceptions))
    res["exhaustive"] = True
    return res


class FixtureUnit:
    """a compile unit outside the repository (selftest fixture) with the include paths of a top-level unit"""
    def __init__(self, path):
        self.rel = "verif-fixture-" + os.path.basename(path)
        self.dir = ""
        self.base = os.path.splitext(os.path.basename(path))[0]
        self.kind = "c"
        self.src = path
        self.path = path

    def flags(self, extra=()):
        return ["-DHAVE_CONFIG_H", "-I" + REPO, "-D__GMP_WITHIN_GMP", "-Wno-error", "-w"] + list(extra)
