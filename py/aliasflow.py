"""aliasflow: intraprocedural, flow-sensitive abstract interpretation of the mpz/mpq/mpf layer under the manual's
aliasing model, partitioned on alias facts.  Rules evaluated on it:

  R-STALE    a limb pointer taken from an object is not used after an event that may move or free that object's
             block - or the block of any object that may be the same variable - until it is reloaded      (C04, C05)
  R-CLOBBER  an input operand is not read after an output that may be the same variable was overwritten  (C05)
  R-CONSTSRC nothing is stored through (a limb pointer of) an input-only operand, except on a path that a pointer comparison
             reserves for "this operand is the output variable"  (C05: operands that are not outputs keep their value)

Alias model at entry (doc/mpir.texi, "Variable Conventions"; division/sqrtrem/gcdext entries): an output (non-const
object pointer parameter) may be the same variable as any input of the same type; two outputs of one call are distinct;
locals and fresh blocks alias nothing.  Pointer comparisons on object pointers (w == u) and on freshly loaded limb
pointers (wp == up) refine the model per path; states that differ in these facts are kept apart.

No limb values are modelled.  Writes and reads are classified by component (size field / limb block / whole object):
limb-level stores conflict only with whole-object reads, because element-wise in-place loops are the library's normal
idiom and their safety depends on offsets, which this rule does not decide."""
import collections, json

import sa
from core import *

# limb-level callees: (destination argument, [(length argument, multiplier)...]) = number of limbs written
MPN_EXTENTS = {}
for _n in ("add_n", "sub_n", "and_n", "andn_n", "nand_n", "ior_n", "iorn_n", "nior_n", "xor_n", "xnor_n"):
    MPN_EXTENTS["__gmpn_" + _n] = [(0, [(3, 1)])]
for _n in ("add_1", "sub_1", "mul_1", "addmul_1", "submul_1", "lshift", "rshift", "copyi", "copyd", "com_n", "neg_n",
           "divexact_1", "divexact_by3c", "lshift1", "rshift1"):
    MPN_EXTENTS["__gmpn_" + _n] = [(0, [(2, 1)])]
MPN_EXTENTS["__gmpn_add"] = MPN_EXTENTS["__gmpn_sub"] = [(0, [(2, 1)])]
MPN_EXTENTS["__gmpn_mul"] = [(0, [(2, 1), (4, 1)])]
MPN_EXTENTS["__gmpn_mul_n"] = [(0, [(3, 2)])]
MPN_EXTENTS["__gmpn_sqr"] = [(0, [(2, 2)])]
MPN_EXTENTS["__gmpn_zero"] = [(0, [(1, 1)])]
MPN_EXTENTS["__gmpn_store"] = [(0, [(1, 1)])]
MPN_EXTENTS["__gmpn_tdiv_qr"] = [(1, [(6, 1)])]
MPN_EXTENTS["__gmpn_divrem_1"] = [(0, [(1, 1), (3, 1)])]

import re as _re
_ARR = _re.compile(r"^(?:mp_limb_t|unsigned long)\[(\d+)\]$")
OBJ = {"__mpz_struct": "mpz", "__mpq_struct": "mpq", "__mpf_struct": "mpf"}
SCALAR_FIELDS = {"_mp_size", "_mp_alloc", "_mp_prec", "_mp_exp"}
REALLOC_FNS = {"__gmpz_realloc", "__gmpz_realloc2", "_mpz_realloc"}
TMP_ALLOC = {"__gmp_tmp_reentrant_alloc", "__builtin_alloca", "__gmp_tmp_debug_alloc", "__gmp_tmp_alloc"}


# ---- linear terms over symbolic integers (R-EXTENT) --------------------------------------------------
# Term = (const, frozenset((symbol, coef)...)); a symbol stands for "the value some variable had at some point".
def T(c=0, syms=()):
    return (c, frozenset((s, k) for s, k in syms if k))


def tadd(a, b, sign=1):
    if a is None or b is None:
        return None
    d = dict(a[1])
    for s_, k in b[1]:
        d[s_] = d.get(s_, 0) + sign * k
    return (a[0] + sign * b[0], frozenset((s_, k) for s_, k in d.items() if k))


def tscale(a, k):
    if a is None:
        return None
    return (a[0] * k, frozenset((s_, c * k) for s_, c in a[1] if c * k))


def tconst(a):
    """the integer value if the term is a constant, else None"""
    return a[0] if a is not None and not a[1] else None


def objkind(ct):
    """('mpz', const?, is_pointer) for an object (pointer) type, else None"""
    for k, v in OBJ.items():
        if k in ct:
            ptr = "*" in ct
            arr = "[1]" in ct
            if ct.count("*") > 1:
                return None
            const = ct.strip().startswith("const")
            return (v, const, ptr, arr)
    return None


def rtype(r):
    return r[3]


class State:
    __slots__ = ("obj", "limb", "written", "env", "alloc", "off", "flags", "views", "wit")

    def __init__(self, obj=None, limb=None, written=None, env=None, alloc=None, off=None):
        self.obj = dict(obj or {})          # var id -> frozenset(regions)
        self.limb = dict(limb or {})        # var id -> frozenset((region, fresh, line_of_invalidation, is_base))
        self.written = dict(written or {})  # region -> {component: line}
        self.env = dict(env or {})          # integer var id -> Term (absent = the variable's own entry symbol)
        self.alloc = dict(alloc or {})      # region -> (Term lower bound of its allocation in limbs, line)
        self.off = dict(off or {})          # limb pointer var id -> Term offset from the base of its (single) region
        self.flags = {}                     # boolean local -> parameter pairs that differ when the flag is false
        self.views = {}                     # local object region -> parameter regions whose limb block it borrows (PTR (t) = PTR (u))
        self.wit = {}                       # integer var id -> frozenset of Terms it holds on SOME incoming path (witnesses; None = too many)

    def copy(self):
        s = State(self.obj, self.limb, {k: dict(v) for k, v in self.written.items()}, self.env, self.alloc, self.off)
        s.flags = dict(self.flags)
        s.views = dict(self.views)
        s.wit = dict(self.wit)
        return s

    def join(self, o, where=0):
        ch = False
        # terms: equal or forgotten (a join symbol per (block, variable) keeps loops finite)
        se, oe = self.env, o.env
        for k in (se.keys() | oe.keys()) if se.keys() != oe.keys() else se.keys():
            a, b = se.get(k), oe.get(k)
            if a is b or a == b:
                continue
            if a is None:
                a = T(0, [(("v", k, 0), 1)])
            elif b is None:
                b = T(0, [(("v", k, 0), 1)])
            if a != b:
                n = T(0, [(("phi", where, k), 1)])
                # witnesses: the exact terms the variable has on the joined paths (asize = prec + 1 out of a clamp)
                w = set()
                for t_, owner in ((a, self), (b, o)):
                    if any(s_[0] == "phi" for s_, _c in t_[1]):
                        ow = owner.wit.get(k)
                        if ow is None and k in owner.wit:
                            w = None
                            break
                        w |= set(ow or ())
                    else:
                        w.add(t_)
                if w is not None and len(w) > 4:
                    w = None
                w = frozenset(w) if w is not None else None
                if se.get(k) != n:
                    se[k] = n
                    ch = True
                if self.wit.get(k, "absent") != w:
                    if not (k in self.wit and self.wit[k] is None):
                        if w is not None and k in self.wit and self.wit[k] is not None:
                            w = self.wit[k] | w
                            if len(w) > 4:
                                w = None
                        if self.wit.get(k, "absent") != w:
                            self.wit[k] = w
                            ch = True
        for k in list(self.alloc):
            if k not in o.alloc or o.alloc[k][0] != self.alloc[k][0]:
                del self.alloc[k]
                ch = True
        for k in list(self.off):
            if o.off.get(k, "absent") != self.off[k]:
                del self.off[k]
                ch = True
        for k in list(self.flags):
            if o.flags.get(k) != self.flags[k]:
                del self.flags[k]
                ch = True
        for k, v in o.views.items():
            n = self.views.get(k, frozenset()) | v
            if n != self.views.get(k):
                self.views[k] = n
                ch = True
        for k, v in o.obj.items():
            n = self.obj.get(k, frozenset()) | v
            if n != self.obj.get(k):
                self.obj[k] = n
                ch = True
        for k, v in o.limb.items():
            n = self.limb.get(k, frozenset()) | v
            if n != self.limb.get(k):
                self.limb[k] = n
                ch = True
        for r, comps in o.written.items():
            mine = self.written.setdefault(r, {})
            for c, ln in comps.items():
                if c not in mine:
                    mine[c] = ln
                    ch = True
        return ch


class _Dedup(collections.Counter):
    """counter whose increments are de-duplicated by the analysis on (name, site) so that fixpoint revisits do not inflate it"""
    site = None
    _seen = None

    def bump(self, name, key):
        if self._seen is None:
            self._seen = set()
        if (name, key) not in self._seen:
            self._seen.add((name, key))
            self[name] += 1


class Analysis:
    def __init__(self, fn, prop, report, stats, must_differ=()):
        self.fn, self.prop, self.report, self.stats = fn, prop, report, stats
        self.blocks = sa.blocks_by_id(fn)
        self.params = fn["params"]
        self.pinfo = {}
        self.input_regions = set()
        self.must_differ = set(must_differ)
        for i, p in enumerate(self.params):
            k = objkind(p.get("ct", ""))
            if k and k[2]:
                self.pinfo[p["id"]] = (i, k[0], k[1])
        self.seen_reports = set()
        self.shared_stats = stats
        self.stats = _Dedup()
        self.fine = True
        self.reset_reports = lambda: None
        self.tmp_backed = set()
        self.exceptions = set()
        self.arrnames = {}
        self.implied = []                # (Term >= 0 over entry values of parameters, line, block id): local-array extents
        self.cur_block = None
        self.summarised = set()          # __dst variables of inline fill / copy macros (one obligation per macro use)
        self._fills = {}
        self.static_noalias = set()      # frozenset((i, j)) parameter pairs that no call site of a static function aliases
        self.overlap = {}                # callee -> [(i, j, kind, text)]

    READONLY_DESPITE_TYPE = set()

    # ---- regions -----------------------------------------------------------------------------
    def preg(self, i, sub=""):
        kind = self.pinfo_by_idx(i)
        t = "mpz" if sub else kind[1]
        return ("P", i, sub, t)

    def pinfo_by_idx(self, i):
        for pid, v in self.pinfo.items():
            if v[0] == i:
                return v
        return None

    def is_input(self, r):
        return r[0] == "P" and self.pinfo_by_idx(r[1])[2]

    def is_output(self, r):
        return r[0] == "P" and not self.pinfo_by_idx(r[1])[2]

    def may_alias(self, a, b, ne):
        if a == b:
            return True
        if a[0] != "P" or b[0] != "P":
            return False
        if a[1] == b[1]:
            return a[2] == "" or b[2] == ""        # a whole mpq and one of its own parts
        # parts of two mpq operands overlap when they are the same part, or one side is the whole object
        if a[2] != b[2] and a[2] != "" and b[2] != "":
            return False
        pa, pb = self.pinfo_by_idx(a[1]), self.pinfo_by_idx(b[1])
        if pa[1] != pb[1]:
            return False
        if not pa[2] and not pb[2]:
            return False                       # two outputs of one call are distinct (manual)
        if frozenset((a[1], b[1])) in ne or frozenset((a[1], b[1])) in self.static_noalias:
            return False
        if frozenset((self.params[a[1]]["name"], self.params[b[1]]["name"])) in self.must_differ:
            return False
        return True

    # ---- expression evaluation ---------------------------------------------------------------
    def objlvalue(self, e, st):
        """regions named by an lvalue of object (struct) type"""
        k = e.get("k")
        if k == "var":
            ok = objkind(e.get("ct", ""))
            if ok and not ok[2]:
                return frozenset([("L", e["id"], "", ok[0])])
            if ok and ok[3]:
                return frozenset([("L", e["id"], "", ok[0])])
            return None
        if k == "member" and e["field"] in ("_mp_num", "_mp_den"):
            base = self.eval(e["base"], st) if e["arrow"] else ("obj", self.objlvalue(e["base"], st))
            if base and base[0] == "obj" and base[1]:
                sub = "n" if e["field"] == "_mp_num" else "d"
                return frozenset((r[0], r[1], sub, "mpz") for r in base[1])
            return None
        if k == "unop" and e["op"] == "*":
            v = self.eval(e["e"], st)
            return v[1] if v and v[0] == "obj" else None
        if k == "index":
            b = self.objlvalue(e["base"], st)
            if b:
                return b
            v = self.eval(e["base"], st)
            return v[1] if v and v[0] == "obj" else None
        if k == "cast":
            return self.objlvalue(e["e"], st)
        return None

    def eval(self, e, st):
        if not isinstance(e, dict):
            return None
        k = e.get("k")
        if k == "var":
            if e["id"] in st.obj:
                return ("obj", st.obj[e["id"]])
            if e["id"] in st.limb:
                return ("limb", st.limb[e["id"]])
            ok = objkind(e.get("ct", ""))
            if ok and ok[3]:                     # local mpz_t decays to a pointer to itself
                return ("obj", frozenset([("L", e["id"], "", ok[0])]))
            m_ = _ARR.match(e.get("ct", "")) if e.get("param") is None and not e.get("global") else None
            if m_:
                # a local limb array: a block of exactly K limbs (R-EXTENT), the variable is its base pointer
                r = ("S", e["id"], "", "arr")
                self.arrnames[e["id"]] = e.get("name", "?")
                if r not in st.alloc:
                    st.alloc[r] = (T(int(m_.group(1))), e.get("line", 0) or 0)
                return ("limb", frozenset([(r, True, 0, True)]))
            if e.get("param") is not None and "*" in e.get("ct", "") and e["id"] not in self.pinfo:
                ct = e.get("ct", "")
                if "unsigned long *" in ct:
                    return ("limb", frozenset([(("A", e["param"], "", "arr"), True, 0, True)]))
            return None
        if k == "member":
            f = e["field"]
            base = self.eval(e["base"], st) if e["arrow"] else ("obj", self.objlvalue(e["base"], st))
            if not base or base[0] != "obj" or not base[1]:
                return None
            if f == "_mp_d":
                return ("limb", frozenset((r, True, 0, True) for r in base[1]))
            if f in ("_mp_num", "_mp_den"):
                return None
            return None
        if k == "unop" and e["op"] == "&":
            lv = self.objlvalue(e["e"], st)
            if lv:
                return ("obj", lv)
            if e["e"].get("k") == "index":
                return self.eval(e["e"]["base"], st)
            return None
        if k == "unop" and e["op"] in ("post++", "post--", "pre++", "pre--"):
            return self.nonbase(self.eval(e["e"], st))
        if k == "cast":
            return self.eval(e["e"], st)
        if k == "binop" and e["op"] in ("+", "-"):
            l = self.eval(e["l"], st)
            if l and l[0] == "limb":
                return self.nonbase(l)
            r = self.eval(e["r"], st) if e["op"] == "+" else None
            if r and r[0] == "limb":
                return self.nonbase(r)
            return None
        if k == "binop" and e["op"] in ("=", ","):
            return self.eval(e["r"], st)
        if k == "cond":
            a, b = self.eval(e["a"], st), self.eval(e["b"], st)
            if a and b and a[0] == b[0]:
                return (a[0], a[1] | b[1])
            return a or b
        if k == "call":
            return self.call_value(e, st)
        return None

    @staticmethod
    def nonbase(v):
        if v and v[0] == "limb":
            return ("limb", frozenset((r, f, l, False) for (r, f, l, b) in v[1]))
        return v

    def call_value(self, e, st):
        """value of a call expression appearing inside another expression (the call itself was processed as its own
        CFG element just before)"""
        c = e.get("callee")
        if c in REALLOC_FNS and e["args"]:
            a = self.eval(e["args"][0], st)
            if a and a[0] == "obj":
                return ("limb", frozenset((r, True, 0, True) for r in a[1]))
        if c in TMP_ALLOC:
            return ("limb", frozenset([(("T", e.get("line", 0), "", "tmp"), True, 0, True)]))
        if c is None and self.is_allocator_call(e) in ("alloc", "realloc"):
            return ("limb", frozenset([(("H", e.get("line", 0), "", "heap"), True, 0, True)]))
        return None

    @staticmethod
    def is_allocator_call(e):
        fn = e.get("fn")
        names = []
        sa.walk(fn or {}, lambda n: names.append(n["name"]) if n.get("k") == "var" else None)
        if "__gmp_allocate_func" in names:
            return "alloc"
        if "__gmp_reallocate_func" in names:
            return "realloc"
        if "__gmp_free_func" in names:
            return "free"
        return None

    # ---- linear terms ---------------------------------------------------------------------------
    def term(self, e, st):
        if not isinstance(e, dict):
            return None
        k = e.get("k")
        if k == "int":
            return T(e["v"])
        if k == "var":
            ct = e.get("ct", "")
            if "*" in ct or "[" in ct or "struct" in ct:
                return None
            return st.env.get(e["id"], T(0, [(("v", e["id"], 0), 1)]))
        if k == "cast":
            return self.term(e["e"], st)
        if k == "binop" and e["op"] in ("+", "-"):
            return tadd(self.term(e["l"], st), self.term(e["r"], st), 1 if e["op"] == "+" else -1)
        if k == "binop" and e["op"] == "*":
            l, r = self.term(e["l"], st), self.term(e["r"], st)
            if tconst(l) is not None:
                return tscale(r, tconst(l))
            if tconst(r) is not None:
                return tscale(l, tconst(r))
            return None
        if k == "binop" and e["op"] == "<<":
            r = tconst(self.term(e["r"], st))
            if r is not None and 0 <= r < 32:
                return tscale(self.term(e["l"], st), 1 << r)
            return None
        if k == "unop" and e["op"] == "-":
            return tscale(self.term(e["e"], st), -1)
        if k == "binop" and e["op"] in ("=", ","):
            return self.term(e["r"], st)
        return None

    def offset(self, e, st):
        """Term offset (in limbs) of pointer expression e from the base of its region, or None"""
        if not isinstance(e, dict):
            return None
        k = e.get("k")
        if k == "var":
            if e["id"] not in st.off and e.get("param") is None and not e.get("global") and _ARR.match(e.get("ct", "")):
                return T(0)
            return st.off.get(e["id"])
        if k == "member" and e["field"] == "_mp_d":
            return T(0)
        if k == "cast":
            return self.offset(e["e"], st)
        if k == "binop" and e["op"] in ("+", "-"):
            lo = self.offset(e["l"], st)
            if lo is not None:
                return tadd(lo, self.term(e["r"], st), 1 if e["op"] == "+" else -1)
            if e["op"] == "+":
                ro = self.offset(e["r"], st)
                if ro is not None:
                    return tadd(ro, self.term(e["l"], st))
            return None
        if k == "binop" and e["op"] in ("=", ","):
            return self.offset(e["r"], st)
        if k == "cond":
            a, b = self.offset(e["a"], st), self.offset(e["b"], st)
            return a if a is not None and a == b else None
        if k == "call" and e.get("callee") in REALLOC_FNS:
            return T(0)
        if k == "call" and (e.get("callee") in TMP_ALLOC or (e.get("callee") is None and self.is_allocator_call(e) == "alloc")):
            return T(0)
        if k == "unop" and e["op"] == "&" and e["e"].get("k") == "index":
            return tadd(self.offset(e["e"]["base"], st), self.term(e["e"]["idx"], st))
        return None

    def check_extent(self, ptr_expr, extra, st, line, what):
        """a write of limbs [off, off+extra) (extra is a Term: index+1 or a length) through ptr_expr"""
        v = self.eval(ptr_expr, st)
        if not v or v[0] != "limb" or len(v[1]) != 1:
            return
        (r, fresh, l0, bs) = next(iter(v[1]))
        if r not in st.alloc or not fresh:
            return
        self.stats.bump("extent_obligations", line)
        E, eline = st.alloc[r]
        end = tadd(self.offset(ptr_expr, st), extra)
        d = tconst(tadd(end, E, -1)) if end is not None else None
        if d is None and end is not None and self.fine and st.wit:
            # the end depends on a variable that was joined: does one of the exact values it had on an incoming path overrun?
            # symbols of `end` that ARE the current value of a variable with witnesses (a join symbol, or the fresh symbol of v = c ? a : b)
            phis = []
            diff = tadd(end, E, -1)                      # the witness value goes into both the end and the allocation term
            for s_, c_ in diff[1]:
                vid_ = s_[2] if s_[0] == "phi" else (s_[1] if s_[0] == "v" else None)
                if vid_ is not None and st.wit.get(vid_) and st.env.get(vid_) == T(0, [(s_, 1)]):
                    phis.append(((s_, vid_), c_))
            if len(phis) == 1:
                ((sym, wvid), coef) = phis[0]
                for t_ in sorted(st.wit[wvid], key=repr):
                    d2 = tconst(tadd(tadd(diff, T(0, [(sym, coef)]), -1), tscale(t_, coef)))
                    if d2 is not None and d2 > 0 and ("R-EXTENT", self.fn["name"], self.rname(r)) not in self.exceptions:
                        self.stats.bump("extent_refuted", line)
                        self.rep("R-EXTENT", line, "overrun-on-path:%s" % self.rname(r),
                                 "%s at line %d writes %d limb%s past the size requested for %s at line %d on the path on which %s holds the value "
                                 "it was given before the join (the bound itself: a clamp to the allocation followed by a store at that index)"
                                 % (what, line, d2, "" if d2 == 1 else "s", self.rname(r), eline, self.var_name(wvid)))
                        return
        if d is None:
            self.stats.bump("extent_undecided", line)
            if r[0] == "S" and end is not None:
                need = tadd(E, end, -1)                     # size - end >= 0
                pids = {p["id"] for p in self.params}
                if need[1] and all(sym[0] == "v" and sym[2] == 0 and sym[1] in pids for sym, _ in need[1]):
                    self.implied.append((need, line, self.cur_block, self.arrnames.get(r[1], "?")))
        elif d <= 0:
            self.stats.bump("extent_proved", line)
        elif ("R-EXTENT", self.fn["name"], self.rname(r)) in self.exceptions:
            self.stats["reviewed_exceptions"] += 1
        else:
            self.stats.bump("extent_refuted", line)
            self.rep("R-EXTENT", line, "overrun:%s" % self.rname(r),
                     "%s at line %d writes %d limb%s past the size requested for %s at line %d (%s)"
                     % (what, line, d, "" if d == 1 else "s", self.rname(r), eline,
                        "the scratch block holds exactly the limbs that were requested" if r[0] in ("T", "H") else
                        "the allocation is only known to hold what MPZ_REALLOC / the size test asked for"))

    def var_name(self, vid):
        if getattr(self, "_vnames", None) is None:
            self._vnames = {}
            for b in self.fn["blocks"]:
                for el in b["elems"]:
                    sa.walk(el["e"], lambda n: self._vnames.setdefault(n["id"], n.get("name", "?")) if n.get("k") == "var" else None)
        return self._vnames.get(vid, "#%d" % vid)

    def abs_term(self, e, st):
        """|e| as a Term when e is  n,  -n,  or  (c ? n : -n)  with n a term that denotes a size"""
        while isinstance(e, dict) and e.get("k") == "cast":
            e = e["e"]
        if isinstance(e, dict) and e.get("k") == "cond":
            a, b = self.term(e["a"], st), self.term(e["b"], st)
            if a is not None and b is not None and a == tscale(b, -1):
                # one arm is the negation of the other: the magnitude is the arm that is written without a minus sign
                for arm, t in ((e["a"], a), (e["b"], b)):
                    x = arm
                    while isinstance(x, dict) and x.get("k") == "cast":
                        x = x["e"]
                    if not (isinstance(x, dict) and x.get("k") == "unop" and x["op"] == "-"):
                        return t
            return None
        if isinstance(e, dict) and e.get("k") == "unop" and e["op"] == "-":
            return self.term(e["e"], st)
        return self.term(e, st)

    def check_size_store(self, regions, rhs, st, line):
        """SIZ (w) = n: 'size within allocation' - n limbs must fit what MPZ_REALLOC / the allocation test just established"""
        if rhs is None or len(regions) != 1:
            return
        r = next(iter(regions))
        if r not in st.alloc or r[0] not in ("P", "L"):
            return
        n = self.abs_term(rhs, st)
        self.stats.bump("sizestore_obligations", line)
        E, eline = st.alloc[r]
        d = tconst(tadd(n, E, -1)) if n is not None else None
        if d is None:
            self.stats.bump("sizestore_undecided", line)
        elif d <= 0:
            self.stats.bump("sizestore_proved", line)
        elif ("R-EXTENT", self.fn["name"], self.rname(r)) in self.exceptions:
            self.stats["reviewed_exceptions"] += 1
        else:
            self.rep("R-EXTENT", line, "size-exceeds-alloc:%s" % self.rname(r),
                     "the size stored for %s at line %d is %d limb%s more than the allocation established at line %d: the object claims "
                     "limbs outside its block" % (self.rname(r), line, d, "" if d == 1 else "s", eline))

    # ---- events ---------------------------------------------------------------------------------
    def rep(self, rule, line, sig, what):
        key = (rule, sig, line)
        if key in self.seen_reports:
            return
        self.seen_reports.add(key)
        self.report(Finding(self.prop, rule, self.fn["file"], line, self.fn["name"], sig, what))

    def invalidate(self, regions, st, ne, line, why):
        """the blocks of `regions` may move / be freed: pointers into them and into may-aliases go stale"""
        for r in list(st.alloc):
            if any(self.may_alias(r, w, ne) for w in regions):
                del st.alloc[r]
        for vid, vals in list(st.limb.items()):
            new = set()
            for (r, fresh, l0, bs) in vals:
                if fresh and r[0] in ("P", "L") and r not in self.tmp_backed and any(self.may_alias(r, w, ne) for w in regions):
                    new.add((r, False, line, bs))
                else:
                    new.add((r, fresh, l0, bs))
            st.limb[vid] = frozenset(new)

    def use_limb(self, val, st, line, name, how):
        if not val or val[0] != "limb":
            return
        self.stats.bump("limb_pointer_uses", (line, name))
        for (r, fresh, l0, bs) in val[1]:
            if not fresh:
                if ("R-STALE", self.fn["name"], name) in self.exceptions:
                    self.stats["reviewed_exceptions"] += 1
                    return
                self.rep("R-STALE", line, "stale:%s" % name,
                         "%s holds a limb pointer of %s taken before line %d, where the block of %s may have been reallocated or freed "
                         "(they may be the same variable); it is %s at line %d without being reloaded"
                         % (name, self.rname(r), l0, self.rname(r) if True else "", how, line))
                return

    def rname(self, r):
        if r[0] == "P":
            n = self.params[r[1]]["name"]
            return n + ({"": "", "n": "->_mp_num", "d": "->_mp_den"}[r[2]])
        if r[0] == "L":
            return "local#%d%s" % (r[1], r[2])
        if r[0] == "S":
            return "local array %s" % self.arrnames.get(r[1], "#%d" % r[1])
        return "%s@%d" % (r[0], r[1])

    def write(self, regions, comp, st, line):
        for r in regions:
            if r[0] == "P":
                st.written.setdefault(r, {}).setdefault(comp, line)
                self.stats.bump("output_writes", (line, r, comp))

    def const_write(self, regions, st, ne, line, how):
        """R-CONSTSRC: the limbs (or the whole) of an input-only operand are written although nothing on this path says the
        operand is the same variable as an output - the call with distinct variables changes an input"""
        for r in regions:
            if r[0] != "P" or not self.is_input(r):
                continue
            self.stats.bump("constsrc_obligations", (line, r))
            if any(isinstance(x, tuple) and x[0] == "eq" and r[1] in x[1:] and
                   self.is_output(("P", x[2] if x[1] == r[1] else x[1], "", "")) for x in ne):
                continue
            if not self.fine:
                self.stats.bump("constsrc_undecided", (line, r))
                continue
            if ("R-CONSTSRC", self.fn["name"], self.rname(r)) in self.exceptions:
                self.stats["reviewed_exceptions"] += 1
                continue
            self.rep("R-CONSTSRC", line, "constsrc:%s" % self.rname(r),
                     "%s is an input-only (const) operand, but its %s at line %d, on a path where nothing establishes that it is the same "
                     "variable as an output: with distinct variables the call changes an operand that is not an output"
                     % (self.rname(r), how, line))

    def read(self, regions, comp, st, ne, line, how):
        for r in regions:
            if r[0] != "P" or not self.is_input(r):
                continue
            self.stats.bump("input_reads", (line, r, comp))
            for w, comps in st.written.items():
                if w == r or not self.may_alias(w, r, ne):
                    continue
                for wc, wl in comps.items():
                    conflict = (comp == "all") or (wc == "all") or (comp == wc == "size")
                    if comp == "limbs" and wc != "all":
                        conflict = False
                    if comp == "size" and wc == "limbs":
                        conflict = False
                    if conflict and ("R-CLOBBER", self.fn["name"], self.rname(r)) in self.exceptions:
                        self.stats["reviewed_exceptions"] += 1
                        return
                    if conflict:
                        self.rep("R-CLOBBER", line, "clobber:%s:%s" % (self.rname(r), self.rname(w)),
                                 "input %s is %s at line %d after output %s, which may be the same variable, was overwritten at line %d "
                                 "(%s)" % (self.rname(r), how, line, self.rname(w), wl,
                                           {"all": "passed to a callee as destination", "size": "size field stored", "limbs": "limbs stored"}[wc]))
                        return

    # ---- element transfer ------------------------------------------------------------------------
    def do_call(self, e, st, ne, line):
        c = e.get("callee")
        args = e.get("args", [])
        ps = e.get("params", [])
        vals = [self.eval(a, st) for a in args]
        # nested side effects in arguments (x = y inside an argument) are rare; evaluate reads of scalars
        for a in args:
            self.scan_reads(a, st, ne, line, top=False)
        if c in REALLOC_FNS:
            if vals and vals[0] and vals[0][0] == "obj":
                self.invalidate(vals[0][1], st, ne, line, c)
                self.stats.bump("realloc_events", line)
                n = self.term(args[1], st) if len(args) > 1 and c != "__gmpz_realloc2" else None
                if n is not None and len(vals[0][1]) == 1:
                    st.alloc[next(iter(vals[0][1]))] = (n, line)
            return
        kind = self.is_allocator_call(e) if c is None else None
        if kind in ("free", "realloc"):
            if vals and vals[0] and vals[0][0] == "limb":
                self.use_limb(vals[0], st, line, self.argname(args[0]), "passed to the %s function" % kind)
                regs = {r for (r, f, l, b) in vals[0][1] if r[0] in ("P", "L")}
                self.invalidate(regs, st, ne, line, kind)
                self.stats.bump("realloc_events", line)
            return
        if kind == "alloc" or c in TMP_ALLOC or (c or "").startswith("__builtin_"):
            return
        for (i, j, okind, otxt) in self.overlap.get(c, ()):
            if i < len(vals) and j < len(vals) and vals[i] and vals[j] and vals[i][0] == "limb" and vals[j][0] == "limb":
                okey = (line, c, i, j)
                self.stats.bump("overlap_obligations", okey)
                bad = None
                for (ri, fi, li, bi) in vals[i][1]:
                    for (rj, fj, lj, bj) in vals[j][1]:
                        if ri[0] != "P" or rj[0] != "P":
                            continue
                        if ri == rj:
                            if okind == "no-overlap" and bi and bj:
                                bad = (ri, rj, "are both the limb block of %s" % self.rname(ri))
                            continue
                        if not self.may_alias(ri, rj, ne):
                            continue
                        if okind == "no-overlap":
                            bad = (ri, rj, "%s and %s may be the same variable" % (self.rname(ri), self.rname(rj)))
                        elif okind == "same-or-separate" and not (bi and bj):
                            bad = (ri, rj, "%s and %s may be the same variable and the pointers are offset differently" % (self.rname(ri), self.rname(rj)))
                if bad is None:
                    self.stats.bump("overlap_proved", okey)
                elif not self.fine:
                    # the coarse partition joins paths that bind the pointers differently: a pairing seen here may not exist
                    self.stats.bump("overlap_undecided", okey)
                elif ("R-OVERLAP", self.fn["name"], c) in self.exceptions:
                    self.stats["reviewed_exceptions"] += 1
                else:
                    self.rep("R-OVERLAP", line, "overlap:%s:%d,%d" % (c, i, j),
                             "%s is called at line %d with arguments %d and %d possibly overlapping (%s) and nothing on this path separates "
                             "them (no pointer comparison, no copy to temporary space); the callee requires %s"
                             % (c, line, i, j, bad[2], otxt))
        if c in ("__gmpn_copyi", "__gmpn_copyd") and len(args) >= 2:
            self.copy_direction(c, args[0], args[1], st, ne, line)
        ext = MPN_EXTENTS.get(c)
        if ext:
            for dst, lens in ext:
                if dst < len(args) and all(i < len(args) for i, _ in lens):
                    ln = T(0)
                    for i, k in lens:
                        ln = tadd(ln, tscale(self.term(args[i], st), k))
                    if ln is not None:
                        self.check_extent(args[dst], ln, st, line, "%s" % c)
        # reads first (the callee may read every operand before it writes), then writes
        outs = []
        for i, v in enumerate(vals):
            pc = ps[i].get("pc") if i < len(ps) else 0
            isptr = ps[i].get("ptr") if i < len(ps) else 1
            if not v:
                continue
            if v[0] == "obj":
                if pc:
                    self.read(v[1], "all", st, ne, line, "passed to %s" % c)
                else:
                    outs.append(v[1])
            elif v[0] == "limb":
                self.use_limb(v, st, line, self.argname(args[i]), "passed to %s" % (c or "a callee"))
                if pc:
                    self.read({r for (r, f, l, b) in v[1]}, "limbs", st, ne, line, "read through %s by %s" % (self.argname(args[i]), c))
                else:
                    self.write({r for (r, f, l, b) in v[1]}, "limbs", st, line)
                    if isptr and not (c or "").startswith("__builtin_") and c not in self.READONLY_DESPITE_TYPE:
                        self.const_write({r for (r, f, l, b) in v[1]}, st, ne, line, "limb block is passed to %s as a non-const pointer" % (c or "a callee"))
        # a borrowed view (a local mpz_t whose limb pointer is an operand's) handed to an mpz function together with a destination that
        # may be that operand: the callee recognises "same variable" by object identity, which the view defeats, yet the limbs are shared
        if (c or "").startswith("__gmpz_") and st.views:
            for i, v in enumerate(vals):
                if not v or v[0] != "obj" or not (ps[i].get("pc") if i < len(ps) else 0):
                    continue
                for r in v[1]:
                    for src in st.views.get(r, ()):
                        for regs in outs:
                            for w in regs:
                                if w[0] == "P" and (w == src or self.may_alias(w, src, ne)):
                                    if not self.fine:
                                        continue
                                    self.rep("R-CLOBBER", line, "view-alias:%s:%s" % (self.rname(src), self.rname(w)),
                                             "%s is called at line %d with a local view that borrows the limbs of %s as an input and with %s, which "
                                             "may be the same variable, as destination: the callee detects aliasing by object identity, so it "
                                             "overwrites limbs it still has to read" % (c, line, self.rname(src), self.rname(w)))
        for regs in outs:
            self.const_write(regs, st, ne, line, "object is passed to %s as a destination" % (c or "a callee"))
            # an object handed to a callee as destination: overwritten, possibly reallocated
            self.write(regs, "all", st, line)
            self.invalidate(regs, st, ne, line, c)
            self.stats.bump("realloc_events", line)

    def argname(self, a):
        from r_tmp import base_var
        v = base_var(a)
        return v["name"] if v else "<expr>"

    def scan_reads(self, e, st, ne, line, top=True):
        """reads performed by evaluating e (not descending into nested calls)"""
        def f(n):
            if n is not e and n.get("k") == "call":
                return False
            k = n.get("k")
            if k == "member" and n["field"] in SCALAR_FIELDS:
                base = self.eval(n["base"], st) if n["arrow"] else ("obj", self.objlvalue(n["base"], st))
                if base and base[0] == "obj" and base[1]:
                    self.read(base[1], "size" if n["field"] == "_mp_size" else "meta", st, ne, line, "read (%s)" % n["field"])
            if k == "member" and n["field"] == "_mp_d":
                base = self.eval(n["base"], st) if n["arrow"] else ("obj", self.objlvalue(n["base"], st))
                if base and base[0] == "obj" and base[1]:
                    self.read(base[1], "limbs", st, ne, line, "dereferenced (_mp_d)")
            if k == "unop" and n["op"] == "*":
                v = self.eval(n["e"], st)
                self.use_limb(v, st, line, self.argname(n["e"]), "dereferenced")
            if k == "index":
                v = self.eval(n["base"], st)
                self.use_limb(v, st, line, self.argname(n["base"]), "indexed")
        sa.walk(e, f)

    def assign(self, lhs, rhs, st, ne, line, compound=False):
        rv = self.eval(rhs, st) if rhs is not None else None
        k = lhs.get("k")
        if k == "var":
            vid = lhs["id"]
            ct = lhs.get("ct", "")
            isint = "*" not in ct and "[" not in ct and "struct" not in ct
            if isint:
                rv = None                   # a pointer difference / cast is a number, not a pointer
            if compound:
                if vid in st.limb:          # p += n keeps the regions but is no longer the base pointer
                    st.limb[vid] = frozenset((r, f, l, False) for (r, f, l, b) in st.limb[vid])
                    st.off.pop(vid, None)
                elif isint:
                    st.env[vid] = T(0, [(("v", vid, line), 1)])
                    st.wit.pop(vid, None)
                return
            st.obj.pop(vid, None)
            st.limb.pop(vid, None)
            st.off.pop(vid, None)
            if rv and rv[0] == "obj":
                st.obj[vid] = rv[1]
            elif rv and rv[0] == "limb":
                st.limb[vid] = rv[1]
                o = self.offset(rhs, st)
                if o is not None and len(rv[1]) == 1:
                    st.off[vid] = o
                self.note_fresh_block(rhs, rv, ct, st, line)
            elif isint:
                st.flags.pop(vid, None)
                # prec = PREC (r) of an mpf parameter: its limb block holds prec + 1 limbs (struct invariant; mpf functions never reallocate)
                r_ = rhs
                while isinstance(r_, dict) and r_.get("k") == "cast":
                    r_ = r_["e"]
                prec_of = None
                prec_plus = 0
                if isinstance(r_, dict) and r_.get("k") == "binop" and r_["op"] == "+" and isinstance(r_["r"], dict) and r_["r"].get("k") == "int":
                    prec_plus = r_["r"]["v"]            # prec = PREC (r) + 1, "lie not to lose precision"
                    r_ = r_["l"]
                    while isinstance(r_, dict) and r_.get("k") == "cast":
                        r_ = r_["e"]
                if isinstance(r_, dict) and r_.get("k") == "member" and r_["field"] == "_mp_prec":
                    base_ = self.eval(r_["base"], st) if r_["arrow"] else ("obj", self.objlvalue(r_["base"], st))
                    if base_ and base_[0] == "obj" and base_[1] and len(base_[1]) == 1:
                        reg_ = next(iter(base_[1]))
                        if reg_[0] == "P" and reg_[3] == "mpf":
                            prec_of = reg_
                if rhs is not None:
                    # copy_u = (zeros > 0 || rp == up): when the flag is false every disjunct is false
                    pairs = frozenset()
                    top_ = sa.strip_expect(rhs)
                    while isinstance(top_, dict) and top_.get("k") in ("cast", "paren"):
                        top_ = top_["e"]
                    if isinstance(top_, dict) and top_.get("k") == "cond":
                        zb = top_["b"]
                        while isinstance(zb, dict) and zb.get("k") in ("cast", "paren"):
                            zb = zb["e"]
                        if isinstance(zb, dict) and zb.get("k") == "int" and zb["v"] == 0:
                            top_ = top_["c"]          # n = (p == q ? len : 0): n == 0 unless the pointers are equal (a zero length needs no copy)
                    djs, todo = [], [sa.strip_expect(top_)]
                    while todo:
                        x = todo.pop()
                        while isinstance(x, dict) and x.get("k") == "cast":
                            x = x["e"]
                        if isinstance(x, dict) and x.get("k") == "binop" and x["op"] == "||":
                            todo += [sa.strip_expect(x["l"]), sa.strip_expect(x["r"])]
                        elif isinstance(x, dict):
                            djs.append(x)
                    for dj in djs:
                        pairs = self.refine(dj, False, st, pairs)
                    if pairs:
                        st.flags[vid] = pairs
                t = self.term(rhs, st) if rhs is not None else None
                # the variable's old value may appear in other terms: those keep their meaning because terms name
                # values (symbols), not variables
                st.env[vid] = t if t is not None else T(0, [(("v", vid, line), 1)])
                st.wit.pop(vid, None)
                if t is None and rhs is not None:
                    # v = (c ? a : b)  (MIN / MAX / a clamp written as an expression): the value is one of the arms
                    c_ = rhs
                    while isinstance(c_, dict) and c_.get("k") in ("cast", "paren"):
                        c_ = c_["e"]
                    if isinstance(c_, dict) and c_.get("k") == "cond":
                        arms = [self.term(c_["a"], st), self.term(c_["b"], st)]
                        if all(a_ is not None for a_ in arms):
                            st.wit[vid] = frozenset(arms)
                if prec_of is not None:
                    st.alloc[prec_of] = (tadd(st.env[vid], T(1 - prec_plus)), line)
            return
        if k == "member":
            base = self.eval(lhs["base"], st) if lhs["arrow"] else ("obj", self.objlvalue(lhs["base"], st))
            if base and base[0] == "obj" and base[1]:
                f = lhs["field"]
                if f == "_mp_size":
                    self.write(base[1], "size", st, line)
                    self.check_size_store(base[1], rhs, st, line)
                elif f == "_mp_alloc":
                    t = self.term(rhs, st) if rhs is not None else None
                    for r in base[1]:
                        st.alloc.pop(r, None)
                    if t is not None and len(base[1]) == 1:
                        st.alloc[next(iter(base[1]))] = (t, line)
                elif f == "_mp_d":
                    # a new block is installed; the old one stays allocated until somebody frees it (mpz_mul / mpz_sqrt
                    # keep it in free_me while it is still a source), so nothing goes stale here
                    if rv and rv[0] == "limb" and any(x[0][0] == "T" for x in rv[1]):
                        self.tmp_backed |= set(base[1])
                    if rv and rv[0] == "limb":
                        borrowed = frozenset(x[0] for x in rv[1] if x[0][0] == "P")
                        for r in base[1]:
                            if r[0] == "L":
                                if borrowed:
                                    st.views[r] = st.views.get(r, frozenset()) | borrowed
                                else:
                                    st.views.pop(r, None)
                    # the stored variable keeps naming the new block only: pointers fetched earlier from an object that may be
                    # the same variable still point to the OLD block, which stays allocated (free_me)
            return
        if k == "unop" and lhs["op"] == "*" or k == "index":
            p = lhs["e"] if k == "unop" else lhs["base"]
            v = self.eval(p, st)
            if v and v[0] == "limb":
                self.use_limb(v, st, line, self.argname(p), "stored through")
                self.write({r for (r, f, l, b) in v[1]}, "limbs", st, line)
                self.const_write({r for (r, f, l, b) in v[1]}, st, ne, line, "limbs are stored through %s" % self.argname(p))
                idx = tadd(self.term(lhs["idx"], st), T(1)) if k == "index" else T(1)
                from r_tmp import base_var
                bv = base_var(p)
                if idx is not None and not (bv is not None and bv["id"] in self.summarised):
                    self.check_extent(p, idx, st, line, "the store through %s" % self.argname(p))

    def note_fresh_block(self, rhs, rv, ct, st, line):
        """p = TMP_ALLOC_LIMBS (n) / (*__gmp_allocate_func) (n * sizeof (mp_limb_t)): the block holds exactly n limbs"""
        if len(rv[1]) != 1 or "unsigned long *" not in ct or ct.count("*") != 1:
            return
        (r, fresh, l0, bs) = next(iter(rv[1]))
        if r[0] not in ("T", "H") or not bs:
            return
        e = rhs
        while isinstance(e, dict) and e.get("k") == "cast":
            e = e["e"]
        calls = []
        if isinstance(e, dict) and e.get("k") == "cond":
            calls = [e["a"], e["b"]]
        else:
            calls = [e]
        sizes = set()
        for c in calls:
            while isinstance(c, dict) and c.get("k") == "cast":
                c = c["e"]
            if not isinstance(c, dict) or c.get("k") != "call":
                return
            cal = c.get("callee")
            if cal == "__builtin_alloca":
                a = c["args"][0]
            elif cal in TMP_ALLOC:
                a = c["args"][-1]
            elif cal is None and self.is_allocator_call(c) == "alloc":
                a = c["args"][0]
            else:
                return
            t = self.term(a, st)
            if t is None or t[0] % 8 or any(k % 8 for _, k in t[1]):
                return
            sizes.add((t[0] // 8, frozenset((s_, k // 8) for s_, k in t[1])))
        if len(sizes) == 1:
            st.alloc[r] = (next(iter(sizes)), line)
            self.stats.bump("fresh_blocks_sized", line)

    INLINE_FILLS = {"mpn_store": "incr0", "MPN_COPY_INCR": "incr1", "MPN_COPY_DECR": "decr1"}

    def fresh_block_params(self):
        """object parameters whose limb block this function itself installs (x->_mp_d = allocate (..), the init functions): that block is
        nobody else's"""
        if getattr(self, "_fresh_params", None) is None:
            out = set()
            pid = {p["id"]: i for i, p in enumerate(self.params)}
            for b in self.fn["blocks"]:
                for el in b["elems"]:
                    def f(n):
                        if n.get("k") == "binop" and n["op"] == "=" and n["l"].get("k") == "member" and n["l"]["field"] == "_mp_d":
                            r = n["r"]
                            while isinstance(r, dict) and r.get("k") in ("cast", "paren"):
                                r = r["e"]
                            b_ = n["l"].get("base")
                            while isinstance(b_, dict) and b_.get("k") in ("cast", "paren", "member", "unop"):
                                b_ = b_.get("base") if b_.get("k") == "member" else b_.get("e")
                            if isinstance(r, dict) and r.get("k") == "call" and isinstance(b_, dict) and b_.get("k") == "var" and b_["id"] in pid:
                                out.add(pid[b_["id"]])
                    sa.walk(el["e"], f)
            self._fresh_params = out
        return self._fresh_params

    def copy_direction(self, mac, dst_e, src_e, st, ne, line, strict=False, nterm=None):
        """R-OVERLAP (direction): MPN_COPY_DECR walks from the top limb down, so it is only right when the destination is not below
        the source inside one block; MPN_COPY_INCR the other way round.  A base pointer (PTR (x), nothing added) is the lowest address
        of its block: copying DOWN to a base pointer from a pointer that was advanced inside a block that may be the same one must
        be an INCR copy (and vice versa)."""
        d, s_ = self.eval(dst_e, st), self.eval(src_e, st)
        if not d or not s_ or d[0] != "limb" or s_[0] != "limb":
            return
        want_decr = mac in ("MPN_COPY_DECR", "__gmpn_copyd")
        self.stats.bump("copy_direction_obligations", (line, mac))
        od, os_ = self.offset(dst_e, st), self.offset(src_e, st)
        for (rd, fd, ld, bd) in d[1]:
            for (rs, fs, ls, bs) in s_[1]:
                if rd[0] not in ("P", "L") or rs[0] not in ("P", "L"):
                    continue
                if rd != rs and not self.may_alias(rd, rs, ne):
                    continue
                delta = tconst(tadd(od, os_, -1)) if od is not None and os_ is not None and rd == rs else None
                if nterm is not None and od is not None and os_ is not None:          # (if rd and rs are one variable their bases coincide)
                    # both ranges lie in one block at known offsets: they are disjoint when the distance is at least the length
                    # (moving the upper half of a block onto its lower half is a separate copy, whatever the direction)
                    gap_up, gap_dn = tconst(tadd(tadd(os_, od, -1), nterm, -1)), tconst(tadd(tadd(od, os_, -1), nterm, -1))
                    if (gap_up is not None and gap_up >= 0) or (gap_dn is not None and gap_dn >= 0):
                        continue
                bad = None
                if want_decr and ((bd and not bs) or (delta is not None and delta < 0)):
                    bad = "below"
                if not want_decr and ((bs and not bd) or (delta is not None and delta > 0)):
                    bad = "above"
                if strict and not bad and ((bd and not bs) or (delta is not None and delta < 0)) and not (self.fresh_block_params() & {rd[1], rs[1]}):
                    # MPN_COPY asserts MPN_SAME_OR_SEPARATE_P itself before it expands to the incrementing copy: a partial overlap in the
                    # harmless direction still aborts the --enable-assert build
                    if self.fine and ("R-OVERLAP", self.fn["name"], "MPN_COPY") not in self.exceptions:
                        self.rep("R-OVERLAP", line, "copy-asserts-separate:MPN_COPY",
                                 "MPN_COPY at line %d copies inside what may be one block (%s and %s may be the same variable) with the destination "
                                 "below the source: the copy itself is right, but MPN_COPY asserts MPN_SAME_OR_SEPARATE_P, so the in-place call "
                                 "aborts in an --enable-assert build (MPN_COPY_INCR is the macro for this overlap)"
                                 % (line, self.rname(rd), self.rname(rs)))
                    else:
                        self.stats.bump("overlap_undecided", (line, mac))
                    return
                if bad:
                    if not self.fine:
                        self.stats.bump("overlap_undecided", (line, mac))
                        return
                    if ("R-OVERLAP", self.fn["name"], mac) in self.exceptions:
                        self.stats["reviewed_exceptions"] += 1
                        return
                    self.rep("R-OVERLAP", line, "copy-direction:%s" % mac,
                             "%s at line %d copies inside what may be one block (%s and %s may be the same variable) with the destination %s "
                             "the source: the %s copy overwrites source limbs before it has read them"
                             % (mac, line, self.rname(rd), self.rname(rs), bad, "decrementing" if want_decr else "incrementing"))
                    return

    def inline_fill(self, el, st, ne=frozenset()):
        """the inline forms of MPN_ZERO / MPN_COPY_INCR / MPN_COPY_DECR declare  __dst  and  __n  and then walk __dst through the
        block: one extent obligation for the whole fill (the per-limb stores through __dst carry no offset)"""
        mac = next((m for m in el.get("m", []) if m in self.INLINE_FILLS), None)
        e = el["e"]
        if mac is None or e.get("k") != "decl":
            return
        slot = self._fills.setdefault((el["line"], mac, id(st)), {})
        for d in e["decls"]:
            nm = d["var"].get("name")
            if nm == "__dst" and "init" in d:
                slot["dst"] = d["init"]
                self.summarised.add(d["var"]["id"])
            elif nm == "__n" and "init" in d:
                slot["n"] = self.term(d["init"], st)
                slot["nvar"] = d["var"]["id"]
            elif nm == "__src" and "init" in d:
                slot["src"] = d["init"]
        if "dst" in slot and "src" in slot and not slot.get("dirdone") and mac in ("MPN_COPY_INCR", "MPN_COPY_DECR"):
            slot["dirdone"] = True
            dst_e, src_e = slot["dst"], slot["src"]
            if mac == "MPN_COPY_DECR":
                # __dst = (dst) + __n, __src = (src) + __n: compare the operands themselves
                def strip_n(x):
                    while isinstance(x, dict) and x.get("k") == "cast":
                        x = x["e"]
                    if isinstance(x, dict) and x.get("k") == "binop" and x["op"] == "+" and x["r"].get("k") == "var" and x["r"].get("name") == "__n":
                        return x["l"]
                    return None
                dst_e, src_e = strip_n(dst_e), strip_n(src_e)
            if dst_e is not None and src_e is not None:
                nt = slot.get("n")
                if nt is not None:
                    nt = tadd(nt, T(1))                  # __n = (n) - 1 in both forms
                self.copy_direction(mac, dst_e, src_e, st, ne, el["line"], strict="MPN_COPY" in el.get("m", []), nterm=nt)
        if "dst" in slot and "n" in slot and not slot.get("done"):
            slot["done"] = True
            kind = self.INLINE_FILLS[mac]
            n = slot["n"]
            if n is None:
                return
            if kind == "incr0":
                self.check_extent(slot["dst"], n, st, el["line"], "the fill by %s" % mac)
            elif kind == "incr1":
                self.check_extent(slot["dst"], tadd(n, T(1)), st, el["line"], "the copy by %s" % mac)
            else:
                # __dst = (dst) + __n: the highest limb written is at the initial __dst
                self.check_extent(slot["dst"], T(1), st, el["line"], "the copy by %s" % mac)

    def elem(self, el, st, ne):
        e = el["e"]
        line = el["line"]
        if el.get("m"):
            self.inline_fill(el, st, ne)
        if e.get("k") == "call":
            self.do_call(e, st, ne, line)
            return

        def f(n):
            if n is not e and n.get("k") == "call":
                return False
            k = n.get("k")
            if k == "binop" and n["op"] == "=":
                self.scan_reads(n["r"], st, ne, line)
                if n["l"].get("k") != "var":
                    # address computation of the lvalue reads its sub-expressions
                    inner = n["l"].get("base") or n["l"].get("e")
                    if inner:
                        self.scan_reads(inner, st, ne, line) if n["l"].get("k") == "member" and inner.get("k") not in ("var",) else None
                self.assign(n["l"], n["r"], st, ne, line)
                return False
            if k == "binop" and n["op"].endswith("=") and n["op"] not in ("==", "!=", "<=", ">="):
                self.scan_reads(n["r"], st, ne, line)
                self.scan_reads(n["l"], st, ne, line)
                lv = n["l"]
                if n["op"] in ("+=", "-=") and lv.get("k") == "var" and lv["id"] not in st.limb and "*" not in lv.get("ct", ""):
                    t = tadd(st.env.get(lv["id"], T(0, [(("v", lv["id"], 0), 1)])), self.term(n["r"], st), 1 if n["op"] == "+=" else -1)
                    st.env[lv["id"]] = t if t is not None else T(0, [(("v", lv["id"], line), 1)])
                    st.wit.pop(lv["id"], None)
                elif n["op"] in ("+=", "-=") and lv.get("k") == "var" and lv["id"] in st.limb and lv["id"] in st.off:
                    o = tadd(st.off[lv["id"]], self.term(n["r"], st), 1 if n["op"] == "+=" else -1)
                    self.assign(lv, None, st, ne, line, compound=True)
                    if o is not None:
                        st.off[lv["id"]] = o
                else:
                    self.assign(lv, None, st, ne, line, compound=True)
                return False
            if k == "decl":
                for d in n["decls"]:
                    if "init" in d:
                        self.scan_reads(d["init"], st, ne, line)
                        self.assign(d["var"], d["init"], st, ne, line)
                return False
            if k == "return":
                if n.get("e"):
                    self.scan_reads(n["e"], st, ne, line)
                return False
            if k == "unop" and n["op"] in ("post++", "post--", "pre++", "pre--") and n["e"].get("k") == "var":
                vid = n["e"]["id"]
                d = 1 if "++" in n["op"] else -1
                if vid in st.limb:
                    st.limb[vid] = frozenset((r, f, l, False) for (r, f, l, b) in st.limb[vid])
                    if vid in st.off:
                        st.off[vid] = tadd(st.off[vid], T(d))
                elif "*" not in n["e"].get("ct", ""):
                    st.env[vid] = tadd(st.env.get(vid, T(0, [(("v", vid, 0), 1)])), T(d))
                    if st.wit.get(vid):
                        st.wit[vid] = frozenset(tadd(t_, T(d)) for t_ in st.wit[vid])
        before = len(self.seen_reports)
        sa.walk(e, f)
        if e.get("k") not in ("binop", "decl", "return") or (e.get("k") == "binop" and not e["op"].endswith("=") or e.get("op") in ("==", "!=", "<=", ">=")):
            self.scan_reads(e, st, ne, line)

    # ---- branch refinement ----------------------------------------------------------------------
    def refine(self, cond, truth, st, ne):
        c = sa.strip_expect(cond)
        neg = False
        while isinstance(c, dict) and c.get("k") == "unop" and c["op"] == "!":
            c = sa.strip_expect(c["e"])
            neg = not neg
        if isinstance(c, dict) and c.get("k") == "var" and c["id"] in st.flags and (truth != neg) is False:
            return ne | st.flags[c["id"]]
        # flag != 0 / flag == 0, and sums of such flags (dcopy + ncopy != 0): on the edge where the value is zero every flag is zero
        if isinstance(c, dict) and c.get("k") == "binop" and c["op"] in ("==", "!="):
            for a_, b_ in ((c["l"], c["r"]), (c["r"], c["l"])):
                while isinstance(b_, dict) and b_.get("k") == "cast":
                    b_ = b_["e"]
                if isinstance(b_, dict) and b_.get("k") == "int" and b_["v"] == 0:
                    fl = self.flag_vars(a_, st)
                    if fl:
                        zero_edge = (c["op"] == "==") == (truth != neg)
                        if zero_edge:
                            out = ne
                            for v_ in fl:
                                out = out | st.flags[v_]
                            return out
                        return ne
        if isinstance(c, dict) and c.get("k") == "binop" and c["op"] in ("<", ">", "<=", ">="):
            # ALLOC(z) < n  /  n > ALLOC(z): on the edge where the allocation suffices it is known to be >= n
            t = truth != neg
            for a_, b_, op in ((c["l"], c["r"], c["op"]), (c["r"], c["l"], {"<": ">", ">": "<", "<=": ">=", ">=": "<="}[c["op"]])):
                while isinstance(a_, dict) and a_.get("k") == "cast":
                    a_ = a_["e"]
                if isinstance(a_, dict) and a_.get("k") == "member" and a_["field"] == "_mp_alloc":
                    base = self.eval(a_["base"], st) if a_["arrow"] else ("obj", self.objlvalue(a_["base"], st))
                    n_ = self.term(b_, st)
                    if base and base[0] == "obj" and base[1] and len(base[1]) == 1 and n_ is not None:
                        r = next(iter(base[1]))
                        if (op == "<" and not t) or (op == ">=" and t):          # alloc >= n
                            st.alloc[r] = (n_, c.get("line", 0) or 0)
                        elif (op == "<=" and not t) or (op == ">" and t):        # alloc >= n + 1
                            st.alloc[r] = (tadd(n_, T(1)), 0)
            return ne
        if not isinstance(c, dict) or c.get("k") != "binop" or c["op"] not in ("==", "!="):
            return ne
        a, b = self.eval(c["l"], st), self.eval(c["r"], st)
        if not a or not b or a[0] != b[0]:
            return ne
        equal = (c["op"] == "==") == (truth != neg)
        if a[0] == "obj" and len(a[1]) == 1 and len(b[1]) == 1:
            ra, rb = next(iter(a[1])), next(iter(b[1]))
        elif a[0] == "limb" and len(a[1]) == 1 and len(b[1]) == 1:
            (ra, fa, _, ba), (rb, fb, _, bb) = next(iter(a[1])), next(iter(b[1]))
            # only base pointers freshly loaded from the objects identify the objects
            if not (fa and fb and ba and bb):
                return ne
        else:
            return ne
        if ra[0] == "P" and rb[0] == "P" and ra[1] != rb[1]:
            if equal:
                return ne | {("eq", min(ra[1], rb[1]), max(ra[1], rb[1]))}      # R-CONSTSRC: this path exists only for the same variable
            return ne | {frozenset((ra[1], rb[1]))}
        return ne

    def flag_vars(self, e, st):
        """the flag variables whose sum / disjunction e is (all non-negative, so e == 0 means each is 0), or None"""
        while isinstance(e, dict) and e.get("k") in ("cast", "paren"):
            e = e["e"]
        if isinstance(e, dict) and e.get("k") == "var":
            return [e["id"]] if e["id"] in st.flags else None
        if isinstance(e, dict) and e.get("k") == "binop" and e["op"] in ("+", "|", "||"):
            l, r = self.flag_vars(e["l"], st), self.flag_vars(e["r"], st)
            return l + r if l and r else None
        return None

    def int_cond(self, cond, st):
        """truth of a relational condition between two integer terms whose difference is a constant, else None"""
        c = sa.strip_expect(cond)
        neg = False
        while isinstance(c, dict) and c.get("k") == "unop" and c["op"] == "!":
            c = sa.strip_expect(c["e"])
            neg = not neg
        while isinstance(c, dict) and c.get("k") == "cast":
            c = c["e"]
        if not isinstance(c, dict) or c.get("k") != "binop" or c["op"] not in ("<", ">", "<=", ">=", "==", "!="):
            return None
        for side in (c["l"], c["r"]):
            x = side
            while isinstance(x, dict) and x.get("k") == "cast":
                x = x["e"]
            if isinstance(x, dict) and ("*" in x.get("ct", x.get("t", "")) or x.get("k") in ("member", "call", "index")):
                return None
        d = tconst(tadd(self.term(c["l"], st), self.term(c["r"], st), -1))
        if d is None:
            return None
        v = {"<": d < 0, ">": d > 0, "<=": d <= 0, ">=": d >= 0, "==": d == 0, "!=": d != 0}[c["op"]]
        return v != neg

    def objkey(self, st):
        """which region each object-pointer PARAMETER variable denotes (they get redirected to copies: divisor = temp) and,
        at the finer level, which blocks each limb-pointer variable may name (mpz_mul's `up` is u's block on one path
        and a TMP copy on another: joining them would pair the wrong pointers)"""
        k = frozenset((vid, v) for vid, v in st.obj.items() if vid in self.pinfo)
        if self.fine:
            # local object pointers too (absw = negative ? z : w): joining the two bindings would pair `absw may be w` from one path with
            # `z was written` from the other
            k = frozenset((vid, v) for vid, v in st.obj.items() if vid in self.pinfo or any(r[0] == "P" for r in v))
            k = (k, frozenset((vid, frozenset(r for (r, f, l, b) in vals)) for vid, vals in st.limb.items()
                              if any(r[0] == "P" for (r, f, l, b) in vals) or any(r[0] in ("T", "H") for (r, f, l, b) in vals)))
        return k

    def is_base_ptr(self, e, st):
        """e is a variable (or PTR(x)) with no arithmetic applied"""
        while e.get("k") == "cast":
            e = e["e"]
        if e.get("k") == "member" and e["field"] == "_mp_d":
            return True
        if e.get("k") == "var":
            return e["id"] not in self.offset_vars
        return False

    # ---- fixpoint -------------------------------------------------------------------------------
    def run(self):
        for fine in (True, False):
            self.fine = fine
            self.stats = _Dedup()
            try:
                r = self.run_once()
                for k, v in self.stats.items():
                    if k == "partitions_max":
                        self.shared_stats[k] = max(self.shared_stats.get(k, 0), v)
                    else:
                        self.shared_stats[k] += v
                return r
            except OverflowError:
                self.shared_stats["partition_fallbacks"] += 1
                self.seen_reports.clear()
                self.reset_reports()
        raise AnalysisBroken("aliasflow: partition budget exceeded in %s" % self.fn["name"])

    def run_once(self):
        fn = self.fn
        # variables that ever receive pointer arithmetic are not base pointers
        self.offset_vars = set()
        for b in fn["blocks"]:
            for el in b["elems"]:
                def g(n):
                    if n.get("k") == "binop" and n["op"] in ("+=", "-=") and n["l"].get("k") == "var":
                        self.offset_vars.add(n["l"]["id"])
                    if n.get("k") == "unop" and n["op"] in ("post++", "post--", "pre++", "pre--") and n["e"].get("k") == "var":
                        self.offset_vars.add(n["e"]["id"])
                    if n.get("k") == "binop" and n["op"] == "=" and n["l"].get("k") == "var" and n["r"].get("k") == "binop" \
                            and n["r"]["op"] in ("+", "-"):
                        self.offset_vars.add(n["l"]["id"])
                    if n.get("k") == "decl":
                        for d in n["decls"]:
                            if d.get("init", {}).get("k") == "binop" and d["init"]["op"] in ("+", "-"):
                                self.offset_vars.add(d["var"]["id"])
                sa.walk(el["e"], g)
        init = initial_state(self)
        IN = collections.defaultdict(dict)      # block -> {(ne facts, object-pointer bindings): State}
        IN[fn["entry"]][(frozenset(), self.objkey(init))] = init
        work = {fn["entry"]}
        iters = 0
        while work:
            iters += 1
            if iters > (2500 if self.fine else 12000):
                if self.fine:
                    raise OverflowError()
                raise AnalysisBroken("aliasflow: fixpoint budget exceeded in %s" % fn["name"])
            bid = max(work)
            work.discard(bid)
            self.cur_block = bid
            b = self.blocks[bid]
            outs = []
            for (ne, _ok), st0 in list(IN[bid].items()):
                st = st0.copy()
                for el in b["elems"]:
                    self.elem(el, st, ne)
                outs.append((ne, st))
            if b.get("noreturn"):
                continue
            t = b.get("term")
            cond = sa.effective_cond(t) if t and len(b["succs"]) == 2 else None
            for si, s in enumerate(b["succs"]):
                if not isinstance(s, int) or s == fn["exit"]:
                    continue
                for ne, st in outs:
                    if cond:
                        tv = self.int_cond(cond, st)
                        if tv is not None and tv != (si == 0):
                            continue            # the edge contradicts exact integer terms (loop `j < n` with j = 2, n = 1)
                        st = st.copy()          # refinement is per edge
                        if st.wit:
                            for k_, ws in list(st.wit.items()):
                                if not ws:
                                    continue
                                keep = set()
                                saved = st.env.get(k_)
                                for t_ in ws:
                                    st.env[k_] = t_
                                    tv2 = self.int_cond(cond, st)
                                    if tv2 is None or tv2 == (si == 0):
                                        keep.add(t_)
                                if saved is None:
                                    st.env.pop(k_, None)
                                else:
                                    st.env[k_] = saved
                                if len(keep) != len(ws):
                                    st.wit[k_] = frozenset(keep)
                        ne2 = self.refine(cond, si == 0, st, ne)
                    else:
                        ne2 = ne
                    key = (ne2, self.objkey(st))
                    cur = IN[s].get(key)
                    if cur is None:
                        if len(IN[s]) > (64 if self.fine else 256):
                            if self.fine:
                                raise OverflowError()
                            raise AnalysisBroken("aliasflow: more than 256 alias partitions in %s" % fn["name"])
                        IN[s][key] = st.copy()
                        work.add(s)
                    elif cur.join(st, s):
                        work.add(s)
        self.stats["partitions_max"] = max((len(v) for v in IN.values()), default=0)


def initial_state(an):
    st = State()
    for pid, (i, kind, const) in an.pinfo.items():
        st.obj[pid] = frozenset([("P", i, "", kind)])
    return st


def static_noalias_pairs(fn, unit_fns, prop, stats):
    """For a static helper: parameter pairs that no call site in the unit can bind to the same variable."""
    if not fn.get("static"):
        return set()
    sites = []
    for g in unit_fns:
        for b in g["blocks"]:
            for el in b["elems"]:
                e = el["e"]
                if e.get("k") == "call" and e.get("callee") == fn["name"] and g is not fn:
                    sites.append((g, e))
    if not sites:
        return set()
    objidx = [i for i, p in enumerate(fn["params"]) if objkind(p.get("ct", "")) and objkind(p["ct"])[2]]
    pairs = {frozenset((i, j)) for i in objidx for j in objidx if i < j}
    for g, e in sites:
        ca = Analysis(g, prop, lambda f: None, collections.Counter())
        st = initial_state(ca)
        vals = [ca.eval(a, st) for a in e["args"]]
        for pr in list(pairs):
            i, j = sorted(pr)
            if i >= len(vals) or j >= len(vals) or not vals[i] or not vals[j] or vals[i][0] != "obj" or vals[j][0] != "obj":
                pairs.discard(pr)
                continue
            if any(ca.may_alias(ra, rb, frozenset()) for ra in vals[i][1] for rb in vals[j][1]):
                pairs.discard(pr)
    return pairs


def overlap_contracts():
    """{callee: [(i, j, kind, text)]} from the callees' own ASSERT (! MPN_OVERLAP_P ...) / MPN_SAME_OR_SEPARATE_P entry assertions,
    extracted from the -DWANT_ASSERT=1 export of every built unit plus every mpn/generic/*.c (the C twins of assembly kernels)"""
    import compdb, r_assert
    cfg = sa.cfg_assert()
    cfg.name = "assert-generic-all"
    cfg.extra_files = compdb.generic_all_extra()
    ex = sa.export(cfg)
    out = collections.defaultdict(set)
    for path, fn in ex.functions():
        pidx = {p["id"]: i for i, p in enumerate(fn["params"]) if "*" in p.get("ct", "")}
        if len(pidx) < 2:
            continue
        for b, t in r_assert.assert_sites(fn):
            txt = t.get("txt", "")
            if not txt.lstrip().startswith("ASSERT"):
                continue                     # an assertion inside another macro's expansion is about that macro's locals
            if "MPN_SAME_OR_SEPARATE" in txt:
                kind = "same-or-separate"
            elif "MPN_SAME_OR_INCR" in txt or "MPN_SAME_OR_DECR" in txt:
                kind = "ordered"
            elif "MPN_OVERLAP_P" in txt and "!" in txt.split("MPN_OVERLAP_P")[0]:
                kind = "no-overlap"
            else:
                continue
            ids = []
            sa.walk(t["cond"], lambda n: ids.append(n["id"]) if n.get("k") == "var" and n["id"] in pidx and n["id"] not in ids else None)
            if len(ids) == 2:
                i, j = sorted(pidx[x] for x in ids)
                out[fn["name"]].add((i, j, kind, t.get("txt", "")[:70]))
    return {k: sorted(v) for k, v in out.items()}


def run_rules(prop, only_dirs=("mpz", "mpq", "mpf"), rules=("R-STALE", "R-CLOBBER"), extra_files=()):
    res = dict(findings=[], stats=collections.Counter(), samples=[], notes=[])
    ex = sa.export(sa.cfg_builtfx())
    sa.check_errors(ex)
    md = set()
    try:
        for cols in spec_tsv("must_differ.tsv", 4):
            md.add((cols[0], frozenset((cols[1], cols[2]))))
    except FileNotFoundError:
        pass
    exc = set()
    for cols in spec_tsv("alias_exceptions.tsv", 4):
        exc.add((cols[0], cols[1], cols[2]))
    contracts = overlap_contracts() if "R-OVERLAP" in rules else {}
    res["stats"]["overlap_contracts"] = sum(len(v) for v in contracts.values())
    if "R-OVERLAP" in rules and res["stats"]["overlap_contracts"] < 60:
        raise AnalysisBroken("R-OVERLAP: only %d overlap assertions extracted from the callees (floor 60)" % res["stats"]["overlap_contracts"])
    for path, unit in ex.units():
        if not (any(("/%s/" % d) in path for d in only_dirs) or path in extra_files):
            continue
        for fn in unit["functions"]:
            if not any(objkind(p.get("ct", "")) for p in fn["params"]):
                continue
            found = []
            a = Analysis(fn, prop, found.append, res["stats"], must_differ={pair for (f, pair) in md if f == fn["name"]})
            if not any(not v[2] for v in a.pinfo.values()):
                continue                    # no output operand: nothing can be clobbered or reallocated
            a.reset_reports = lambda found=found: found.clear()
            a.exceptions = exc
            a.overlap = contracts
            a.static_noalias = static_noalias_pairs(fn, unit["functions"], prop, res["stats"])
            res["stats"]["functions"] += 1
            a.run()
            res["findings"] += [f for f in found if f.rule in rules]
    res["stats"] = dict(res["stats"])
    return res


def _unused():
    for _ in ():
        res["findings"] += [f for f in found if f.rule in rules]
    res["stats"] = dict(res["stats"])
    return res
