"""R-FATTAB (C14): the four hand-maintained lists behind the fat-binary dispatcher agree.

  struct cpuvec_t (gmp-impl.h)              field order = memory layout of the dispatch vector
  __gmpn_cpuvec initialiser (fat.c)         positional: entry k must be <field k>_init
  CPUVEC_FUNCS_LIST (x86_64-defs.m4)        fat_entry.asm computes the offset of each pointer from its position here
  fat_functions / fat_thresholds (configure.ac)   generate CPUVEC_INSTALL / ASSERT_CPUVEC and the per-CPU setups

Two same-typed entries swapped in one list compile without a diagnostic and send every call of one routine to
another.  None of this is compiled by the pinned build.  The lists live in four languages (C, C initialiser, m4,
shell), so they are extracted with anchored patterns; the rule only compares the lists with each other, never with a
frozen copy, so consistent edits pass.

Second clause (also registered under C15): the lazy initialisation of the vector publishes `initialized` only after every other
field has been stored (init_protocol below)."""
import collections, re

from core import *


def run(prop="C14", tier="quick"):
    res = dict(findings=[], stats=collections.Counter(), samples=[], notes=[])
    F = res["findings"]

    def read(rel):
        p = os.path.join(REPO, rel)
        p = OVERLAY.get(p, p)
        try:
            return open(p, errors="replace").read()
        except OSError as e:
            raise AnalysisBroken("R-FATTAB: cannot read %s: %s" % (rel, e))
    gi = read("gmp-impl.h")
    m = re.search(r"struct\s+cpuvec_t\s*\{(.*?)\n\};", gi, re.S)
    if not m:
        raise AnalysisBroken("R-FATTAB: struct cpuvec_t not found in gmp-impl.h")
    body = m.group(1)
    fields = re.findall(r"DECL_(\w+)\s*\(\s*\(\s*\*\s*(\w+)\s*\)\s*\)\s*;", body)
    after = body[body.index("initialized"):] if "initialized" in body else ""
    thr_fields = re.findall(r"mp_size_t\s+(\w+)\s*;", after)
    fc = read("mpn/x86_64/fat/fat.c")
    m = re.search(r"struct\s+cpuvec_t\s+__gmpn_cpuvec\s*=\s*\{(.*?)\};", fc, re.S)
    if not m:
        raise AnalysisBroken("R-FATTAB: initialiser of __gmpn_cpuvec not found in fat.c")
    inits = re.findall(r"__MPN\s*\(\s*(\w+?)_init\s*\)", m.group(1))
    m4 = read("mpn/x86_64/x86_64-defs.m4")
    m = re.search(r"define\(CPUVEC_FUNCS_LIST,\s*(.*?)\)\s*\n", m4, re.S)
    if not m:
        raise AnalysisBroken("R-FATTAB: CPUVEC_FUNCS_LIST not found in x86_64-defs.m4")
    m4list = re.findall(r"`(\w+)'", m.group(1))
    ca = read("configure.ac")
    m = re.search(r'fat_functions="(.*?)"', ca, re.S)
    m2 = re.search(r'fat_thresholds="(.*?)"', ca, re.S)
    if not m or not m2:
        raise AnalysisBroken("R-FATTAB: fat_functions / fat_thresholds not found in configure.ac")
    cfuncs, cthr = m.group(1).split(), [t.lower() for t in m2.group(1).split()]
    names = [f for _, f in fields]
    if len(names) < 25 or len(inits) < 25 or len(m4list) < 25:
        raise AnalysisBroken("R-FATTAB: lists too short (struct %d, fat.c %d, m4 %d): anchors moved" % (len(names), len(inits), len(m4list)))
    res["stats"]["struct_fields"] = len(names)
    for (decl, f) in fields:
        res["stats"]["comparisons"] += 1
        if decl != f:
            F.append(Finding(prop, "R-FATTAB", os.path.join(REPO, "gmp-impl.h"), 0, "struct cpuvec_t", "decl-mismatch:%s" % f,
                             "field %s of struct cpuvec_t is declared with the prototype macro DECL_%s" % (f, decl)))
    for what, lst, file in (("the __gmpn_cpuvec initialiser in fat.c", inits, "mpn/x86_64/fat/fat.c"),
                            ("CPUVEC_FUNCS_LIST in x86_64-defs.m4 (offsets used by fat_entry.asm)", m4list, "mpn/x86_64/x86_64-defs.m4")):
        for k in range(max(len(names), len(lst))):
            res["stats"]["comparisons"] += 1
            a = names[k] if k < len(names) else None
            b = lst[k] if k < len(lst) else None
            if a != b:
                F.append(Finding(prop, "R-FATTAB", os.path.join(REPO, file), 0, "cpuvec", "order:%s:%d" % (os.path.basename(file), k),
                                 "position %d of struct cpuvec_t is %s but %s has %s there: calls to one routine are dispatched through "
                                 "another's slot" % (k, a, what, b)))
                break
    res["stats"]["comparisons"] += 2
    if set(cfuncs) != set(names):
        F.append(Finding(prop, "R-FATTAB", os.path.join(REPO, "configure.ac"), 0, "fat_functions", "set:fat_functions",
                         "configure.ac fat_functions and struct cpuvec_t differ: only in configure.ac %s, only in the struct %s "
                         "(CPUVEC_INSTALL / ASSERT_CPUVEC are generated from fat_functions)"
                         % (sorted(set(cfuncs) - set(names)), sorted(set(names) - set(cfuncs)))))
    if cthr != thr_fields:
        F.append(Finding(prop, "R-FATTAB", os.path.join(REPO, "configure.ac"), 0, "fat_thresholds", "set:fat_thresholds",
                         "configure.ac fat_thresholds %s and the threshold fields of struct cpuvec_t %s differ" % (cthr, thr_fields)))
    # ---- per-CPU setups: the fat dispatcher may only install kernels from directories that configure selects for that
    # CPU in a non-fat build (those are the directories whose instruction-set extensions the CPU has)
    paths = {}
    lines = ca.split("\n")
    for i, ln in enumerate(lines):
        mm = re.match(r"^\s*(\w+)-\*-\*\)\s*$", ln)
        if mm and i + 1 < len(lines):
            pm = re.search(r'path_64="([^"]*)"', lines[i + 1])
            if pm and "x86_64w" not in pm.group(1) and "x86_64" in pm.group(1):
                paths[mm.group(1)] = set(pm.group(1).split())
    setups = re.findall(r"#define\s+CPUSETUP_(\w+)[ \t]+([^\n]*)", fc)
    if len(setups) < 15 or len(paths) < 15:
        raise AnalysisBroken("R-FATTAB: only %d CPUSETUP_ lines / %d configure paths found" % (len(setups), len(paths)))
    for cpu, chain in setups:
        dirs = ["x86_64/" + d.replace("_", "/") for d in re.findall(r"CPUVEC_SETUP_(\w+)", chain)]
        # k8_k8only style names: the directory separators are the underscores between known directory names
        dirs = [d.replace("x86_64/k8/k10/k102", "x86_64/k8/k10/k102") for d in dirs]
        if cpu not in paths:
            res["stats"]["cpus_without_configure_path"] += 1
            continue
        for d in dirs:
            res["stats"]["comparisons"] += 1
            if d not in paths[cpu]:
                F.append(Finding(prop, "R-FATTAB", os.path.join(REPO, "mpn/x86_64/fat/fat.c"), 0, "CPUSETUP_" + cpu, "cpu-path:%s:%s" % (cpu, d),
                                 "the fat dispatcher installs kernels from mpn/%s on a %s CPU, but configure.ac does not select that directory "
                                 "for %s (path %s): those kernels may use instructions the CPU lacks" % (d, cpu, cpu, " ".join(sorted(paths[cpu])))))
    init_protocol(prop, res, cfuncs, [t.upper() for t in cthr], fc)
    trampoline(prop, res, read("mpn/x86_64/fat/fat_entry.asm"))
    res["samples"].append(dict(rule="R-FATTAB", cpus=len(setups), example=dict(cpu=setups[0][0], chain=setups[0][1].strip())))
    res["samples"].append(dict(rule="R-FATTAB", fields=names[:6] + ["..."], n=len(names), thresholds=thr_fields))
    res["stats"] = dict(res["stats"])
    res["obligations"] = res["stats"]["comparisons"]
    res["exhaustive"] = True
    return res


def init_protocol(prop, res, fat_functions, fat_thresholds, fat_c_text):
    """The dispatch vector is filled lazily by whichever thread first needs it; every reader trusts `initialized`
    (CPUVEC_THRESHOLD in gmp-impl.h).  So in __gmpn_cpuvec_init every store to another field of __gmpn_cpuvec must dominate the
    store that sets `initialized` (publish after fill) - the fat build's thread-safety argument stated in fat.c's own comment.
    fat.c is not part of the pinned build and needs the configure-generated fat.h: a minimal one is synthesised from the same
    fat_functions / fat_thresholds lists (empty per-directory setups), which is enough to type-check the function."""
    import sa, r_divzero
    d = os.path.join(scratch(), "fat-h")
    os.makedirs(d, exist_ok=True)
    L = ["/* synthesised by R-FATTAB from configure.ac's fat_functions / fat_thresholds */"]
    for f in fat_functions:
        L.append("#ifndef OPERATION_%s\n#undef mpn_%s\n#define mpn_%s (*__gmpn_cpuvec.%s)\n#endif\nDECL_%s (__MPN(%s_init));" % (f, f, f, f, f, f))
    for t in fat_thresholds:
        L.append("#undef %s\n#define %s CPUVEC_THRESHOLD (%s)" % (t, t, t.lower()))
    L.append("#define CPUVEC_INSTALL(vec) do { volatile struct cpuvec_t *p = &__gmpn_cpuvec; \\")
    for f in fat_functions:
        L.append("    p->%s = vec.%s; \\" % (f, f))
    for t in fat_thresholds:
        L.append("    p->%s = vec.%s; \\" % (t.lower(), t.lower()))
    L.append("  } while (0)")
    L.append("#define ASSERT_CPUVEC(vec) do { } while (0)")
    for nm in sorted(set(re.findall(r"CPUVEC_SETUP_\w+", fat_c_text))):
        L.append("#define %s do { } while (0)" % nm)
    open(os.path.join(d, "fat.h"), "w").write("\n".join(L) + "\n")
    src = os.path.join(REPO, "mpn/x86_64/fat/fat.c")
    cfg = sa.Config("fat-init", flags=["-DWANT_FAT_BINARY=1", "-I" + d, "-I" + os.path.join(REPO, "mpn/x86_64/fat")], units=[], extra_files=[src])
    ex = sa.export(cfg)
    u = ex.load(src)
    if u.get("errors"):
        raise AnalysisBroken("R-FATTAB: fat.c does not type-check against the synthesised fat.h (%d errors)" % u["errors"])
    fns = [f for f in u["functions"] if f["name"] == "__gmpn_cpuvec_init"]
    if len(fns) != 1:
        raise AnalysisBroken("R-FATTAB: __gmpn_cpuvec_init not found in fat.c")
    fn = fns[0]
    dom, preds = r_divzero.dominators(fn)
    # local pointers to the vector
    ptrs = set()

    def names_vec(e):
        hit = []
        sa.walk(e, lambda n: hit.append(1) if n.get("k") == "var" and (n.get("name") == "__gmpn_cpuvec" or n["id"] in ptrs) else None)
        return bool(hit)
    for b in fn["blocks"]:
        for el in b["elems"]:
            e = el["e"]
            if e.get("k") == "decl":
                for dd in e["decls"]:
                    if "init" in dd and "*" in dd["var"].get("ct", "") and names_vec(dd["init"]):
                        ptrs.add(dd["var"]["id"])
    stores = []          # (block id, position, field, line)
    for b in fn["blocks"]:
        for i, el in enumerate(b["elems"]):
            def f(n, b=b, i=i, el=el):
                if n.get("k") == "binop" and n["op"].endswith("=") and n["op"] not in ("==", "!=", "<=", ">="):
                    l = n["l"]
                    while isinstance(l, dict) and l.get("k") == "cast":
                        l = l["e"]
                    if isinstance(l, dict) and l.get("k") == "member" and names_vec(l["base"]):
                        stores.append((b["id"], i, l["field"], el["line"]))
            sa.walk(el["e"], f)
    flag = [s_ for s_ in stores if s_[2] == "initialized"]
    fill = [s_ for s_ in stores if s_[2] != "initialized"]
    res["stats"]["cpuvec_init_stores"] = len(stores)
    if len(fill) < len(fat_functions) or not flag:
        raise AnalysisBroken("R-FATTAB: __gmpn_cpuvec_init stores %d fields and sets initialized %d times: anchors moved" % (len(fill), len(flag)))
    F = res["findings"]
    for fb, fi, _, fl in flag:
        res["stats"]["comparisons"] += 1
        late = [s_ for s_ in fill if not ((s_[0] == fb and s_[1] < fi) or (s_[0] != fb and s_[0] in dom.get(fb, ())))]
        if late:
            F.append(Finding(prop, "R-FATTAB", src, fl, "__gmpn_cpuvec_init", "publish-before-fill",
                             "`initialized` is set at line %d before (or on a path without) the store to __gmpn_cpuvec.%s at line %d: a second "
                             "thread that sees the flag uses thresholds / function pointers that are not installed yet (CPUVEC_THRESHOLD trusts "
                             "the flag)" % (fl, late[0][2], late[0][3])))
    res["samples"].append(dict(rule="R-FATTAB.init", stores=len(stores), flag_lines=[s_[3] for s_ in flag]))


def trampoline(prop, res, text):
    """The first call of each dispatched routine lands in FAT_INIT, which calls __gmpn_cpuvec_init and then jumps to the routine that was
    installed - with the ORIGINAL arguments.  So the trampoline has to save all six integer argument registers (mpn_preinv_divrem_1,
    mpn_add_err1_n, ... take six) around the call and restore them (pushes / pops in mirror order, or moves to and from the frame).
    m4 text of a file the pinned build never assembles; checked on the text of the FAT_INIT definition."""
    F = res["findings"]
    src = os.path.join(REPO, "mpn/x86_64/fat/fat_entry.asm")
    m = re.search(r"define\(FAT_INIT,(.*?)\ndnl\s+FAT_INIT for each", text, re.S)
    if not m:
        raise AnalysisBroken("R-FATTAB: the FAT_INIT definition was not found in fat_entry.asm")
    body = m.group(1)
    line0 = text[:m.start(1)].count("\n") + 1
    calls = list(re.finditer(r"^\s*call\s+.*__gmpn_cpuvec_init.*$", body, re.M))
    if not calls:
        raise AnalysisBroken("R-FATTAB: FAT_INIT has no call of __gmpn_cpuvec_init: anchors moved")
    need = ["rdi", "rsi", "rdx", "rcx", "r8", "r9"]
    SAVE = re.compile(r"^\s*(?:pushq?\s+%(\w+)|movq?\s+%(\w+)\s*,\s*-?\w*\(%rsp\))", re.M)
    REST = re.compile(r"^\s*(?:popq?\s+%(\w+)|movq?\s+-?\w*\(%rsp\)\s*,\s*%(\w+))", re.M)
    shared = []
    prev_end = 0
    for i, c in enumerate(calls):
        end = calls[i + 1].start() if i + 1 < len(calls) else len(body)
        before, after = body[prev_end:c.start()], body[c.end():end]
        saves = list(SAVE.finditer(before))
        saved = [mm.group(1) or mm.group(2) for mm in saves]
        if i > 0:
            # a later variant (non-PIC after PIC) starts after the previous variant's restores: only what follows them counts; if it has no
            # saves of its own it shares the ones written before the ifdef
            rest_prev = list(REST.finditer(before))
            if rest_prev:
                tail = before[rest_prev[-1].end():]
                saves = list(SAVE.finditer(tail))
                saved = [mm.group(1) or mm.group(2) for mm in saves]
            if not saved:
                saved = shared
        shared = saved or shared
        rests = list(REST.finditer(after))
        restored = [mm.group(1) or mm.group(2) for mm in rests]
        if len(restored) > len(saved):
            restored = restored[:len(saved)]       # what follows belongs to the next variant
        res["stats"]["comparisons"] += len(need)
        for r_ in need:
            if r_ not in saved or r_ not in restored:
                F.append(Finding(prop, "R-FATTAB", src, line0 + body[:c.start()].count("\n"), "FAT_INIT", "trampoline-arg-not-saved:%s" % r_,
                                 "FAT_INIT does not save and restore %%%s around call %d of __gmpn_cpuvec_init: the init routine may clobber this "
                                 "caller-saved argument register, and the dispatched routine then starts with a garbage argument on the first call"
                                 % (r_, i + 1)))
        only_stack = all(mm.group(1) for mm in saves) and all(mm.group(1) for mm in rests[:len(saved)]) and saves
        res["stats"]["comparisons"] += 1
        if only_stack and restored != list(reversed(saved)):
            F.append(Finding(prop, "R-FATTAB", src, line0 + body[:c.start()].count("\n"), "FAT_INIT", "trampoline-restore-order:%d" % i,
                             "after call %d of __gmpn_cpuvec_init FAT_INIT pops %s, which is not the mirror image of its pushes %s: some register "
                             "comes back with another register's value" % (i + 1, restored, saved)))
        prev_end = c.end()
    res["samples"].append(dict(rule="R-FATTAB.trampoline", saved=shared, calls=len(calls)))
