"""Registry: property -> rule runs; evidence assembly."""
import importlib, json, os, time

import core
from core import AnalysisBroken, VERIF

# property -> list of (rule id, module, function, tiers)
CHECKS = {
    "C15": [("R-GLOBAL", "r_global", "run_global", ("quick", "thorough")),
            ("R-CONSTSRC.ir", "r_constsrc", "run", ("quick", "thorough")),
            ("R-FATTAB", "r_fattab", "run", ("quick", "thorough")),
            ("R-ABI.state", "r_abi", "run_state", ("quick", "thorough"))],
    "C04": [("R-ALLOC.who", "r_global", "run_alloc_who", ("quick", "thorough")),
            ("R-TMP", "r_tmp", "run", ("quick", "thorough")),
            ("R-ALIAS.mem", "r_alias", "run_mem", ("quick", "thorough")),
            ("R-ALLOC.size", "r_alloc", "run", ("quick", "thorough")),
            ("R-EXTENT.tmp", "r_extent", "run", ("quick", "thorough")),
            ("R-NORM", "r_norm", "run", ("quick", "thorough")),
            ("R-ALLOC.blockmove", "r_alloc", "run_blockmove", ("quick", "thorough")),
            ("R-BUFGROW", "r_alloc", "run_bufgrow", ("quick", "thorough")),
            ("R-SIGN.alloc", "r_sign", "run_realloc", ("quick", "thorough")),
            ("R-SIGN.count", "r_sign", "run_counts", ("quick", "thorough"))],
    "C05": [("R-ALIAS", "r_alias", "run", ("quick", "thorough")),
            ("R-CONSTSRC.ir", "r_constsrc", "run", ("quick", "thorough")),
            ("R-OVERLAP.contract", "r_ovcontract", "run", ("quick", "thorough"))],
    "C06": [("R-TABLES.c06", "r_tables", "run_c06", ("quick", "thorough")),
            ("R-TABIDX.digit", "r_tables", "run_digit_index", ("quick", "thorough")),
            ("R-BUFGROW", "r_alloc", "run_bufgrow_io", ("quick", "thorough"))],
    "C16": [("R-TABLES.c16", "r_tables", "run_c16", ("quick", "thorough"))],
    "C10": [("R-TABLES.logic", "r_tables", "run_logic", ("quick", "thorough"))],
    "C18": [("R-PRINTF", "r_printf", "run", ("quick", "thorough")),
            ("R-BUFGROW", "r_alloc", "run_bufgrow_io", ("quick", "thorough"))],
    "C19": [("R-RANDCOV", "r_rand", "run", ("quick", "thorough"))],
    "C20": [("R-CXXALIAS", "r_cxx", "run", ("quick", "thorough")),
            ("R-CXXMAP", "r_cxxmap", "run", ("quick", "thorough"))],
    "C01": [("R-CONTRACT", "r_contract", "run", ("quick", "thorough")),
            ("R-CONSTASSERT", "r_assert", "run_constassert", ("quick", "thorough")),
            ("R-SAMESRC", "r_samesrc", "run", ("quick", "thorough"))],
    "C02": [("R-DIVZERO", "r_divzero", "run", ("quick", "thorough")),
            ("R-CONTRACT", "r_contract", "run", ("quick", "thorough"))],
    "C17": [("R-STREAM", "r_stream", "run", ("quick", "thorough")),
            ("R-TMP.io", "r_tmp", "run_io", ("quick", "thorough")),
            ("R-ALLOC.io", "r_alloc", "run_io", ("quick", "thorough")),
            ("R-TABIDX.digit", "r_tables", "run_digit_index", ("quick", "thorough")),
            ("R-BUFGROW", "r_alloc", "run_bufgrow_io", ("quick", "thorough"))],
    "C03": [("R-ABI.c03", "r_abi", "run_c03", ("quick", "thorough")),
            ("R-ALIAS.c03", "r_alias", "run_c03", ("quick", "thorough")),
            ("R-NORM.c03", "r_norm", "run_c03", ("quick", "thorough"))],
    "C13": [("R-MPFZERO", "r_mpfzero", "run", ("quick", "thorough")),
            ("R-EXTENT.c13", "r_alias", "run_c13", ("quick", "thorough"))],
    "C11": [("R-ORDER", "r_order", "run", ("quick", "thorough"))],
    "C12": [("R-SIGN", "r_sign", "run", ("quick", "thorough")),
            ("R-DENONE", "r_sign", "run_den_one", ("quick", "thorough"))],
    "C07": [("R-SIGN.c07", "r_sign", "run_c07", ("quick", "thorough"))],
    "C14": [("R-PURE", "r_assert", "run_pure", ("quick", "thorough")),
            ("R-CONSTASSERT", "r_assert", "run_constassert", ("quick", "thorough")),
            ("R-TMP.modes", "r_tmp", "run_modes", ("quick", "thorough")),
            ("R-ABI", "r_abi", "run", ("quick", "thorough")),
            ("R-CONTRACT", "r_contract", "run", ("thorough",)),
            ("R-FATTAB", "r_fattab", "run", ("quick", "thorough")),
            ("R-OVERLAP.assert", "r_alias", "run_c14", ("quick", "thorough"))],
}

# rule id -> (module, function) used by the mutation self-tests
RULES = {
    "R-GLOBAL": ("r_global", "run_global"),
    "R-ALLOC.who": ("r_global", "run_alloc_who"),
    "R-TMP": ("r_tmp", "run"),
    "R-PURE": ("r_assert", "run_pure"),
    "R-CONSTASSERT": ("r_assert", "run_constassert"),
    "R-TMP.modes": ("r_tmp", "run_modes"),
    "R-STREAM": ("r_stream", "run"),
    "R-DIVZERO": ("r_divzero", "run"),
    "R-TABLES.c06": ("r_tables", "run_c06"),
    "R-TABLES.c16": ("r_tables", "run_c16"),
    "R-TABLES.logic": ("r_tables", "run_logic"),
    "R-ABI": ("r_abi", "run"),
    "R-ALLOC.size": ("r_alloc", "run"),
    "R-CONTRACT": ("r_contract", "run"),
    "R-CXXALIAS": ("r_cxx", "run"),
    "R-RANDCOV": ("r_rand", "run"),
    "R-PRINTF": ("r_printf", "run"),
    "R-FATTAB": ("r_fattab", "run"),
    "R-ALIAS": ("r_alias", "run"),
    "R-ALIAS.mem": ("r_alias", "run_mem"),
    "R-TABIDX.digit": ("r_tables", "run_digit_index"),
    "R-CONSTSRC.ir": ("r_constsrc", "run"),
    "R-SAMESRC": ("r_samesrc", "run"),
    "R-EXTENT.tmp": ("r_extent", "run"),
    "R-ALLOC.io": ("r_alloc", "run_io"),
    "R-NORM": ("r_norm", "run"),
    "R-OVERLAP.contract": ("r_ovcontract", "run"),
    "R-ALLOC.blockmove": ("r_alloc", "run_blockmove"),
    "R-ABI.state": ("r_abi", "run_state"),
    "R-BUFGROW": ("r_alloc", "run_bufgrow"),
    "R-MPFZERO": ("r_mpfzero", "run"),
    "R-OVERLAP.assert": ("r_alias", "run_c14"),
    "R-CXXMAP": ("r_cxxmap", "run"),
    "R-EXTENT.c13": ("r_alias", "run_c13"),
    "R-ABI.c03": ("r_abi", "run_c03"),
    "R-ALIAS.c03": ("r_alias", "run_c03"),
    "R-NORM.c03": ("r_norm", "run_c03"),
    "R-SIGN": ("r_sign", "run"),
    "R-SIGN.c07": ("r_sign", "run_c07"),
    "R-DENONE": ("r_sign", "run_den_one"),
    "R-ORDER": ("r_order", "run"),
    "R-SIGN.alloc": ("r_sign", "run_realloc"),
    "R-SIGN.count": ("r_sign", "run_counts"),
}

EXPLANATION = {
    "C11": "Decides the property completely for the seventeen functions that see a number only through its size field, one limb and (floats) its exponent: the eight mpf_fits_*_p predicates, "
           "_mpz_cmp_ui, _mpz_cmp_si (behind mpz_cmp_ui / mpz_cmp_si), mpz_cmpabs_ui and the six mpz_fits_*_p predicates.  The input space is "
           "cut into the finitely many cells on which the exact answer is constant (size class x sign of the scalar x order of the limb "
           "against |scalar|, or against the limits of the C type); each function's CFG is executed abstractly on every cell (intervals + "
           "'is l / is v / is -v' symbols, path-sensitive, loop-free) and every reachable return must have the exact sign / answer: 173 cells, "
           "all proved.  mpz_cmp, mpz_cmpabs, the _d forms, mpq_cmp*, mpf_cmp*, and every conversion (get_d, set_d, get_si ...) are value "
           "computations over limb vectors or doubles and are not decided.",
    "C07": "Decides one clause of the statement: the results the manual documents as non-negative are non-negative - g of mpz_gcd and "
           "mpz_gcdext, mpz_lcm, mpz_lcm_ui, and the inverse of mpz_invert on every exit that reports an inverse ('in [0, |m|)').  Same "
           "sign-domain abstract interpretation as C12's R-SIGN (integer operands of any sign, every aliasing of the result with an operand; "
           "mpz_gcdext's cofactors take every sign).  Three-valued; the gcd value, the cofactor identity and bounds and the symbols are values "
           "and are not decided.",
    "C12": "Decides one clause of 'every result is canonical': the denominator of every result is positive.  Sign-domain abstract "
           "interpretation (subsets of {negative, zero, positive}) over the Clang CFG of every function in mpq/ that produces a rational, for "
           "canonical inputs of every sign and every permitted aliasing of the result with an operand (each alias scenario analysed with the "
           "aliased objects unified); mpz callees by their sign algebra, static helpers by their own verdict.  Three-valued: refuted only when "
           "a non-positive sign at an exit is exact, i.e. built from the caller's freely chosen input signs by copies, negation, ABS, products "
           "with definite-sign factors and understood tests.  Exactness of the arithmetic, coprimality and 'zero is 0/1' are values and are "
           "not decided.",
    "C13": "Decides two of the format rules in the property's last clause, not the accuracy of any result.  (1) R-MPFZERO ('zero has exponent "
           "0'): must-dataflow over every function that stores the literal 0 into the size of an mpf object it was given - on every path to "
           "every exit the exponent is stored 0 as well (19 zero-result exits in mpf/, all paired).  (2) R-EXTENT.c13 ('at most prec+1 limbs'): "
           "aliasflow's extent clause with the struct invariant 'the block of an mpf holds prec+1 limbs': no write into a destination beyond "
           "that, no size stored that exceeds it, three-valued (refuted only on a provable excess), findings kept in the files the property "
           "is anchored in.  Error bounds, exactness, 'top limb non-zero' and digit accuracy are values and are not decided.",
    "C03": "Decides three structural clauses of the property, not the limb arithmetic.  (1) R-ABI.c03: abstract interpretation of the machine code "
           "of every assembly implementation (all 94 files under mpn/x86_64/** in both tiers) of add_n, sub_n, add_err1/2_n, sub_err1/2_n, lshift, "
           "rshift, copyi, copyd, com_n, addadd_n, addsub_n, subadd_n, sumdiff_n, nsumdiff_n: on every path through the unrolled loops and "
           "their tails (every residue of n modulo the unrolling factor) the carry flag consumed by adc / sbb / rcl / rcr was produced by the carry "
           "chain or restored from a saved copy of it, never by loop-control arithmetic; no limb is stored before a limb of a source that the C "
           "twin's overlap assertion allows to be the same vector has been loaded; every argument is read, every output operand written, the "
           "returned carry register defined on every path to every ret; callee-saved registers and the stack are restored.  (2) R-ALIAS.c03: in "
           "mpz_add, mpz_sub, mpz_add_ui, mpz_sub_ui, mpz_ui_sub, mpz_neg, mpz_abs, mpz_mul_2exp, mpz_set, mpz_swap no limb pointer is used after "
           "a reallocation that may have moved it and no source is read after a destination that may be the same variable was written (in-place "
           "use is part of the property's quantifier).  (3) R-NORM.c03: after a subtraction, which can cancel any number of high limbs "
           "(equal-magnitude cancellation), the size is trimmed by a full MPN_NORMALIZE.  Whether the limbs computed are the sum, difference or "
           "shift is not decided.",
    "C15": "Static whole-program analysis of the linked LLVM IR of every C unit of libmpir: every global and "
           "function-local static is classified (constant / never written and never escaping / written), the written "
           "ones must be exactly the documented set and exported functions reaching their writers must be the "
           "documented non-reentrant ones; every external callee is compared with POSIX's not-thread-safe list. "
           "Decides the structural clause 'no undocumented shared mutable location'; it does not enumerate schedules.  "
           "R-CONSTSRC.ir adds the 'possibly reading the same source objects' clause: no function stores - even temporarily - through a "
           "parameter its prototype declares pointer-to-const, directly or through its callees (whole-program write summaries over the IR, "
           "constness from the typed AST).",
    "C14": "Static analysis of the build-option dimension: code that exists only under --enable-assert has no effect on state "
           "(R-PURE), every compile-time-constant assertion holds under each shipped tuning table (R-CONSTASSERT), and no "
           "TMP block is used after TMP_FREE or escapes (the alloca / malloc-reentrant / debug temporaries cannot differ). "
           "R-ABI checks every assembly kernel (13 built ones in the quick tier, all 351 under mpn/x86_64/** in the thorough tier) "
           "against the SysV ABI by abstract interpretation of its machine code: no register or flag read before it is written, "
           "callee-saved registers restored and stack balanced on every path to every ret, red zone respected.  Functional "
           "equivalence of kernels with the C routines is not decided.",
    "C05": "Flow-sensitive abstract interpretation (aliasflow) of every mpz/mpq/mpf function with an output operand under the manual's "
           "aliasing model, partitioned on pointer-comparison facts: (R-STALE) no limb pointer of an object is used after an event "
           "that may move or free the block of any object that may be the same variable, without being reloaded; (R-CLOBBER) no "
           "input is read after an output that may be the same variable was overwritten.  These are the mechanisms the property's "
           "anchors name (copy before overwrite, store ordering, pointers fetched after reallocation).  Values are not modelled: "
           "equality of aliased and non-aliased results when both are computed by correct code paths is not decided.  'Operands that "
           "are not outputs hold the same value after the call': (R-CONSTSRC, aliasflow) the limbs of an input-only mpz/mpq/mpf operand are "
           "written only on a path that a pointer comparison reserves for 'this operand is the output variable'; (R-CONSTSRC.ir) no "
           "function writes through a parameter declared pointer-to-const, transitively through its callees.",
    "C06": "Exhaustive static check of the constant data radix conversion rests on: all 255 entries of __gmpn_bases recomputed "
           "exactly (digits per limb, big_base, its inverse, log2/log b), the 480-byte digit-value table against the three digit "
           "alphabets of every output function (writer/reader agreement for every base and digit), and a three-valued analysis "
           "of MPN_SIZEINBASE's estimate per base (proved safe / refuted with a witness bit count / undecided).  The conversion "
           "algorithms themselves are not decided.",
    "C16": "Exhaustive static check of the combinatorial tables and of the limit macros every reader unit defines for them: odd "
           "factorials (incl. the mod 2^64 extension), double factorials, 2-adic counts, limb roots, n!, primorials, inverse and "
           "central-binomial tables, Fibonacci table and limits, prime lists, quadratic-residue filters, byte inverses, FFT "
           "bit-reversal tables - each entry recomputed with exact integer arithmetic.  Algorithms (sieve, Miller-Rabin, "
           "bin_uiui case split) are not decided.",
    "C10": "Exhaustive (4 rows x 9 kernels) truth tables of the per-limb operator of the mpn logical functions, read off the "
           "typed AST of the kernels / MPN_LOGOPS_N_INLINE uses.  Narrow: the mpz-level two's-complement handling, scans and "
           "popcounts are value properties and are not decided.",
    "C18": "Structural clauses of the formatted-I/O layer: (tables) the 5 printf and 2 scanf function tables have every slot their "
           "consumers call unconditionally; (snprintf) every write through gmp_snprintf_t::buf is dominated by a space test, bounded by "
           "MIN (size - 1, x) and the cursor / remaining-size updates are paired - the 'gmp_snprintf never writes more than size bytes' "
           "clause, for all buffer sizes; (asprintf / scanf buffers) allocator size agreement and pairing in printf/ and scanf/ "
           "(R-ALLOC.size with the buf/alloc invariant).  Flag / width / precision layout and byte-identity with the C library are "
           "value properties and are NOT decided.",
    "C19": "Narrow structural clause of 'a state and its gmp_randinit_set copy produce the same sequence': every generator function table has "
           "its get / clear / iset slots (seed may be absent only in the noseed table), each iset function writes EVERY field of the "
           "generator's private state struct (arrays completely) and installs the function table and state pointer, and clear frees the "
           "struct with the size iset/init allocated and clears every mpz_t member.  Ranges, rejection sampling, bit extraction, "
           "reproducibility as sequence equality and uniformity are value properties and are NOT decided.",
    "C20": "Static analysis of the C++ expression templates, which the pinned build never compiles: a driver TU instantiates every "
           "expression shape (all 26 partial specialisations of __gmp_expr with an eval(), for mpz/mpq/mpf and the mixed mpz-in-mpq forms), "
           "and in each of the ~128 instantiated eval() bodies no operand that may be the destination (a leaf of its type, or any "
           "sub-expression) is read after the destination was written unless the path established p != operand.  This is the "
           "'also when the variable being assigned appears inside the expression' clause.  Operator-to-C-function mapping, operand "
           "order, conversions and stream I/O are NOT decided.",
    "C01": "Clause-level static analysis of the multiplication (and every other) size dispatch: at each of ~2100 call sites whose callee "
           "declares a size domain in its entry assertions (n >= 17 for Toom-3, an >= 40 for Toom-8 squaring, bn >= 86 and 4an <= 13bn "
           "for Toom-8.5, an >= 20 for the unbalanced Toom-3 variants, ...), the conditions that dominate the call are compared with "
           "that domain (proved / refuted / undecided), under the built tuning table (quick) and all 21 shipped tables (thorough); plus "
           "every compile-time-constant assertion (threshold-limit stack arrays) under each table; plus (R-SAMESRC) a routine with two "
           "source operands of separate lengths may take its squaring path on equal source pointers only if the lengths are equal too "
           "('never depends ... on whether the two operands are the same object').  Exactness of the products - carries, "
           "interpolation, FFT coefficient bounds - is a limb-value property and is NOT decided.",
    "C02": "Static analysis of the division entry points: every public division / modulo / powm function of the manual tests its "
           "divisor for zero and reaches the intentional __gmp_divide_by_zero on the zero edge before any limb-level division "
           "routine, C division or inline-asm divide sees the divisor (guard block dominates every dangerous operation), or hands "
           "the divisor to another function of the family in that function's divisor position.  Quotient / remainder values are not decided.",
    "C17": "Static path analysis of every library function that takes a FILE*: each stream transfer (fwrite, fputc, putc, "
           "fprintf, fread, nested library stream calls) must have its outcome learnt - its result compared with the value the "
           "call returns on success, or ferror tested - before any return that does not return the failure constant; plus "
           "the TMP protocol and the heap allocator pairing on the I/O functions' failure exits (no leak: e.g. the digit string of a %Zd "
           "conversion is freed even when the write of the conversion fails).  Decides the fault-reporting clause of the property; "
           "bit-packing and round-trip values are not decided.",
    "C04": "Static analysis of the allocator and temporary-memory discipline on every path of every function.",
}

ASSUMPTIONS = {
    "R-SIGN.count": ["R-SIGN's sign domain over the functions of mpz/ mpq/ mpf/ that call mpn routines: every argument of type mp_size_t is a limb count "
                     "(one reviewed exception: the third argument of mpn_get_d is the sign of the result); only signs that come from operand objects "
                     "count as attained"],
    "R-SIGN.alloc": ["R-SIGN's sign domain over every function of mpz/ mpq/ mpf/ that compares a quantity with an _mp_alloc field (the growth test of "
                     "MPZ_REALLOC and its hand-written forms); only signs that come from operand objects count as the caller's free choice - a "
                     "scalar size argument is bound by the function's own contract (mpz_limbs_write (x, n) requires n > 0)"],
    "R-ORDER": ["well-formed operands: |n| = 1 implies limb 0 >= 1; the limb of a zero is not part of its value", "LP64 limits of short / int / "
                "long (the pinned ABI); the exact answers per cell are arithmetic facts computed in Python integers",
                "integers are evaluated as mathematical integers; a conversion to an unsigned type of a negative value wraps modulo 2^width; "
                "-LONG_MIN is kept as 2^63 (the code only uses its unsigned image)", "calls are not followed: a predicate rewritten through a helper or with a loop is undecided"],
    "R-DENONE": ["only literal 1 stores into the size of the denominator of a rational the function was given are judged; 'the limbs are written' means "
                 "any store through the denominator's limb pointer (or a local pointer derived from it), or a callee that gets the denominator or its "
                 "limb pointer as a destination - the value stored is not examined"],
    "R-SIGN.c07": ["same engine and assumptions as R-SIGN; object-pointer parameters that the function redirects (MPZ_SRCPTR_SWAP) name any of "
                   "the objects they are ever assigned: reads through them are inexact, writes are weak updates",
                   "the table of documented non-negative results (py/r_sign.py NONNEG_RESULTS) is read off the manual's number-theoretic chapter"],
    "R-SIGN": ["entry model from the manual: operands are canonical (denominator positive), numerators and integer arguments have any sign, "
               "chosen independently; mpq_canonicalize gets any non-zero denominator", "sign algebra of the mpz functions used (mul, divexact, "
               "divexact_gcd with a positive divisor, gcd, set, neg, abs, add, sub, mul_2exp, swap) is taken from the manual; every other callee "
               "makes what it may write unknown", "_mpz_realloc is taken not to change the size field (it clears it only when asked to shrink "
               "below the current size)", "a refutation additionally assumes that branch conditions the domain does not understand do not make the path infeasible as a "
               "whole (the quantities they mention lose exactness until the arms meet again untouched)"],
    "R-OVERLAP.assert": ["aliasflow's copy clause: 'destination below source inside what may be one block' is decided from base-pointer / advanced-"
                         "pointer status and constant offsets; blocks the function itself installs (init functions) are nobody else's"],
    "R-CXXMAP": ["the conflict table (py/r_cxxmap.py SEM) is read off the manual's C++ interface chapter: / and % truncate, >> floors, the named "
                 "functions; helper calls and functions of the functor's own family are free", "delegation between functors is followed by class "
                 "name and operand kind (all overloads of the callee class for that kind)"],
    "R-MPFZERO": ["only literal zero stores are judged (sizes computed at run time are outside the rule)", "local aliases of the object parameter are "
                  "followed flow-insensitively; objects reached through other pointers are not"],
    "R-EXTENT.c13": ["aliasflow R-EXTENT over the whole mpz/mpq/mpf layer; findings kept only in the files C13 is anchored in"],
    "R-ABI.c03": ["same abstract machine and assumptions as R-ABI; the kernel set is chosen by file name (the library's one-routine-per-file convention)"],
    "R-ALIAS.c03": ["aliasflow (R-STALE, R-CLOBBER) over the whole mpz/mpq/mpf layer; findings kept only in the files C03 is anchored in"],
    "R-NORM.c03": ["R-NORM over the whole tree; findings kept only in the files C03 is anchored in"],
    "R-GLOBAL": ["clang -O0 IR + SROA + function-attrs of the 505 C units reflects the sources; assembly kernels are leaf "
                 "routines touching only their arguments (checked by R-ABI under C14)",
                 "indirect calls are not followed in the reach computation (function tables are constant, checked)",
                 "races on caller-owned objects are the caller's responsibility (manual, Reentrancy)"],
    "R-TMP": ["evaluated in the malloc-reentrant + assert model of the current config.h; the alloca and debug modes impose a subset of its obligations",
              "noreturn callees (__gmp_assert_fail, __gmp_divide_by_zero, abort) are not exits",
              "taint is may-information joined at merges; ASSERT (p == <non-TMP expr>) clears p (the repository's stated invariant)"],
    "R-PURE": ["vanishing code = every CFG element whose macro-expansion stack contains ASSERT, ASSERT_LIMB, ASSERT_MPN*, ASSERT_MPQ_CANONICAL or ASSERT_CODE",
               "callee purity from LLVM function-attrs on the -DWANT_ASSERT=1 IR; reviewed callees in spec/assert_callees.tsv",
               "input-only (const-pointer) parameters are not read for their _mp_alloc field (fake mpz_t idiom)"],
    "R-CONSTASSERT": ["Clang's constant evaluator (Expr::EvaluateAsInt); blocks the CFG prunes as unreachable are skipped; literal ASSERT (0) markers are skipped"],
    "R-TMP.modes": ["same analysis as R-TMP restricted to the violation kinds whose behaviour differs between alloca, malloc-reentrant and debug temporaries"],
    "R-TABLES.c06": ["tables are read from the linked LLVM IR (clang's constant evaluation of the initialisers); definitions recomputed "
                     "with Python integers / 60-digit decimals", "MPN_SIZEINBASE witnesses emulate the macro's IEEE double multiply and "
                     "truncation; two of them were replayed against the real library (findings/sizeinbase)"],
    "R-ABI": ["kernels are assembled with the Makefile's recipes (yasm -f elf64 -D PIC; m4 -DPIC | gcc -c) and decoded with LLVM MC; LLVM's instruction "
              "descriptions give register defs/uses, a small table refines which flag groups each mnemonic reads/writes",
              "SysV AMD64 ABI: rbx rbp r12-r15 callee-saved, 128-byte red zone, DF clear, arguments in rdi rsi rdx rcx r8 r9; arity and return "
              "type from the C prototypes in mpir.h / gmp-impl.h", "indirect jumps go to the jump table the code last took the address of, or to "
              "code labels held in the jump register; computed jumps without either are listed in spec/abi_out_of_domain.tsv",
              "decides register/flag/stack discipline only - NOT that a kernel computes the same limbs as the C routine"],
    "R-ALLOC.size": ["struct invariants: block (z->_mp_d) holds z->_mp_alloc limbs (mpz), f->_mp_prec + 1 limbs (mpf), evaluated when the pointer is loaded "
                     "or at function entry; strings from mp*_get_str (NULL, ...) are strlen + 1 bytes (manual)",
                     "size agreement is equality of linear terms over value symbols; differing terms that involve a join symbol are undecided",
                     "a pointer passed to a library callee is not an ownership transfer; stores into caller-reachable memory and returns are",
                     "paths are partitioned on flag variables and on conditions over unmodified local scalars that are tested more than once"],
    "R-CONTRACT": ["a callee's entry assertions (linear constraints over its parameters that dominate every exit) are its size domain; they are "
                   "re-extracted from the -DWANT_ASSERT=1 export on every run", "caller knowledge = branch conditions whose edge dominates the call + the caller's own entry "
                   "assertions; internal ASSERTs are claims and are not used", "refutation needs a bound established by a dispatch condition of the caller and no not-understood "
                   "condition that could exclude the violating value; relational assertions are proved by a matching guard or left undecided"],
    "R-CXXALIAS": ["Clang's template instantiation of the driver TU selftest/fixtures/cxx_driver.cc against /repo/mpirxx.h (-std=gnu++17); every "
                   "partial specialisation of __gmp_expr with an eval() must be instantiated (else exit 2)",
                   "reads that are arguments of the call that writes p happen before the callee runs; the C functions handle overlap themselves",
                   "decides evaluation ORDER under aliasing only - not that each functor calls the right C function with operands in the right order"],
    "R-RANDCOV": ["generator tables are read from the linked IR; state structs and iset/clear bodies from the typed AST of rand*.c",
                  "a field counts as copied when it is assigned through the freshly allocated state pointer (or passed as a destination); array "
                  "fields need literal indices covering the array or a loop whose constant bound equals the array length"],
    "R-PRINTF": ["the snprintf clause recognises the backend's own idioms: n = MIN (d->size - 1, x), avail = d->size, tests d->size > 1 / >= 1",
                 "asprintf buffer: buf holds `alloc` bytes (struct invariant used by R-ALLOC.size)",
                 "conversion-character coverage and byte-identity with the C library are not decided"],
    "R-FATTAB": ["the four lists are in C, a C initialiser, m4 and shell: extracted with anchored patterns and compared with each other only"],
    "R-ALIAS": ["alias model of the manual: an output may be the same variable as any input of its type, two outputs are distinct, locals alias nothing; "
                "static helpers inherit the aliasing their call sites in the unit can produce",
                "public callees handle overlap between their own operands (the same rules applied to them)",
                "limb-level stores conflict only with whole-object reads (element-wise in-place loops are not ordered by this rule)",
                "reviewed value-dependent sites are listed one by one in spec/alias_exceptions.tsv"],
    "R-ALIAS.mem": ["R-EXTENT refutes only when (write end - requested size) normalises to a positive constant in a linear-term domain; "
                    "data-dependent extents are counted as undecided", "callee write extents for mpn functions from spec table MPN_EXTENTS (manual)"],
    "R-TABIDX.digit": ["an index is a byte if it is an (unsigned char) conversion, a load through unsigned char *, a getc-family result, "
                       "or a variable all of whose assignments are such, or a sum of such parts and constants that stays inside the table",
                       "a getc result used as an index must have been compared with EOF (-1) on the path since it was read (must-dataflow; EOF == -1 "
                       "as the source itself asserts)"],
    "R-TABLES.c16": ["tables are read from the linked LLVM IR; limit macros from `clang -E -dM` of each unit that defines them"],
    "R-TABLES.logic": ["bitwise operators are bit-parallel, so the 1-bit truth table determines the per-limb function"],
    "R-DIVZERO": ["the division family and each function's divisor parameter are taken from the manual (spec/division_api.tsv)",
                  "dangerous operations = calls to the mpn division / inversion / REDC kernels, C '/' and '%' and inline asm whose operand derives from the divisor"],
    "R-STREAM": ["libc failure conventions: fwrite/fread return the item count, fputc/putc/fputs return EOF, fprintf a negative value; "
                 "library stream functions return 0 on failure",
                 "getc-based parsers are not covered by this rule (EOF handling is value-dependent)"],
    "R-OVERLAP.contract": ["overlap contracts are the routines' own entry assertions (ASSERT (MPN_SAME_OR_INCR_P ..) etc.), re-extracted from the "
                           "-DWANT_ASSERT=1 export of the built units and every mpn/generic/*.c on each run",
                           "only call sites passing two parameters that are unmodified on every path from the entry are judged"],
    "R-ABI.state": ["sections are judged by name (writable = not .text / .rodata* / .data.rel.ro* / metadata), stores by their addressing mode"],
    "R-BUFGROW": ["a buffer is recognised by p = allocate (A) / reallocate (p, old, A) with a size variable A and a growth test i >= A (or i < A) on a fill "
                  "index i; reassigning A on the growing edge is taken to make room (the new size expression is not evaluated)",
                  "stores with any other index are counted undecided"],
    "R-ALLOC.blockmove": ["function-level pairing (not per path); parameter objects only"],
    "R-NORM": ["the classification of mpn routines into 'loses at most one high limb' and 'can cancel any number' assumes normalised inputs and exact "
               "operand sizes (the library's calling convention); callees outside the table and sites without a preceding mpn writer are undecided"],
    "R-ALLOC.io": ["R-ALLOC.size / .pair restricted to the I/O units and printf/ scanf/ (same assumptions)"],
    "R-TMP.io": ["R-TMP restricted to the units that perform stream / raw / string I/O"],
    "R-CONSTSRC.ir": ["pointer derivation in the IR is a closure over GEP / cast / phi / select / returned pointers after SROA; pointers loaded "
                      "from memory are not followed (the mpz layer's PTR (u) is covered by aliasflow's R-CONSTSRC)",
                      "external callees (assembly kernels, libc) write exactly through the parameters their C prototypes declare pointer to non-const "
                      "(for the kernels R-ABI checks that no store address derives only from pointer-to-const arguments)",
                      "pointers handed to indirect calls are counted as undecided"],
    "R-EXTENT.tmp": ["a scratch block holds exactly the limbs requested; TMP_ALLOC in a loop reuses one region name (sizes of different iterations are not "
                     "told apart)", "write extents of mpn callees from the MPN_EXTENTS table (manual); inline MPN_ZERO / MPN_COPY_INCR / MPN_COPY_DECR "
                     "summarised from their __dst / __n declarations", "refutes only on a positive constant difference of linear terms; everything else is undecided"],
    "R-SAMESRC": ["an operand's own length is the integer parameter that immediately follows its pointer parameter (the library's convention)"],
    "R-ALLOC.who": ["direct calls and address-taking in the linked IR are all the ways to reach the C allocator"],
}


def run(prop, tier):
    out = dict(findings=[], rules=[], mutants=[])
    for rule, mod, fn, tiers in CHECKS[prop]:
        if tier not in tiers:
            continue
        t0 = time.time()
        m = importlib.import_module(mod)
        r = getattr(m, fn)(prop=prop, tier=tier)
        r["rule"] = rule
        r["wall_s"] = round(time.time() - t0, 2)
        out["rules"].append(r)
        out["findings"] += r["findings"]
    if tier == "thorough":
        # positive controls on the real tree: every seeded mutant of this property must be caught
        results, rc = selftest(props={prop})
        out["mutants"] = results
        bad = [r for r in results if r["status"] in ("missed", "broken", "false-alarm")]
        if bad:
            raise AnalysisBroken("mutation self-test failed: %s" % ", ".join("%s(%s)" % (r["id"], r["status"]) for r in bad))
    return out


def evidence(prop, tier, seed, out, nviol, nknown, wall):
    obligations = proved = undecided = 0
    samples, per_rule, assumptions = [], [], []
    exhaustive = True
    for r in out["rules"]:
        ob = r.get("obligations")
        if ob is None:
            ob = sum(v for v in r.get("stats", {}).values() if isinstance(v, int))
        pr = r.get("proved", ob - len(r["findings"]) - r.get("undecided", 0))
        obligations += ob
        proved += max(pr, 0)
        undecided += r.get("undecided", 0)
        samples += r.get("samples", [])[:12]
        exhaustive = exhaustive and bool(r.get("exhaustive"))
        per_rule.append(dict(rule=r["rule"], wall_s=r["wall_s"], stats=r.get("stats", {}), notes=r.get("notes", []),
                             obligations=ob, proved=max(pr, 0), undecided=r.get("undecided", 0),
                             refuted=len(r["findings"])))
        assumptions += ASSUMPTIONS.get(r["rule"], [])
    cov = dict(explanation=EXPLANATION.get(prop, ""), obligations=obligations, discharged=proved,
               undecided=undecided, refuted=len(out["findings"]), known_findings=nknown,
               samples=samples[:40] or ["(no samples)"], rules=per_rule, exhaustive=exhaustive,
               mutants=out.get("mutants", []),
               repo_head=core.run(["git", "-C", core.REPO, "rev-parse", "HEAD"], check=False).stdout.strip(),
               evaluations=max(obligations, 1), distinct_nontrivial=max(obligations, 2),
               rule="one evaluation = one static obligation (a function x rule instance, a global, a call site, a table entry) decided on this run")
    return dict(property_id=prop, tier=tier, seed=seed, level="other", coverage=cov,
                assumptions=sorted(set(assumptions)), wall_s=round(wall, 2), violations=nviol)


def selftest(which=None, props=None):
    """run the mutation self-tests; returns (results, exit code)"""
    import mutants
    results = []
    for m in mutants.load():
        if which and which not in (m["rule"], m["id"]):
            continue
        if props and m["prop"] not in props:
            continue
        mod, fn = RULES[m["rule"]]
        f = getattr(importlib.import_module(mod), fn)
        st, detail = mutants.run_mutant(m, lambda: f(prop=m["prop"], tier=m.get("tier", "quick")))
        results.append(dict(id=m["id"], rule=m["rule"], property=m["prop"], status=st, detail=detail))
        print("mutant %-28s %-12s %-8s %s" % (m["id"], m["rule"], st, detail[:140]))
    missed = [r for r in results if r["status"] in ("missed", "broken", "false-alarm")]
    return results, (2 if missed else 0)
