"""R-TABLES: constant tables equal their mathematical definitions, limit macros agree with the tables they
describe (writer/reader agreement), and the per-limb operators of the mpn logical kernels have the documented
truth tables.  Tables are read from the linked LLVM IR (fully evaluated initialisers, no C parsing); macro values
come from `clang -E -dM` on the units that define them; everything is recomputed with exact integer arithmetic."""
import collections, decimal, json, math, re, subprocess

import sa, compdb
from core import *

B = 1 << 64


def iv(x):
    return int(x) if not isinstance(x, dict) else None


def table(facts, name, file_hint=None):
    gs = [g for g in facts["globals"] if (g["name"] == name or g["name"].split(".")[0] == name and g["internal"]
                                          or g["name"].endswith("." + name) or ("." + name + ".") in g["name"])
          and "init" in g]
    if file_hint:
        # under a mutation overlay the debug location names the scratch copy (mut-<id>-<n>-<basename>)
        gs = [g for g in gs if file_hint in g["loc"] or os.path.basename(file_hint) in os.path.basename(g["loc"])]
    if len(gs) != 1:
        raise AnalysisBroken("R-TABLES: expected exactly one table %s%s in the linked module, found %d"
                             % (name, " (" + file_hint + ")" if file_hint else "", len(gs)))
    return gs[0]


def ints(g):
    return [int(x) for x in g["init"]]


def oddpart(n):
    t = 0
    while n and n % 2 == 0:
        n //= 2
        t += 1
    return n, t


def fact(n):
    return math.factorial(n)


def dfact(n):
    r = 1
    while n > 1:
        r *= n
        n -= 2
    return r


def iroot(n, k):
    lo, hi = 0, 1 << (n.bit_length() // k + 1)
    while lo < hi:
        mid = (lo + hi + 1) // 2
        if mid ** k <= n:
            lo = mid
        else:
            hi = mid - 1
    return lo


def is_prime(n):
    if n < 2:
        return False
    i = 2
    while i * i <= n:
        if n % i == 0:
            return False
        i += 1
    return True


def sizeinbase_witness(c, L, limit=1 << 36):
    """smallest convergent-derived bit count t <= limit with floor(fl(t*c)) < floor(t*L); None if none is found.
    Pure arithmetic on the table constant: fl() is IEEE double multiplication as the macro performs it."""
    best = None
    x = L
    h0, h1, k0, k1 = 0, 1, 1, 0
    for _ in range(80):
        a = int(x)
        h0, h1 = h1, a * h1 + h0
        k0, k1 = k1, a * k1 + k0
        if k1 > limit:
            break
        for mul in (1, 2, 3):
            t = k1 * mul
            if 64 <= t <= limit:
                true = int(decimal.Decimal(t) * L) + 1
                est = int(float(t) * c) + 1
                if est < true and (best is None or t < best[0]):
                    best = (t, est, true)
        fr = x - a
        if fr == 0:
            break
        x = 1 / fr
    return best


def macros_of(unit, names):
    """values of object-like macros as the preprocessor sees them at the end of `unit`"""
    ov = overlay_file()
    p = subprocess.run(["clang", "-E", "-dM"] + unit.flags(["-ivfsoverlay", ov] if ov else []) + [unit.path], cwd=os.path.join(REPO, unit.dir),
                       capture_output=True, text=True)
    if p.returncode != 0:
        raise AnalysisBroken("clang -E -dM failed on %s: %s" % (unit.rel, p.stderr[-300:]))
    out = {}
    for ln in p.stdout.split("\n"):
        m = re.match(r"#define\s+(\w+)\s+(.*)$", ln)
        if m and m.group(1) in names:
            out[m.group(1)] = m.group(2).strip()
    return out


def macro_int(s):
    s = s.strip()
    while s.startswith("(") and s.endswith(")"):
        s = s[1:-1].strip()
    m = re.match(r"CNST_LIMB\s*\((.*)\)$", s)
    if m:
        s = m.group(1).strip()
    m = re.match(r"^(0[xX][0-9a-fA-F]+|\d+)[uUlL]*$", s)
    if not m:
        return None
    return int(m.group(1), 0)


class Ctx:
    def __init__(self, prop, res):
        self.prop, self.res = prop, res
        self.n = 0

    def check(self, cond, file, sig, what, line=0, fn="(table)"):
        self.n += 1
        self.res["stats"]["entries_checked"] += 1
        if not cond:
            self.res["findings"].append(Finding(self.prop, "R-TABLES", os.path.join(REPO, file), line, fn, sig, what))
        return cond


# ---------------------------------------------------------------------------------------------
def sizeinbase_sites():
    """the digit-count estimators  (size_t) (bits * (chars_per_bit_exactly [+ K])) + 1  in the library (the MPN_SIZEINBASE macro as it
    expands in mpz_sizeinbase and the other users, and mpn_sizeinbase): [(file, function, line, K)] with K the additive margin"""
    import sa, compdb
    cfg = sa.Config("built-sib", extra_files=[os.path.join(REPO, "mpn/generic/sizeinbase.c")])
    ex = sa.export(cfg)
    out = []

    def strip(e):
        while isinstance(e, dict) and e.get("k") in ("cast", "paren"):
            e = e["e"]
        return e

    def cpbe(e):
        """K if e is  member chars_per_bit_exactly  [+ float K], else None"""
        e = strip(e)
        if isinstance(e, dict) and e.get("k") == "member" and e["field"] == "chars_per_bit_exactly":
            return 0.0
        if isinstance(e, dict) and e.get("k") == "binop" and e["op"] == "+":
            for a, b in ((e["l"], e["r"]), (e["r"], e["l"])):
                a, b = strip(a), strip(b)
                if isinstance(a, dict) and a.get("k") == "member" and a["field"] == "chars_per_bit_exactly" and isinstance(b, dict) and b.get("k") == "float":
                    return float(b["v"])
        return None
    for path, fn in ex.functions():
        for b in fn["blocks"]:
            for el in b["elems"]:
                def f(n, el=el):
                    # (size_t) (bits * X) + 1
                    if n.get("k") == "binop" and n["op"] == "+" and strip(n["r"]).get("k") == "int" and strip(n["r"])["v"] == 1:
                        m = strip(n["l"])
                        if isinstance(m, dict) and m.get("k") == "binop" and m["op"] == "*":
                            for x in (m["l"], m["r"]):
                                k_ = cpbe(x)
                                if k_ is not None:
                                    out.append((relpath(path), fn["name"], el["line"], k_))
                sa.walk(el["e"], f)
    return sorted(set(out))


def check_bases(facts, c):
    g = table(facts, "__gmpn_bases")
    rows = g["init"]
    sites = sizeinbase_sites()
    if not any(s_[1] == "__gmpz_sizeinbase" for s_ in sites):
        raise AnalysisBroken("R-TABLES: the digit-count estimate of mpz_sizeinbase (MPN_SIZEINBASE) was not recognised: %r" % (sites,))
    margin = min(s_[3] for s_ in sites)
    worst_site = [s_ for s_ in sites if s_[3] == margin][0]
    c.res["samples"].append(dict(rule="R-TABLES.sizeinbase", estimator_sites=len(sites), smallest_margin=margin, at="%s:%d" % (worst_site[0], worst_site[2])))
    c.check(len(rows) == 257, "mpn/generic/mp_bases.c", "bases-len", "__gmpn_bases has %d entries, 257 expected" % len(rows))
    decimal.getcontext().prec = 60
    ln2 = decimal.Decimal(2).ln()
    for b in range(2, min(len(rows), 257)):
        cpl, cpb, bb, bbi = rows[b]
        cpl, bb, bbi = int(cpl), int(bb), int(bbi)
        f = "mpn/generic/mp_bases.c"
        if b & (b - 1) == 0:
            lg = b.bit_length() - 1
            c.check(bb == lg, f, "bases[%d].big_base" % b, "base %d is a power of two: big_base must be log2(base)=%d, table has %d" % (b, lg, bb))
            c.check(cpl == 64 // lg, f, "bases[%d].chars_per_limb" % b, "base %d: chars_per_limb must be %d, table has %d" % (b, 64 // lg, cpl))
        else:
            e = 0
            while b ** (e + 1) < B:
                e += 1
            c.check(cpl == e, f, "bases[%d].chars_per_limb" % b, "base %d: chars_per_limb must be %d (largest e with base^e < 2^64), table has %d" % (b, e, cpl))
            c.check(bb == b ** e, f, "bases[%d].big_base" % b, "base %d: big_base must be %d^%d = %d, table has %d" % (b, b, e, b ** e, bb))
            norm = 64 - (b ** e).bit_length()
            inv = ((1 << 128) - 1) // ((b ** e) << norm) - B
            c.check(bbi == inv, f, "bases[%d].big_base_inverted" % b, "base %d: big_base_inverted must be %d, table has %d" % (b, inv, bbi))
        # chars_per_bit_exactly = log 2 / log b.  (1) the entry is that real number up to rounding noise (the shipped table
        # was generated in double arithmetic and is up to ~3 ulp off, so the tolerance is 2^-49 relative, not 1 ulp);
        exact = ln2 / decimal.Decimal(b).ln()
        d = decimal.Decimal(cpb["double"])
        c.check(abs(d - exact) <= exact * decimal.Decimal(2) ** -49, f, "bases[%d].chars_per_bit_exactly" % b,
                "base %d: chars_per_bit_exactly %.17g is not log(2)/log(%d) = %s (MPN_SIZEINBASE, mpz_sizeinbase and the "
                "string buffers sized from it depend on it)" % (b, cpb["double"], b, str(exact)[:22]))
        # (2) safe side for MPN_SIZEINBASE:  (size_t)(totbits * c) + 1  must never be below the digit count
        # floor(totbits * L) + 1 of 2^totbits - 1.  c >= L(1+2^-52) proves it for every totbits (the product's rounding
        # cannot undo the margin); otherwise the continued fraction of L is searched for a witness bit count.
        if b & (b - 1):
            c.res["stats"]["sizeinbase_obligations"] += 1
            eff = cpb["double"] + margin                         # the constant the estimators multiply with (IEEE double addition)
            if decimal.Decimal(eff) >= exact * (1 + decimal.Decimal(2) ** -52):
                c.res["stats"]["sizeinbase_proved"] += 1
            else:
                w = sizeinbase_witness(eff, exact)
                if w is None:
                    c.res["stats"]["sizeinbase_undecided"] += 1
                else:
                    t, est, true = w
                    c.check(False, f, "sizeinbase-underestimate:base=%d" % b,
                            "MPN_SIZEINBASE underestimates in base %d: chars_per_bit_exactly %.17g%s is below log(2)/log(%d), so for the %d-bit "
                            "number 2^%d-1 the estimator at %s:%d yields %d digits while the number has %d; mpz_get_str (NULL, %d, x) then writes one "
                            "byte past its block and mpz_sizeinbase is one too SMALL" % (b, cpb["double"], " + %g" % margin if margin else "", b, t, t,
                                                                                      worst_site[0], worst_site[2], est, true, b),
                            fn="MPN_SIZEINBASE")
    c.res["samples"].append(dict(rule="R-TABLES", table="__gmpn_bases", entry=10, value=[int(rows[10][0]), rows[10][1]["double"], rows[10][2], rows[10][3]]))


def strings_used_by(facts, fn_names):
    out = []
    for g in facts["globals"]:
        if not g["name"].startswith(".str") or "init" not in g:
            continue
        if any(u["fn"] in fn_names for u in g["uses"]):
            try:
                s = bytes(int(x) for x in g["init"])
            except Exception:
                continue
            out.append((g["name"], s))
    return out


def check_digits(facts, c):
    tab = ints(table(facts, "__gmp_digit_value_tab"))
    f = "mp_dv_tab.c"
    c.check(len(tab) == 480, f, "dvtab-len", "__gmp_digit_value_tab has %d entries; readers index up to 224+255" % len(tab))
    if len(tab) < 480:
        return
    lower = b"0123456789abcdefghijklmnopqrstuvwxyz"
    upper = b"0123456789ABCDEFGHIJKLMNOPQRSTUVWXYZ"
    mixed = b"0123456789ABCDEFGHIJKLMNOPQRSTUVWXYZabcdefghijklmnopqrstuvwxyz"
    # reader side: the table itself
    exp0 = [0xff] * 256
    for d in range(36):
        exp0[lower[d]] = d
        exp0[upper[d]] = d
    exp1 = [0xff] * 256
    for d in range(62):
        exp1[mixed[d]] = d
    for ch in range(256):
        c.check(tab[ch] == exp0[ch], f, "dvtab[%d]" % ch,
                "digit value of byte %d (%r) for bases <= 36 must be %d, table has %d" % (ch, chr(ch), exp0[ch], tab[ch]))
        c.check(tab[224 + ch] == exp1[ch], f, "dvtab[224+%d]" % ch,
                "digit value of byte %d (%r) for bases 37..62 must be %d, table has %d" % (ch, chr(ch), exp1[ch], tab[224 + ch]))
    # writer side: for every documented base, the alphabet each output function has selected when the conversion starts must give
    # digit d the character the manual prescribes, and the reader's table must map that character back to d
    writers = {"__gmpz_get_str": "mpz/get_str.c", "__gmpz_out_str": "mpz/out_str.c", "__gmpf_get_str": "mpf/get_str.c"}
    alphabet_selection(c, facts, writers, lower, upper, mixed, tab)
    c.res["samples"].append(dict(rule="R-TABLES", table="__gmp_digit_value_tab", writers=sorted(writers), entries=480))


def alphabet_selection(c, facts, writers, lower, upper, mixed, tab):
    import sa, alphasel
    ex = sa.export(sa.cfg_builtfx())
    gstr = {}
    for g in facts["globals"]:
        if g.get("constant") and isinstance(g.get("init"), list) and g["type"].startswith("[") and "x i8]" in g["type"]:
            try:
                bs = bytes(int(x) for x in g["init"]).split(b"\0")[0]
            except Exception:
                continue
            if bs.startswith(b"0123456789") and not g["name"].startswith(".str"):
                for key in {g["name"], g["name"].split(".")[0], g["name"].split(".")[-1], g["name"].rsplit(".", 1)[0].split(".")[-1]}:
                    gstr.setdefault(key, bs)
    units = {}
    for path, u in ex.units():
        units[relpath(path)] = u["functions"]
    undec = 0
    for w, wf in writers.items():
        fns = units.get(wf)
        fn = next((f for f in (fns or []) if f["name"] == w), None)
        if fn is None:
            raise AnalysisBroken("R-TABLES: %s not found in %s" % (w, wf))
        bases = [p for p in fn["params"] if p.get("name") == "base" and p.get("ct") == "int"]
        if len(bases) != 1:
            raise AnalysisBroken("R-TABLES: %s has no `int base` parameter" % w)
        decided = 0
        for base in list(range(2, 63)) + list(range(-36, -1)):
            want = lower if 2 <= base <= 36 else (mixed if base >= 37 else upper)
            got = alphasel.alphabets_for_base(fn, fns, gstr, bases[0], base)
            c.res["stats"]["alphabet_obligations"] += 1
            if got is None or not got:
                undec += 1
                continue
            decided += 1
            n = abs(base)
            half = 224 if base > 36 else 0
            for t in got:
                if t == "reject":
                    c.check(False, wf, "alphabet-for-base:%s:%d" % (w, base), "%s returns without converting for the documented base %d" % (w, base), fn=w)
                    continue
                ok = len(t) >= n and t[:n] == want[:n]
                c.check(ok, wf, "alphabet-for-base:%s:%d" % (w, base),
                        "%s writes the digits of base %d with %r, the manual prescribes %r" % (w, base, t[:n].decode("latin1"), want[:n].decode("latin1")), fn=w)
                if ok:
                    bad = [d for d in range(n) if tab[half + t[d]] != d]
                    c.check(not bad, wf, "alphabet-reader:%s:%d" % (w, base),
                            "%s writes digit %s of base %d as %r but the reader's table maps that byte to %d"
                            % (w, bad[:1], base, chr(t[bad[0]]) if bad else "", tab[half + t[bad[0]]] if bad else -1), fn=w)
        if decided == 0:
            raise AnalysisBroken("R-TABLES: the base dispatch of %s could not be evaluated for any base (anchor moved?)" % w)
    c.res["stats"]["alphabet_undecided"] += undec


def check_comb(facts, c, macro_units):
    f = "mpn/generic/comb_tables.c"
    odd = ints(table(facts, "__gmp_oddfac_table"))
    for i, v in enumerate(odd):
        c.check(v == oddpart(fact(i))[0] % B, f, "oddfac[%d]" % i, "__gmp_oddfac_table[%d] must be odd part of %d! mod 2^64 = %d, table has %d"
                % (i, i, oddpart(fact(i))[0] % B, v))
    o2 = ints(table(facts, "__gmp_odd2fac_table"))
    for i, v in enumerate(o2):
        c.check(v == dfact(2 * i + 1), f, "odd2fac[%d]" % i, "__gmp_odd2fac_table[%d] must be %d!! = %d, table has %d" % (i, 2 * i + 1, dfact(2 * i + 1), v))
    c.check(dfact(2 * len(o2) + 1) >= B, f, "odd2fac-complete", "__gmp_odd2fac_table stops early: %d!! still fits a limb" % (2 * len(o2) + 1))
    cnt = ints(table(facts, "__gmp_fac2cnt_table"))
    for i, v in enumerate(cnt):
        n = i + 1
        c.check(v == 2 * n - bin(2 * n).count("1"), f, "fac2cnt[%d]" % i, "__gmp_fac2cnt_table[%d] must be 2n-popc(2n) for n=%d, i.e. %d; table has %d"
                % (i, n, 2 * n - bin(2 * n).count("1"), v))
    roots = ints(table(facts, "__gmp_limbroots_table"))
    for i, v in enumerate(roots):
        c.check(v == iroot(B - 1, i + 1), f, "limbroots[%d]" % i, "__gmp_limbroots_table[%d] must be floor((2^64-1)^(1/%d)) = %d, table has %d"
                % (i, i + 1, iroot(B - 1, i + 1), v))
    ft = ints(table(facts, "table", "mpz/fac_ui.c"))
    for i, v in enumerate(ft):
        c.check(v == fact(i), "mpz/fac_ui.c", "factab[%d]" % i, "mpz_fac_ui table[%d] must be %d! = %d, table has %d" % (i, i, fact(i), v))
    pt = ints(table(facts, "table", "mpz/primorial_ui.c"))
    for i, v in enumerate(pt):
        e = 1
        for p in range(2, i + 1):
            if is_prime(p):
                e *= p
        c.check(v == e, "mpz/primorial_ui.c", "primorialtab[%d]" % i, "mpz_primorial_ui table[%d] must be %d# = %d, table has %d" % (i, i, e, v))
    # bin_uiui tables
    fi = ints(table(facts, "facinv"))
    for i, v in enumerate(fi):
        # "It begins with (2!/2)^-1": entry i inverts the odd part of (i+2)!; readers index it facinv[k - 2]
        c.check(i + 2 < len(odd) and v * odd[i + 2] % B == 1, "mpz/bin_uiui.c", "facinv[%d]" % i,
                "facinv[%d] must be the inverse of __gmp_oddfac_table[%d] (odd part of %d!) modulo 2^64" % (i, i + 2, i + 2))
    kk = ints(table(facts, "bin2kk"))
    kki = ints(table(facts, "bin2kkinv"))
    f2b = ints(table(facts, "fac2bin"))
    mv = {}
    for u, names in macro_units.items():
        mv[u] = {k: macro_int(v) for k, v in macros_of(u, names).items()}
    off = None
    for u, d in mv.items():
        if u.rel == "mpz/bin_uiui.c":
            off = d.get("ODD_CENTRAL_BINOMIAL_OFFSET")
    c.check(off is not None, "mpz/bin_uiui.c", "central-offset", "ODD_CENTRAL_BINOMIAL_OFFSET not found in mpz/bin_uiui.c")
    if off is not None:
        c.check(len(kk) == len(kki) == len(f2b), "mpz/bin_uiui.c", "central-lens", "bin2kk, bin2kkinv and fac2bin must have equal lengths (%d, %d, %d)" % (len(kk), len(kki), len(f2b)))
        for i, v in enumerate(kk):
            k = i + off
            o, t = oddpart(math.comb(2 * k, k))
            c.check(v == o, "mpz/bin_uiui.c", "bin2kk[%d]" % i, "bin2kk[%d] must be the odd part of binomial(%d,%d) = %d, table has %d" % (i, 2 * k, k, o, v))
            if i < len(kki):
                c.check(kki[i] * v % B == 1, "mpz/bin_uiui.c", "bin2kkinv[%d]" % i, "bin2kkinv[%d] must be the inverse of bin2kk[%d] modulo 2^64" % (i, i))
            if i < len(f2b):
                c.check(f2b[i] == t, "mpz/bin_uiui.c", "fac2bin[%d]" % i, "fac2bin[%d] must be the 2-adic valuation of binomial(%d,%d) = %d, table has %d" % (i, 2 * k, k, t, f2b[i]))
    # limit macros agree with the tables, in every unit that defines its own copy
    lim = 0
    while oddpart(fact(lim + 1))[0] < B:
        lim += 1
    dlim = 1
    while dfact(dlim + 2) < B:
        dlim += 2
    expect = {
        "ODD_FACTORIAL_TABLE_LIMIT": (lim, "largest n whose odd part of n! fits a limb"),
        "ODD_FACTORIAL_TABLE_MAX": (oddpart(fact(lim))[0], "odd part of %d!" % lim),
        "ODD_FACTORIAL_EXTTABLE_LIMIT": (len(odd) - 1, "last index of __gmp_oddfac_table"),
        "ODD_DOUBLEFACTORIAL_TABLE_LIMIT": (dlim, "largest odd n with n!! fitting a limb (= 2*len(__gmp_odd2fac_table)-1)"),
        "ODD_DOUBLEFACTORIAL_TABLE_MAX": (dfact(dlim), "%d!!" % dlim),
        "TABLE_LIMIT_2N_MINUS_POPC_2N": (2 * len(cnt) + 1, "2*len(__gmp_fac2cnt_table)+1"),
        "ODD_CENTRAL_BINOMIAL_TABLE_LIMIT": ((off or 0) + len(kk) - 1, "ODD_CENTRAL_BINOMIAL_OFFSET + len(bin2kk) - 1"),
    }
    c.check(2 * len(o2) - 1 == dlim, f, "odd2fac-len", "__gmp_odd2fac_table has %d entries but (2n+1)!! fits a limb up to n=%d" % (len(o2), (dlim - 1) // 2))
    nmac = 0
    for u, d in mv.items():
        for name, val in d.items():
            if name in expect:
                nmac += 1
                e, why = expect[name]
                c.check(val == e, u.rel, "macro:%s:%s" % (name, u.rel), "%s in %s is %s but the tables require %d (%s)" % (name, u.rel, val, e, why))
    c.check(nmac >= 12, "mpz/bin_uiui.c", "macro-floor", "only %d limit-macro definitions found (floor 12): the anchors moved" % nmac)
    c.res["samples"].append(dict(rule="R-TABLES", table="__gmp_oddfac_table", entries=len(odd), limit_macros_checked=nmac))
    return mv


def check_fib(facts, c, mv):
    fib = ints(table(facts, "__gmp_fib_table"))
    F = [1, 0]          # F[-1], F[0]
    while len(F) < len(fib) + 2:
        F.append(F[-1] + F[-2])
    f = "mpn/generic/fib_table.c"
    for i, v in enumerate(fib):
        c.check(v == F[i], f, "fib[%d]" % i, "__gmp_fib_table[%d] must be F(%d) = %d, table has %d" % (i, i - 1, F[i], v))
    limit = len(fib) - 2
    c.check(F[limit + 1] < B <= F[limit + 2], f, "fib-complete", "__gmp_fib_table must end at the largest Fibonacci number fitting a limb (F(%d))" % limit)
    # FIB_TABLE_LIMIT / LUCNUM_LIMIT live in gmp-impl.h: read them from any unit
    u = [x for x in compdb.c_units() if x.rel == "mpz/fib_ui.c"]
    if not u:
        raise AnalysisBroken("mpz/fib_ui.c vanished")
    d = {k: macro_int(v) for k, v in macros_of(u[0], {"FIB_TABLE_LIMIT", "FIB_TABLE_LUCNUM_LIMIT"}).items()}
    c.check(d.get("FIB_TABLE_LIMIT") == limit, "gmp-impl.h", "macro:FIB_TABLE_LIMIT", "FIB_TABLE_LIMIT is %s but __gmp_fib_table holds F(-1)..F(%d)" % (d.get("FIB_TABLE_LIMIT"), limit))
    ll = 0
    while F[ll + 1] + F[ll + 3] < B:      # L(n+1) = F(n) + F(n+2)
        ll += 1
    c.check(d.get("FIB_TABLE_LUCNUM_LIMIT") == ll, "gmp-impl.h", "macro:FIB_TABLE_LUCNUM_LIMIT",
            "FIB_TABLE_LUCNUM_LIMIT is %s but the largest n with L(n) = F(n-1)+F(n+1) < 2^64 is %d" % (d.get("FIB_TABLE_LUCNUM_LIMIT"), ll))
    c.res["samples"].append(dict(rule="R-TABLES", table="__gmp_fib_table", entries=len(fib), FIB_TABLE_LIMIT=d.get("FIB_TABLE_LIMIT")))


def check_misc(facts, c):
    # prime lists
    for name, hint, start in (("primes", "mpz/next_prime_candidate.c", 3), ("primes", "mpz/perfpow.c", 2)):
        p = ints(table(facts, name, hint))
        if p and p[-1] == 0:
            p = p[:-1]                     # terminating sentinel
        exp, n = [], start
        while len(exp) < len(p):
            if is_prime(n):
                exp.append(n)
            n += 1
        for i, v in enumerate(p):
            c.check(v == exp[i], hint, "primes[%d]" % i, "%s primes[%d] must be %d (consecutive primes from %d), table has %d" % (hint, i, exp[i], start, v))
    # quadratic-residue indicator vectors
    for m in (63, 64, 65):
        t = ints(table(facts, "mod%d" % m, "mpz/likely_prime_p.c"))
        sq = {x * x % m for x in range(m)}
        c.check(len(t) == m, "mpz/likely_prime_p.c", "mod%d-len" % m, "mod%d has %d entries" % (m, len(t)))
        # one-sided: the vectors are filters ("0 = cannot be a square"); a 1 on a non-residue only costs time
        # (mod63 has three such entries today), a 0 on a residue rejects true squares
        for i, v in enumerate(t[:m]):
            if i in sq:
                c.check(v != 0, "mpz/likely_prime_p.c", "mod%d[%d]" % (m, i),
                        "mod%d[%d] is 0 but %d is a square modulo %d: n_is_square would reject true squares" % (m, i, i, m))
            else:
                c.res["stats"]["qr_filter_slack" if v else "qr_filter_tight"] += 1
    # inverses of odd bytes
    t = ints(table(facts, "__gmp_modlimb_invert_table"))
    c.check(len(t) == 128, "mp_minv_tab.c", "minv-len", "modlimb_invert_table has %d entries" % len(t))
    for i, v in enumerate(t):
        c.check(v * (2 * i + 1) % 256 == 1, "mp_minv_tab.c", "minv[%d]" % i, "modlimb_invert_table[%d] must be the inverse of %d mod 256" % (i, 2 * i + 1))
    # bit reversal tables of the FFT
    for k in range(5):
        t = ints(table(facts, "revtab%d" % k))
        c.check(len(t) == 1 << k, "fft/revbin.c", "revtab%d-len" % k, "revtab%d has %d entries" % (k, len(t)))
        for i, v in enumerate(t):
            e = int(format(i, "0%db" % k)[::-1], 2) if k else 0
            c.check(v == e, "fft/revbin.c", "revtab%d[%d]" % (k, i), "revtab%d[%d] must be the %d-bit reversal of %d = %d" % (k, i, k, i, e))
    c.res["samples"].append(dict(rule="R-TABLES", table="mod63/mod64/mod65, primes, modlimb_invert_table, revtab0-4"))


def run(prop="C16", tier="quick", parts=("bases", "digits", "comb", "fib", "misc")):
    res = dict(findings=[], stats=collections.Counter(), samples=[], notes=[])
    facts = ir_facts()
    c = Ctx(prop, res)
    names = {"ODD_FACTORIAL_TABLE_LIMIT", "ODD_FACTORIAL_TABLE_MAX", "ODD_FACTORIAL_EXTTABLE_LIMIT",
             "ODD_DOUBLEFACTORIAL_TABLE_LIMIT", "ODD_DOUBLEFACTORIAL_TABLE_MAX", "TABLE_LIMIT_2N_MINUS_POPC_2N",
             "ODD_CENTRAL_BINOMIAL_OFFSET", "ODD_CENTRAL_BINOMIAL_TABLE_LIMIT"}
    mv = None
    if "bases" in parts:
        check_bases(facts, c)
    if "digits" in parts:
        check_digits(facts, c)
    if "comb" in parts:
        pat = re.compile("|".join(sorted(names)))
        mu = {}
        for u in compdb.c_units():
            if u.dir in ("mpz", "mpn") and pat.search(open(u.src, errors="replace").read()):
                mu[u] = names
        mv = check_comb(facts, c, mu)
    if "fib" in parts:
        check_fib(facts, c, mv)
    if "misc" in parts:
        check_misc(facts, c)
    res["stats"] = dict(res["stats"])
    res["obligations"] = c.n + res["stats"].get("sizeinbase_undecided", 0) + res["stats"].get("sizeinbase_proved", 0)
    res["undecided"] = res["stats"].get("sizeinbase_undecided", 0)
    res["exhaustive"] = True
    return res


def run_c06(prop="C06", tier="quick"):
    return run(prop, tier, parts=("bases", "digits"))


def run_c16(prop="C16", tier="quick"):
    return run(prop, tier, parts=("comb", "fib", "misc"))


# ---------------------------------------------------------------------------------------------
# C10: the per-limb operator of each mpn logical kernel has the documented truth table
LOGIC = {
    "__gmpn_and_n": lambda a, b: a & b, "__gmpn_andn_n": lambda a, b: a & (1 - b), "__gmpn_nand_n": lambda a, b: 1 - (a & b),
    "__gmpn_ior_n": lambda a, b: a | b, "__gmpn_iorn_n": lambda a, b: a | (1 - b), "__gmpn_nior_n": lambda a, b: 1 - (a | b),
    "__gmpn_xor_n": lambda a, b: a ^ b, "__gmpn_xnor_n": lambda a, b: 1 - (a ^ b), "__gmpn_com_n": lambda a, b: 1 - a,
}


def run_logic(prop="C10", tier="quick"):
    res = dict(findings=[], stats=collections.Counter(), samples=[], notes=[])
    ex = sa.export(sa.cfg_built())
    seen = set()
    for path, fn in ex.functions(lambda p: "/mpn/" in p):
        if fn["name"] not in LOGIC:
            continue
        seen.add(fn["name"])
        # pointer temporaries initialised from the parameters: __d <- rp, __s1 <- up, __s2 <- vp
        role = {p["id"]: i for i, p in enumerate(fn["params"])}
        changed = True
        while changed:
            changed = False
            for b in fn["blocks"]:
                for el in b["elems"]:
                    if el["e"].get("k") == "decl":
                        for d in el["e"]["decls"]:
                            i = d.get("init")
                            while isinstance(i, dict) and i.get("k") == "cast":
                                i = i["e"]
                            if isinstance(i, dict) and i.get("k") == "var" and i["id"] in role and d["var"]["id"] not in role:
                                role[d["var"]["id"]] = role[i["id"]]
                                changed = True
        stores = []
        valrole = {}      # scalar temporaries holding a limb loaded from a source:  ul = *up++
        for b in fn["blocks"]:
            for el in b["elems"]:
                e = el["e"]
                if e.get("k") == "binop" and e["op"] == "=" and e["l"].get("k") == "unop" and e["l"]["op"] == "*":
                    stores.append((el["line"], e))
                if e.get("k") == "binop" and e["op"] == "=" and e["l"].get("k") == "var" and e["r"].get("k") == "unop" and e["r"]["op"] == "*":
                    x = e["r"]["e"]
                    while x.get("k") == "unop" and x["op"] in ("post++", "pre++"):
                        x = x["e"]
                    if x.get("k") == "var" and role.get(x["id"]) in (1, 2):
                        valrole[e["l"]["id"]] = role[x["id"]]

        def ev(n, a, b):
            k = n.get("k")
            if k == "int":
                v = n["v"] & ((1 << 64) - 1)
                if v == (1 << 64) - 1:
                    return 1
                if v == 0:
                    return 0
                raise ValueError("constant %d" % v)
            if k == "cast":
                return ev(n["e"], a, b)
            if k == "var" and n["id"] in valrole:
                return a if valrole[n["id"]] == 1 else b
            if k == "unop" and n["op"] == "~":
                return 1 - ev(n["e"], a, b)
            if k == "unop" and n["op"] == "*":
                x = n["e"]
                while x.get("k") == "unop" and x["op"] in ("post++", "pre++"):
                    x = x["e"]
                if x.get("k") == "var" and role.get(x["id"]) == 1:
                    return a
                if x.get("k") == "var" and role.get(x["id"]) == 2:
                    return b
                raise ValueError("load from unknown pointer")
            if k == "binop" and n["op"] in ("&", "|", "^"):
                l, r = ev(n["l"], a, b), ev(n["r"], a, b)
                return l & r if n["op"] == "&" else l | r if n["op"] == "|" else l ^ r
            raise ValueError("not a bitwise term: %s" % k)
        want = LOGIC[fn["name"]]
        ok_store = None
        for line, e in stores:
            try:
                tt = [ev(e["r"], a, b) for a in (0, 1) for b in (0, 1)]
            except ValueError:
                continue
            ok_store = (line, tt)
            res["stats"]["truth_rows"] += 4
            exp = [want(a, b) for a in (0, 1) for b in (0, 1)]
            if tt != exp:
                res["findings"].append(Finding(prop, "R-TABLES.logic", fn["file"], line, fn["name"], "truth-table",
                                               "%s stores a limb whose truth table over (s1,s2)=(0,0),(0,1),(1,0),(1,1) is %s; the documented "
                                               "operator requires %s" % (fn["name"], tt, exp)))
            # destination must be the first parameter
            x = e["l"]["e"]
            while x.get("k") == "unop":
                x = x["e"]
            if not (x.get("k") == "var" and role.get(x["id"]) == 0):
                res["findings"].append(Finding(prop, "R-TABLES.logic", fn["file"], line, fn["name"], "dest",
                                               "%s stores through a pointer that is not derived from its destination parameter" % fn["name"]))
        if ok_store is None:
            raise AnalysisBroken("R-TABLES.logic: no pure bitwise store found in %s" % fn["name"])
        res["samples"].append(dict(rule="R-TABLES.logic", function=fn["name"], line=ok_store[0], truth_table=ok_store[1]))
    if len(seen) != len(LOGIC):
        # kernels provided in assembly on this host are decided by neither this rule nor any other
        res["notes"].append("not built from C in this configuration: %s" % sorted(set(LOGIC) - seen))
    if len(seen) < 5:
        raise AnalysisBroken("R-TABLES.logic: only %d of the 9 logical kernels found as C functions" % len(seen))
    res["stats"] = dict(res["stats"])
    res["obligations"] = res["stats"].get("truth_rows", 0)
    res["exhaustive"] = True
    return res


# ---------------------------------------------------------------------------------------------
# R-TABIDX.digit (C06): every index into the digit-value table is a byte (0..255) - the table has exactly
# 224 + 256 entries, so an index that can be negative (a plain `char` on this ABI) reads outside it and turns
# invalid bytes into accepted digits.
GETC = {"getc", "fgetc", "_IO_getc", "getc_unlocked", "fgetc_unlocked"}


def eof_guard(prop, ex, res):
    """A getc result is used as an index into the digit-value table only where the path has established that it is not EOF (-1): at the
    end of the input the conversion must stop with what it has (or fail), not look up table[-1].  Must-dataflow per function: a variable
    is 'checked' after the edge of c != EOF / c == EOF (false) / c >= 0 / c < 0 (false) and until it is assigned again."""
    import r_divzero

    def strip(e):
        while isinstance(e, dict) and e.get("k") in ("cast", "paren"):
            e = e["e"]
        return e
    for path, fn in ex.functions(lambda p: any(d in p for d in ("/mpz/", "/mpq/", "/mpf/", "/scanf/"))):
        gvars = set()
        for b in fn["blocks"]:
            for el in b["elems"]:
                def g(n):
                    if n.get("k") == "binop" and n["op"] == "=" and strip(n["l"]).get("k") == "var" and strip(n["r"]).get("k") == "call" \
                            and strip(n["r"]).get("callee") in GETC:
                        gvars.add(strip(n["l"])["id"])
                sa.walk(el["e"], g)
        if not gvars:
            continue
        blocks = sa.blocks_by_id(fn)

        def tab_index_vars(e):
            out = []

            def f(n):
                if n.get("k") != "index":
                    return
                bs = strip(n["base"])
                if not (isinstance(bs, dict) and bs.get("k") == "var" and ("digit_value" in bs.get("name", ""))):
                    return
                sa.walk(n["idx"], lambda m: out.append(m["id"]) if m.get("k") == "var" and m["id"] in gvars else None)
            sa.walk(e, f)
            return out

        def refine(cond, truth, st):
            c = sa.strip_expect(cond)
            while isinstance(c, dict) and c.get("k") == "unop" and c["op"] == "!":
                c = sa.strip_expect(c["e"])
                truth = not truth
            c = strip(c)
            if not isinstance(c, dict) or c.get("k") != "binop" or c["op"] not in ("==", "!=", "<", ">="):
                return st
            l, r = strip(c["l"]), strip(c["r"])
            if l.get("k") == "int" and r.get("k") == "var":
                l, r = r, l
                if c["op"] in ("<", ">="):
                    return st
            if l.get("k") != "var" or l["id"] not in gvars or r.get("k") != "int":
                return st
            ok = (c["op"] == "!=" and r["v"] == -1 and truth) or (c["op"] == "==" and r["v"] == -1 and not truth) or \
                 (c["op"] == ">=" and r["v"] == 0 and truth) or (c["op"] == "<" and r["v"] == 0 and not truth)
            return st | {l["id"]} if ok else st
        IN = {fn["entry"]: frozenset()}
        work = {fn["entry"]}
        reported = set()
        while work:
            bid = max(work)
            work.discard(bid)
            b = blocks[bid]
            st = IN[bid]
            for el in b["elems"]:
                for v in tab_index_vars(el["e"]):
                    res["stats"]["eof_guard_obligations"] += 0 if (bid, el["line"], v) in reported else 1
                    if v not in st and (el["line"], v) not in reported:
                        res["findings"].append(Finding(prop, "R-TABIDX.digit", fn["file"], el["line"], fn["name"], "eof-unguarded-index",
                                                       "a getc result indexes the digit-value table at line %d on a path that has not compared it with EOF "
                                                       "since it was read: at the end of the input the lookup is table[-1]" % el["line"]))
                    reported.add((bid, el["line"], v))
                    reported.add((el["line"], v))

                def kill(n):
                    nonlocal st
                    if n.get("k") == "binop" and n["op"].endswith("=") and n["op"] not in ("==", "!=", "<=", ">=") and strip(n["l"]).get("k") == "var":
                        st = st - {strip(n["l"])["id"]}
                sa.walk(el["e"], kill)
            if b.get("noreturn"):
                continue
            t = b.get("term")
            cond = sa.effective_cond(t) if t and t.get("cond") and len(b["succs"]) == 2 else None
            for si, s_ in enumerate(b["succs"]):
                if not isinstance(s_, int) or s_ == fn["exit"]:
                    continue
                o = refine(cond, si == 0, st) if cond is not None else st
                cur = IN.get(s_)
                new = o if cur is None else (cur & o)
                if cur is None or new != cur:
                    IN[s_] = frozenset(new)
                    work.add(s_)


def run_digit_index(prop="C06", tier="quick"):
    res = dict(findings=[], stats=collections.Counter(), samples=[], notes=[])
    ex = sa.export(sa.cfg_built())

    def byte_typed(e):
        while isinstance(e, dict) and e.get("k") == "binop" and e["op"] in ("=", ","):
            e = e["r"]
        if not isinstance(e, dict):
            return False
        k = e.get("k")
        if k == "int":
            return 0 <= e["v"] <= 255
        if k == "cast":
            return e.get("ct") == "unsigned char" or (e.get("ct") in ("int", "unsigned int", "long", "unsigned long") and byte_typed(e["e"]))
        if k == "unop" and e["op"] == "*":
            x = e["e"]
            while isinstance(x, dict) and x.get("k") == "unop" and x["op"] in ("post++", "pre++", "post--", "pre--"):
                x = x["e"]
            if isinstance(x, dict) and x.get("k") == "cast":
                return "unsigned char *" in x.get("ct", "")
            return isinstance(x, dict) and x.get("k") == "var" and "unsigned char *" in x.get("ct", "")
        if k == "index":
            b = e["base"]
            return isinstance(b, dict) and b.get("k") in ("var", "cast") and "unsigned char" in b.get("ct", "")
        if k == "call":
            return e.get("callee") in GETC
        if k == "var":
            return e.get("ct") == "unsigned char"
        return False

    for path, fn in ex.functions(lambda p: any(d in p for d in ("/mpz/", "/mpq/", "/mpf/", "/scanf/", "/mpn/"))):
        tabvars = set()
        for b in fn["blocks"]:
            for el in b["elems"]:
                def g(n):
                    src = None
                    if n.get("k") == "binop" and n["op"] == "=" and n["l"].get("k") == "var":
                        src, dst = n["r"], n["l"]
                    elif n.get("k") == "decl":
                        for d in n["decls"]:
                            if "init" in d and "__gmp_digit_value_tab" in json.dumps(d["init"]):
                                tabvars.add(d["var"]["id"])
                        return
                    if src is not None and "__gmp_digit_value_tab" in json.dumps(src):
                        tabvars.add(dst["id"])
                sa.walk(el["e"], g)
        if not tabvars and "__gmp_digit_value_tab" not in json.dumps(fn["blocks"]):
            continue
        # definitions of every integer variable
        defs = collections.defaultdict(list)
        for b in fn["blocks"]:
            for el in b["elems"]:
                def h(n, el=el):
                    if n.get("k") == "binop" and n["op"] == "=" and n["l"].get("k") == "var":
                        defs[n["l"]["id"]].append((el["line"], n["r"]))
                    elif n.get("k") == "binop" and n["op"].endswith("=") and n["op"] not in ("==", "!=", "<=", ">=") and n["l"].get("k") == "var":
                        defs[n["l"]["id"]].append((el["line"], None))
                    elif n.get("k") == "decl":
                        for d in n["decls"]:
                            if "init" in d:
                                defs[d["var"]["id"]].append((el["line"], d["init"]))
                sa.walk(el["e"], h)
        def interval(e, depth):
            """[lo, hi] of an index expression built from byte-typed parts, constants, +, ?: and variables all of whose definitions
            have an interval; None otherwise"""
            while isinstance(e, dict) and e.get("k") == "cast" and e.get("ct") in ("int", "unsigned int", "long", "unsigned long", "size_t"):
                e = e["e"]
            if not isinstance(e, dict) or depth > 4:
                return None
            k = e.get("k")
            if k == "int":
                return (e["v"], e["v"])
            if byte_typed(e):
                return (0, 255)
            if k == "binop" and e["op"] == "+":
                a, b_ = interval(e["l"], depth + 1), interval(e["r"], depth + 1)
                return None if a is None or b_ is None else (a[0] + b_[0], a[1] + b_[1])
            if k == "cond":
                a, b_ = interval(e["a"], depth + 1), interval(e["b"], depth + 1)
                return None if a is None or b_ is None else (min(a[0], b_[0]), max(a[1], b_[1]))
            if k == "var":
                ds = defs.get(e["id"], [])
                if not ds:
                    return None
                ivs = [interval(r, depth + 1) if r is not None else None for _, r in ds]
                if any(v is None for v in ivs):
                    return None
                return (min(v[0] for v in ivs), max(v[1] for v in ivs))
            return None

        for b in fn["blocks"]:
            elems = [(el["line"], el["e"]) for el in b["elems"]]
            t = b.get("term")
            if t and t.get("cond"):
                elems.append((t["line"], t["cond"]))
            for line, e in elems:
                def f(n, line=line):
                    if n.get("k") != "index":
                        return
                    bs = n["base"]
                    while isinstance(bs, dict) and bs.get("k") == "cast":
                        bs = bs["e"]
                    is_tab = isinstance(bs, dict) and bs.get("k") == "var" and (bs["id"] in tabvars or bs["name"] == "__gmp_digit_value_tab")
                    if not is_tab:
                        return
                    res["stats"]["table_reads"] += 1
                    idx = n["idx"]
                    ok = byte_typed(idx)
                    bad = None
                    if not ok and idx.get("k") == "var":
                        ds = defs.get(idx["id"], [])
                        badd = [(l, r) for (l, r) in ds if r is None or not byte_typed(r)]
                        ok = bool(ds) and not badd
                        bad = badd[0][0] if badd else None
                    if not ok:
                        # digit_value_tab[offset + c] with offset in {0, 224}: an interval over byte-typed parts and small constants
                        iv = interval(idx, 0)
                        direct = isinstance(bs, dict) and bs.get("name") == "__gmp_digit_value_tab"
                        if iv is not None and iv[0] >= 0 and iv[1] <= (479 if direct else 255):
                            ok = True
                    if not ok:
                        nm = idx.get("name", "<expr>")
                        res["findings"].append(Finding(prop, "R-TABIDX.digit", fn["file"], line, fn["name"], "digit-index:%s" % nm,
                                                       "digit-value table is indexed with %s at line %d, which is not confined to 0..255%s: a byte >= 0x80 "
                                                       "held in a plain char indexes before the table and invalid input is accepted as a digit"
                                                       % (nm, line, " (assigned at line %d without an unsigned char conversion)" % bad if bad else "")))
                sa.walk(e, f)
    eof_guard(prop, ex, res)
    if res["stats"]["table_reads"] < 8:
        raise AnalysisBroken("R-TABIDX.digit found only %d reads of the digit-value table (floor 8)" % res["stats"]["table_reads"])
    res["stats"] = dict(res["stats"])
    res["obligations"] = res["stats"]["table_reads"]
    res["samples"].append(dict(rule="R-TABIDX.digit", table_reads=res["stats"]["table_reads"]))
    res["exhaustive"] = True
    return res
