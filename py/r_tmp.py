"""R-TMP (C04, C14, C17): the TMP_DECL/TMP_MARK/TMP_ALLOC/TMP_FREE protocol is followed on
every CFG path, evaluated in the malloc-reentrant model (every TMP_*ALLOC a call to
__gmp_tmp_reentrant_alloc, TMP_FREE an unconditional __gmp_tmp_reentrant_free), which is the
strictest of the three temporary-memory build modes; plus no use of a TMP-derived pointer after
TMP_FREE and no escape of one into memory that outlives the call.

Typestate per function:  U (no mark) -> M (marked) -> A (allocated) -> F (freed);  a new
TMP_MARK restarts at M (mpz_oddfac_1 marks/frees inside a loop)."""
import collections

import sa
from core import *

ALLOC_FNS = {"__gmp_tmp_reentrant_alloc", "__gmp_tmp_debug_alloc", "__gmp_tmp_alloc"}
FREE_FNS = {"__gmp_tmp_reentrant_free", "__gmp_tmp_debug_free", "__gmp_tmp_free"}
MARK_FNS = {"__gmp_tmp_debug_mark", "__gmp_tmp_mark"}


def base_var(e):
    """variable at the root of an lvalue / pointer expression, or None"""
    while isinstance(e, dict):
        k = e.get("k")
        if k == "var":
            return e
        if k in ("member", "index"):
            e = e["base"]
        elif k == "unop" and e["op"] in ("*", "&", "post++", "post--", "pre++", "pre--"):
            e = e["e"]
        elif k == "cast":
            e = e["e"]
        elif k == "binop" and e["op"] in ("+", "-"):
            # pointer arithmetic: the pointer side
            l = base_var(e["l"])
            if l is not None and ("*" in l.get("ct", "") or "[" in l.get("ct", "")):
                return l
            r = base_var(e["r"]) if e["op"] == "+" else None
            if r is not None and ("*" in r.get("ct", "") or "[" in r.get("ct", "")):
                return r
            return l
        elif k == "binop" and e["op"] in ("=", "+=", "-="):
            e = e["l"]
        elif k == "cond":
            return base_var(e["a"]) or base_var(e["b"])
        else:
            return None
    return None


def is_ptrish(v):
    ct = v.get("ct", "")
    return "*" in ct or "[" in ct or "struct" in ct


def marker_of(call):
    """id of the __tmp_marker variable a TMP call refers to (nested TMP_DECLs shadow each other)"""
    ids = []

    def f(n):
        if n.get("k") == "var" and n["name"].startswith("__tmp_marker"):
            ids.append(n["id"])
    for a in call.get("args", ()):
        sa.walk(a, f)
    return ids[0] if ids else 0


def elem_events(el):
    """list of (kind, node, line, marker) for one CFG element ('calls are their own elements')"""
    e = el["e"]
    out = []
    if e.get("k") == "call":
        c = e.get("callee")
        if c in ALLOC_FNS:
            out.append(("alloc", e, el["line"], marker_of(e)))
        elif c in FREE_FNS:
            out.append(("free", e, el["line"], marker_of(e)))
        elif c in MARK_FNS:
            out.append(("mark", e, el["line"], marker_of(e)))
        return out

    def f(n):
        if n is not e and n.get("k") == "call":
            return False
        if n.get("k") == "binop" and n["op"] == "=" and n["l"].get("k") == "var" and n["l"]["name"] == "__tmp_marker":
            out.append(("mark", n, el["line"], n["l"]["id"]))
    sa.walk(e, f)
    return out


def alloc_marker(e):
    """marker id if e evaluates directly to a fresh TMP block (through casts / ?:), else None"""
    while isinstance(e, dict):
        k = e.get("k")
        if k == "call":
            return marker_of(e) if e.get("callee") in ALLOC_FNS else None
        if k == "cast":
            e = e["e"]
        elif k == "cond":
            return alloc_marker(e["a"]) or alloc_marker(e["b"])
        else:
            return None
    return None


class Taint:
    """key = (var id, field or None) -> (marker id, alloc line, var name)"""

    def __init__(self, d=None, pt=None):
        self.d = dict(d or {})
        self.pt = dict(pt or {})      # pointer variable id -> local object variable it points to (mpz_ptr __x = (X))

    def _target(self, lhs_base):
        """local object a member access goes to: the object itself, or the unique target of a local pointer"""
        b = base_var(lhs_base)
        if b is None:
            return None
        ct = b.get("ct", "")
        if b.get("param") is None and not b.get("global") and ("[1]" in ct or "*" not in ct):
            return b
        return self.pt.get(b["id"])

    def marker_of_expr(self, e):
        """(marker, line) if e is definitely a pointer into a TMP block under this taint map"""
        if not isinstance(e, dict):
            return None
        k = e.get("k")
        if k == "call":
            m = alloc_marker(e)
            return (m, e.get("line", 0)) if m is not None else None
        if k == "var":
            t = self.d.get((e["id"], None))
            return (t[0], t[1]) if t and "*" in e.get("ct", "") else None
        if k == "cast":
            return self.marker_of_expr(e["e"])
        if k == "cond":
            a, b = self.marker_of_expr(e["a"]), self.marker_of_expr(e["b"])
            return a if a and b and a[0] == b[0] else None
        if k == "binop" and e["op"] in ("+", "-"):
            return self.marker_of_expr(e["l"]) or (self.marker_of_expr(e["r"]) if e["op"] == "+" else None)
        if k == "binop" and e["op"] in ("=", ","):
            return self.marker_of_expr(e["r"])
        if k == "unop" and e["op"] in ("post++", "post--", "pre++", "pre--"):
            return self.marker_of_expr(e["e"])
        if k == "member" and e["base"].get("k") in ("var", "index", "unop", "cast"):
            b = self._target(e["base"])
            if b is not None:
                t = self.d.get((b["id"], e["field"]))
                return (t[0], t[1]) if t else None
        if k == "unop" and e["op"] == "&" and e["e"].get("k") == "index":
            return self.marker_of_expr(e["e"]["base"])
        return None

    def assign(self, lhs, rhs, line):
        """transfer of  lhs = rhs"""
        m = self.marker_of_expr(rhs)
        key = None
        if lhs.get("k") == "var":
            key = (lhs["id"], None)
            name = lhs["name"]
            # pointer to a local object?
            r = rhs
            while isinstance(r, dict) and r.get("k") == "cast":
                r = r["e"]
            tgt = None
            if isinstance(r, dict) and r.get("k") == "var" and "[1]" in r.get("ct", "") and r.get("param") is None:
                tgt = r
            elif isinstance(r, dict) and r.get("k") == "unop" and r["op"] == "&" and r["e"].get("k") == "var" \
                    and r["e"].get("param") is None and "*" not in r["e"].get("ct", ""):
                tgt = r["e"]
            elif isinstance(r, dict) and r.get("k") == "var" and r["id"] in self.pt:
                tgt = self.pt[r["id"]]
            if tgt is not None:
                self.pt[lhs["id"]] = tgt
            else:
                self.pt.pop(lhs["id"], None)
        elif lhs.get("k") == "member":
            # only fields of LOCAL objects (x->_mp_d of a local mpz_t, ctx.tp, or through a local pointer that
            # names exactly one local object); a field of a parameter object is an escape, handled separately
            b = self._target(lhs["base"]) if lhs["base"].get("k") in ("var", "index", "unop", "cast") else None
            if b is not None:
                key = (b["id"], lhs["field"])
                name = b["name"] + "." + lhs["field"]
        if key is None:
            return
        if m:
            self.d[key] = (m[0], m[1] or line, name)
        else:
            self.d.pop(key, None)

    def meet(self, other):
        """MAY join: union (first value wins on conflict)"""
        d = dict(other.d)
        d.update(self.d)
        pt = dict(other.pt)
        pt.update(self.pt)
        return Taint(d, pt)

    def refine_eq(self, cond, truth):
        """taint after learning that `cond` evaluated to `truth`: var == <expression that is not a TMP pointer>
        (the repository's own ASSERT (rp == PTR(r) + ...) idiom) clears the variable"""
        c = sa.strip_expect(cond)
        neg = False
        while isinstance(c, dict) and c.get("k") == "unop" and c["op"] == "!":
            c = sa.strip_expect(c["e"])
            neg = not neg
        if not isinstance(c, dict) or c.get("k") != "binop" or c["op"] not in ("==", "!="):
            return self
        eq = (c["op"] == "==") == (truth != neg)
        if not eq:
            return self
        for a, b in ((c["l"], c["r"]), (c["r"], c["l"])):
            if a.get("k") == "var" and (a["id"], None) in self.d and self.marker_of_expr(b) is None \
                    and b.get("k") != "int":
                t = Taint(self.d, self.pt)
                del t.d[(a["id"], None)]
                return t
        return self

    def __eq__(self, o):
        return self.d == o.d and self.pt == o.pt


def may_tmp_expr(fn):
    """flow-insensitive MAY analysis used only for the escape rule"""
    taint = set()

    def is_t(e):
        if not isinstance(e, dict):
            return False
        k = e.get("k")
        if k == "call":
            return e.get("callee") in ALLOC_FNS
        if k == "var":
            return e["id"] in taint and "*" in e.get("ct", "")
        if k == "cast":
            return is_t(e["e"])
        if k == "cond":
            return is_t(e["a"]) or is_t(e["b"])
        if k == "binop" and e["op"] in ("+", "-"):
            return is_t(e["l"]) or (e["op"] == "+" and is_t(e["r"]))
        if k == "binop" and e["op"] in ("=", ","):
            return is_t(e["r"])
        if k == "unop" and e["op"] in ("post++", "post--", "pre++", "pre--"):
            return is_t(e["e"])
        return False
    changed, rounds = True, 0
    while changed and rounds < 20:
        changed = False
        rounds += 1
        for b in fn["blocks"]:
            for el in b["elems"]:
                def f(n):
                    nonlocal changed
                    if n.get("k") == "binop" and n["op"] == "=" and n["l"].get("k") == "var" and is_t(n["r"]) \
                            and n["l"]["id"] not in taint and n["l"].get("param") is None:
                        taint.add(n["l"]["id"])
                        changed = True
                    if n.get("k") == "decl":
                        for d in n["decls"]:
                            if "init" in d and is_t(d["init"]) and d["var"]["id"] not in taint:
                                taint.add(d["var"]["id"])
                                changed = True
                sa.walk(el["e"], f)
    return is_t


def analyse_function(path, fn, prop, res):
    blocks = sa.blocks_by_id(fn)
    if not blocks:
        return
    evs = [ev for b in fn["blocks"] for el in b["elems"] for ev in elem_events(el)]
    nalloc = sum(1 for k, *_ in evs if k == "alloc")
    nmark = sum(1 for k, *_ in evs if k == "mark")
    nfree = sum(1 for k, *_ in evs if k == "free")
    if not (nalloc or nmark or nfree):
        return
    markers = sorted({m for _, _, _, m in evs})
    res["stats"]["functions_with_tmp"] += 1
    res["stats"]["alloc_sites"] += nalloc
    res["stats"]["free_sites"] += nfree
    F = res["findings"]
    name, file = fn["name"], fn["file"]
    reported = set()

    def report(key, sig, line, what):
        if key not in reported:
            reported.add(key)
            F.append(Finding(prop, "R-TMP", file, line, name, sig, what))

    is_may = may_tmp_expr(fn)
    # state: tuple over markers of (phase, alloc_line); IN[block] = set of states; MUST[block] = Taint (meet over preds)
    init = tuple(("U", 0) for _ in markers)
    mi = {m: i for i, m in enumerate(markers)}
    IN = collections.defaultdict(set)
    MUST = {}
    IN[fn["entry"]].add(init)
    MUST[fn["entry"]] = Taint()
    work = [fn["entry"]]
    exits = 0
    iters = 0
    while work:
        iters += 1
        if iters > 20000:
            raise AnalysisBroken("R-TMP: fixpoint budget exceeded in %s" % name)
        bid = work.pop()
        b = blocks[bid]
        states = set(IN[bid])
        must = Taint(MUST[bid].d, MUST[bid].pt)
        for el in b["elems"]:
            e = el["e"]
            my = elem_events(el)
            # ---- definite use of a dangling TMP pointer --------------------------------------
            if must.d and not any(k == "free" for k, *_ in my):
                freed = {m for m in markers if states and all(st[mi[m]][0] == "F" for st in states)}
                if freed:
                    def use(n, how):
                        key = None
                        if n.get("k") == "var":
                            key = (n["id"], None)
                        elif n.get("k") == "member":
                            bv = base_var(n)
                            if bv is not None:
                                key = (bv["id"], n["field"])
                        t = must.d.get(key) if key else None
                        if t and t[0] in freed:
                            report(("uaf", t[2], el["line"]), "use-after-free:%s" % t[2], el["line"],
                                   "%s holds a TMP block (allocated line %d) and is %s at line %d after TMP_FREE: fine with alloca, "
                                   "a use-after-free under --enable-alloca=malloc-reentrant/debug" % (t[2], t[1], how, el["line"]))

                    def scan(n, lhs_top=False):
                        """reads of dangling pointers inside n"""
                        k = n.get("k")
                        if k == "call" and n is not e:
                            return
                        if k == "binop" and n["op"] == "=":
                            scan(n["r"])
                            if n["l"].get("k") == "var":
                                return           # redefinition
                            if n["l"].get("k") == "member" and n["l"]["base"].get("k") == "var":
                                return           # field redefinition
                            scan(n["l"])
                            return
                        if k == "var" and "*" in n.get("ct", ""):
                            use(n, "used")
                            return
                        if k == "member":
                            use(n, "read")
                        if k == "var" and "[1]" in n.get("ct", ""):
                            # mpz_t local passed on / accessed: its _mp_d is dangling
                            for (vid, fld), t in list(must.d.items()):
                                if vid == n["id"] and fld == "_mp_d" and t[0] in freed:
                                    report(("uaf", t[2], el["line"]), "use-after-free:%s" % t[2], el["line"],
                                           "%s holds a TMP block (allocated line %d) and the object is used at line %d after TMP_FREE"
                                           % (t[2], t[1], el["line"]))
                        for key in ("l", "r", "e", "base", "idx", "c", "a", "b"):
                            if isinstance(n.get(key), dict):
                                scan(n[key])
                        for x in n.get("args", ()):
                            scan(x)
                        for d in n.get("decls", ()):
                            if "init" in d:
                                scan(d["init"])
                    if e.get("k") == "call":
                        for a in e["args"]:
                            scan(a)
                    else:
                        scan(e)
            # ---- phase transitions ------------------------------------------------------------
            for kind, node, line, m in my:
                i = mi[m]
                new = set()
                for st in states:
                    ph, al = st[i]
                    if kind == "mark":
                        if ph == "A":
                            report(("remark", line), "mark-while-allocated", line,
                                   "TMP_MARK at line %d while blocks allocated at line %d are still held (they are leaked)" % (line, al))
                        nph = ("M", 0)
                    elif kind == "alloc":
                        if ph == "U":
                            report(("nomark", line), "alloc-before-mark", line, "TMP_ALLOC at line %d on a path with no TMP_MARK" % line)
                        elif ph == "F":
                            report(("afterfree", line), "alloc-after-free", line,
                                   "TMP_ALLOC at line %d after TMP_FREE without a new TMP_MARK" % line)
                        nph = ("A", al if ph == "A" else line)
                    else:
                        if ph == "U":
                            report(("freenomark", line), "free-before-mark", line,
                                   "TMP_FREE at line %d on a path with no TMP_MARK (uninitialised marker)" % line)
                        elif ph == "F":
                            report(("dfree", line), "double-free", line,
                                   "TMP_FREE at line %d on a path that already passed a TMP_FREE of the same marker" % line)
                        nph = ("F", al)
                    new.add(st[:i] + (nph,) + st[i + 1:])
                states = new
            # ---- must-taint transfer, escapes ---------------------------------------------------
            def tr(n):
                if n is not e and n.get("k") == "call":
                    return False
                if n.get("k") == "binop" and n["op"] == "=":
                    must.assign(n["l"], n["r"], el["line"])
                    if is_may(n["r"]) and n["l"].get("k") != "var":
                        v = base_var(n["l"])
                        if v is not None and (v.get("param") is not None or v.get("global") or v.get("static_local")):
                            res["stats"]["escapes_seen"] += 1
                            report(("escape", v["name"], el["line"]), "escape:%s" % v["name"], el["line"],
                                   "a TMP-derived pointer is stored into %s (line %d), memory that outlives the call" % (v["name"], el["line"]))
                elif n.get("k") == "binop" and n["op"] in ("+=", "-=") and n["l"].get("k") == "var":
                    pass                        # pointer stays inside its block
                elif n.get("k") == "decl":
                    for d in n["decls"]:
                        if "init" in d:
                            must.assign(d["var"], d["init"], el["line"])
                elif n.get("k") == "return" and is_may(n.get("e")):
                    report(("ret", el["line"]), "return-tmp", el["line"], "a TMP-derived pointer is returned (line %d)" % el["line"])
            if e.get("k") == "call":
                # objects whose address goes to a callee may have their fields rewritten
                for a in e["args"]:
                    bv = base_var(a)
                    if bv is not None and (a.get("k") == "unop" and a["op"] == "&" or "[1]" in bv.get("ct", "")):
                        for key in [k for k in must.d if k[0] == bv["id"] and k[1] is not None]:
                            pass   # the block stays TMP even if the callee updates sizes; keep the taint
                    sa.walk(a, tr)
            else:
                sa.walk(e, tr)
        if b.get("noreturn"):
            continue
        tcond = sa.effective_cond(b.get("term")) if len(b["succs"]) == 2 else None
        for si, s in enumerate(b["succs"]):
            if not isinstance(s, int):
                continue
            must_out = must.refine_eq(tcond, si == 0) if tcond else must
            if s == fn["exit"]:
                exits += 1
                for st in states:
                    for m in markers:
                        ph, al = st[mi[m]]
                        if ph == "A":
                            line = b["elems"][-1]["line"] if b["elems"] else fn["endline"]
                            report(("leak", line), "leak-on-exit:%d" % (1 + sum(1 for k in reported if k[0] == "leak")), line,
                                   "exit at line %d is reachable with TMP blocks allocated at line %d still held: no TMP_FREE on this path "
                                   "(leaks for requests >= 64 KiB in the alloca build, always under malloc-reentrant)" % (line, al))
                continue
            ch = False
            if not states <= IN[s]:
                IN[s] |= states
                ch = True
            if s not in MUST:
                MUST[s] = Taint(must_out.d, must_out.pt)
                ch = True
            else:
                mt = MUST[s].meet(must_out)
                if not (mt == MUST[s]):
                    MUST[s] = mt
                    ch = True
            if ch:
                work.append(s)
    res["stats"]["exits_checked"] += exits
    if len(res["samples"]) < 8 and nalloc:
        res["samples"].append(dict(rule="R-TMP", function=name, file=relpath(file), allocs=nalloc, frees=nfree, marks=nmark,
                                   exits=exits, markers=len(markers)))


FIXTURE = os.path.join(VERIF, "selftest", "fixtures", "tmp_fix.c")
FIXTURE_EXPECT = {"fix_tmp_leak": "leak-on-exit", "fix_tmp_uaf": "use-after-free:sp", "fix_tmp_escape": "escape:w",
                  "fix_tmp_good": None, "fix_tmp_zero": "zero-size"}


def run(prop="C04", tier="quick", modes=None, only=None):
    res = dict(findings=[], stats=collections.Counter(), samples=[], notes=[])
    cfg = sa.cfg_tmp("reentrant", with_assert=True)
    cfg.extra_files = [FIXTURE]
    ex = sa.export(cfg)
    sa.check_errors(ex)
    for path, fn in ex.functions():
        if only and not only(path) and path != FIXTURE:
            continue
        analyse_function(path, fn, prop, res)
        zero_sized(path, fn, prop, res)
    # positive / negative fixtures must behave exactly as recorded, else the rule itself is broken
    fx = [f for f in res["findings"] if f.file == FIXTURE]
    res["findings"] = [f for f in res["findings"] if f.file != FIXTURE]
    for fname, exp in FIXTURE_EXPECT.items():
        got = [f.signature for f in fx if f.function == fname]
        if exp is None and got:
            raise AnalysisBroken("R-TMP fires on its negative fixture %s: %s" % (fname, got))
        if exp is not None and not any(exp in g for g in got):
            raise AnalysisBroken("R-TMP no longer fires on its positive fixture %s (expected %s, got %s)" % (fname, exp, got))
    res["notes"].append("fixtures: %d positive fired, 1 negative silent" % sum(1 for v in FIXTURE_EXPECT.values() if v))
    res["stats"]["functions_with_tmp"] -= len(FIXTURE_EXPECT)
    st = res["stats"]
    if st["functions_with_tmp"] < 120 and not only:
        raise AnalysisBroken("R-TMP matched only %d functions using TMP (floor 120)" % st["functions_with_tmp"])
    res["stats"] = dict(st)
    res["obligations"] = st["exits_checked"] + st["alloc_sites"] + st["free_sites"]
    res["notes"].append("model: --enable-alloca=malloc-reentrant --enable-assert (config.h overlay + -DWANT_ASSERT=1), the strictest TMP mode; "
                        "TMP_S* forms are real mark/alloc/free there")
    res["exhaustive"] = True
    return res


MODE_KINDS = ("use-after-free", "escape", "return-tmp", "alloc-before-mark", "free-before-mark", "alloc-after-free", "double-free",
              "zero-size")


def zero_sized(path, fn, prop, res):
    """"TMP_ALLOC(0) is not allowed" (gmp-impl.h): harmless with alloca, an abort under --enable-alloca=debug (ASSERT_ALWAYS (size >= 1)) and a
    zero-byte malloc under malloc-reentrant.  Every TMP allocation - including those in arms that only another build option compiles in,
    such as the debug arm of TMP_ALLOC_LIMBS_2 - is checked for a size expression that is syntactically able to be zero: a literal 0, a
    conditional expression with such an arm, a product with such a factor, a sum of such terms."""
    def zeroable(e):
        while isinstance(e, dict) and e.get("k") == "cast":
            e = e["e"]
        if not isinstance(e, dict):
            return False
        k = e.get("k")
        if k == "int":
            return e["v"] == 0
        if k == "cond":
            return zeroable(e["a"]) or zeroable(e["b"])
        if k == "binop" and e["op"] == "*":
            return zeroable(e["l"]) or zeroable(e["r"])
        if k == "binop" and e["op"] == "+":
            return zeroable(e["l"]) and zeroable(e["r"])
        return False
    def zero_selectors(e, out):
        """variables of the conditions that select a zero alternative"""
        while isinstance(e, dict) and e.get("k") == "cast":
            e = e["e"]
        if not isinstance(e, dict):
            return
        if e.get("k") == "cond":
            if zeroable(e["a"]) or zeroable(e["b"]):
                sa.walk(e["c"], lambda n: out.add(n["id"]) if n.get("k") == "var" else None)
            zero_selectors(e["a"], out)
            zero_selectors(e["b"], out)
        elif e.get("k") == "binop":
            zero_selectors(e["l"], out)
            zero_selectors(e["r"], out)
    # variables that some branch condition tests, with the line of the test: a zero alternative chosen by a variable that an earlier test
    # constrains (if (d_overlap || n_overlap) tp = TMP_ALLOC_LIMBS ((d_overlap ? dl : 0) + (n_overlap ? nl : 0))) is left undecided
    tested = collections.defaultdict(list)
    for b in fn["blocks"]:
        t = b.get("term")
        if t and t.get("cond"):
            sa.walk(t["cond"], lambda n, t=t: tested[n["id"]].append(t.get("line", 0)) if n.get("k") == "var" else None)
    assigned = collections.defaultdict(list)        # a test only constrains the variable until its next assignment
    for b in fn["blocks"]:
        for el in b["elems"]:
            def asg(n, el=el):
                if n.get("k") == "binop" and n["op"].endswith("=") and n["op"] not in ("==", "!=", "<=", ">=") and n["l"].get("k") == "var":
                    assigned[n["l"]["id"]].append(el["line"])
                if n.get("k") == "unop" and n["op"] in ("post++", "pre++", "post--", "pre--") and n["e"].get("k") == "var":
                    assigned[n["e"]["id"]].append(el["line"])
            sa.walk(el["e"], asg)
    for b in fn["blocks"]:                          # all blocks: also the ones Clang's CFG prunes in this configuration
        for el in b["elems"]:
            e = el["e"]
            if e.get("k") == "call" and (e.get("callee") in ALLOC_FNS or e.get("callee") == "__builtin_alloca") and e.get("args"):
                res["stats"]["tmp_alloc_sites"] += 1
                if zeroable(e["args"][-1]):
                    sel = set()
                    zero_selectors(e["args"][-1], sel)
                    if any(l_ < el["line"] and not any(l_ <= a_ <= el["line"] for a_ in assigned.get(v_, []))
                           for v_ in sel for l_ in tested.get(v_, [])):
                        res["stats"]["tmp_zero_size_undecided"] += 1
                        continue
                    res["findings"].append(Finding(prop, "R-TMP", path, el["line"], fn["name"], "zero-size:%d" % el["line"],
                                                   "the temporary allocation at line %d can be asked for 0 bytes (its size expression has a "
                                                   "literal-zero alternative): TMP_ALLOC (0) is not allowed - it aborts under --enable-alloca=debug"
                                                   % el["line"]))


def run_modes(prop="C14", tier="quick"):
    """C14 view of R-TMP: only the violation kinds that make alloca / malloc-reentrant / debug builds behave differently"""
    r = run(prop=prop, tier=tier)
    r["findings"] = [f for f in r["findings"] if f.signature.startswith(MODE_KINDS)]
    return r


IO_UNITS = ("mpz/inp_raw.c", "mpz/out_raw.c", "mpz/inp_str.c", "mpz/out_str.c", "mpq/inp_str.c", "mpq/out_str.c",
            "mpf/inp_str.c", "mpf/out_str.c", "mpz/export.c", "mpz/import.c", "printf/", "scanf/")


def run_io(prop="C17", tier="quick"):
    """C17 view of R-TMP: the failure exits of the I/O functions neither leak nor use freed scratch"""
    r = run(prop=prop, tier=tier, only=lambda p: any(u in p for u in IO_UNITS))
    return r
