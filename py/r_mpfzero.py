"""R-MPFZERO (C13, format clause "zero has exponent 0"): a function that stores the constant 0 into the size field of an mpf object it
was given also stores 0 into that object's exponent on every path to its exit.

mpf_cmp, mpf_eq, mpf_add, ... read EXP (x) of a zero operand without looking at the size first in several places (the comparison functions
order by exponent before they look at limbs), so a zero with a stale exponent compares and adds wrongly - long after the call that
produced it.  The tree is uniform: all zero-result exits in mpf/ write both fields (measured before adoption: 19 constant-zero size stores,
19 paired).

Must-dataflow over the Clang CFG, per (function, object parameter): state = (size field holds the constant 0, exponent holds the constant
0), both set by a store of literal 0 and cleared by any other store to the field or by handing the object to a callee as a destination; at every exit `size is 0` must imply `exponent is 0`.
Join = "size-zero on some path" (may) x "exp-zero on all paths" (must), kept apart by partitioning on the size bit.  Stores through a
local alias of the parameter (r = x) are followed flow-insensitively.  Only literal zeros are judged; sizes computed at run time
(SIZ (r) = val != 0) are outside this rule."""
import collections

import sa
from core import *

FIXTURE = os.path.join(VERIF, "selftest", "fixtures", "mpfzero_fix.c")


def _strip(e):
    while isinstance(e, dict) and e.get("k") in ("cast", "paren"):
        e = e["e"]
    return e


def analyse(fn, prop, F, stats):
    objs = {p["id"]: p["name"] for p in fn["params"] if "__mpf_struct" in p.get("ct", "") and "const" not in p.get("ct", "").split("*")[0]}
    if not objs:
        return
    # local aliases of an object parameter (flow-insensitive, single assignment from the parameter)
    alias = {}
    for b in fn["blocks"]:
        for el in b["elems"]:
            def al(n):
                if n.get("k") == "binop" and n["op"] == "=" and _strip(n["l"]).get("k") == "var" and _strip(n["r"]).get("k") == "var" \
                        and _strip(n["r"])["id"] in objs:
                    alias.setdefault(_strip(n["l"])["id"], set()).add(_strip(n["r"])["id"])
                if n.get("k") == "decl":
                    for d in n["decls"]:
                        if "init" in d and _strip(d["init"]).get("k") == "var" and _strip(d["init"])["id"] in objs:
                            alias.setdefault(d["var"]["id"], set()).add(_strip(d["init"])["id"])
            sa.walk(el["e"], al)

    def obj_of(m):
        b = _strip(m.get("base"))
        while isinstance(b, dict) and b.get("k") in ("unop",) and b["op"] == "*":
            b = _strip(b["e"])
        if isinstance(b, dict) and b.get("k") == "var":
            if b["id"] in objs:
                return b["id"]
            if len(alias.get(b["id"], ())) == 1:
                return next(iter(alias[b["id"]]))
        return None

    def stores(e):
        """[(object, field, is literal zero, line)] in evaluation order (assignment chains  a = b = 0  included)"""
        out = []

        def f(n):
            if n.get("k") == "binop" and n["op"].endswith("=") and n["op"] not in ("==", "!=", "<=", ">="):
                l = _strip(n["l"])
                if isinstance(l, dict) and l.get("k") == "member" and l["field"] in ("_mp_size", "_mp_exp"):
                    o = obj_of(l)
                    if o is not None:
                        r = _strip(n["r"])
                        while isinstance(r, dict) and r.get("k") == "binop" and r["op"] == "=":
                            r = _strip(r["r"])                 # x->_mp_exp = x->_mp_size = 0
                        zero = n["op"] == "=" and isinstance(r, dict) and r.get("k") == "int" and r["v"] == 0
                        out.append((o, l["field"], zero))
            if n.get("k") == "unop" and n["op"] in ("post++", "pre++", "post--", "pre--"):
                l = _strip(n["e"])
                if isinstance(l, dict) and l.get("k") == "member" and l["field"] in ("_mp_size", "_mp_exp"):
                    o = obj_of(l)
                    if o is not None:
                        out.append((o, l["field"], False))
            if n.get("k") == "call":
                # the object handed to a callee as a destination (pointer to non-const): the callee sets both fields as it sees fit
                ps = n.get("params", [])
                for i_, a_ in enumerate(n.get("args", [])):
                    a_ = _strip(a_)
                    if isinstance(a_, dict) and a_.get("k") == "var":
                        o = a_["id"] if a_["id"] in objs else (next(iter(alias[a_["id"]])) if len(alias.get(a_["id"], ())) == 1 else None)
                        if o is not None and not (i_ < len(ps) and ps[i_].get("pc")):
                            out.append((o, "_mp_size", False))
                            out.append((o, "_mp_exp", False))
        sa.walk(e, f)
        return out
    blocks = sa.blocks_by_id(fn)
    for o, oname in objs.items():
        # state per block: set of (size0, exp0) pairs reachable (a tiny powerset: at most 4 elements)
        IN = collections.defaultdict(set)
        IN[fn["entry"]] = {(False, False)}
        work = {fn["entry"]}
        sites = []
        bad = {}
        while work:
            bid = max(work)
            work.discard(bid)
            b = blocks[bid]
            cur = set(IN[bid])
            for el in b["elems"]:
                for (oo, field, zero) in stores(el["e"]):
                    if oo != o:
                        continue
                    if field == "_mp_size":
                        if zero and el["line"] not in sites:
                            sites.append(el["line"])
                        cur = {(zero, e0) for (_s, e0) in cur}
                    else:
                        cur = {(s0, zero) for (s0, _e) in cur}
            if b.get("noreturn"):
                continue
            for s in b["succs"]:
                if not isinstance(s, int):
                    continue
                if s == fn["exit"]:
                    if (True, False) in cur:
                        line = b["elems"][-1]["line"] if b["elems"] else fn.get("endline", 0)
                        bad[line] = True
                    continue
                if not cur <= IN[s]:
                    IN[s] |= cur
                    work.add(s)
        stats["zero_size_stores"] += len(sites)
        if sites:
            stats["functions_with_zero_result"] += 1
        for line in sorted(bad):
            F.append(Finding(prop, "R-MPFZERO", fn["file"], line, fn["name"], "zero-with-stale-exponent:%s" % oname,
                             "%s can return at line %d after storing 0 into the size of %s (line %s) without storing 0 into its exponent on that "
                             "path: the mpf format requires exponent 0 for the value zero, and the comparison and addition functions read the "
                             "exponent of a zero operand" % (fn["name"], line, oname, ", ".join(map(str, sites)))))


def run(prop="C13", tier="quick"):
    res = dict(findings=[], stats=collections.Counter(), samples=[], notes=[])
    cfg = sa.cfg_built()
    cfg = sa.Config("built-mpfzero", units=cfg.units, flags=list(cfg.flags), extra_files=[FIXTURE])
    ex = sa.export(cfg)
    sa.check_errors(ex)
    fx = []
    for path, fn in ex.functions():
        before = res["stats"]["zero_size_stores"]
        analyse(fn, prop, fx if path == FIXTURE else res["findings"], res["stats"] if path != FIXTURE else collections.Counter())
        if path != FIXTURE and res["stats"]["zero_size_stores"] > before:
            res["samples"].append(dict(rule="R-MPFZERO", function=fn["name"], file=relpath(path), zero_stores=res["stats"]["zero_size_stores"] - before))
    got = collections.Counter(f.function for f in fx)
    if not got.get("fix_mpfzero_bad") or not got.get("fix_mpfzero_bad_path") or got.get("fix_mpfzero_good") or got.get("fix_mpfzero_good_order") \
            or got.get("fix_mpfzero_good_callee"):
        raise AnalysisBroken("R-MPFZERO fixtures: %r" % dict(got))
    if res["stats"]["zero_size_stores"] < 8:
        raise AnalysisBroken("R-MPFZERO: only %d constant-zero size stores on mpf parameters found (floor 8; today 19)" % res["stats"]["zero_size_stores"])
    res["stats"] = dict(res["stats"])
    res["obligations"] = res["stats"]["zero_size_stores"]
    res["notes"].append("fixtures: 2 positive fired, 3 negative silent")
    res["exhaustive"] = True
    return res
