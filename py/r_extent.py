"""R-EXTENT.tmp (C04): writes into a freshly allocated scratch block stay inside the size that was requested.

Every function of the library that obtains a limb block from TMP_ALLOC_LIMBS / TMP_ALLOC_LIMBS_2 / the allocate function, or
declares a fixed-size local limb array (mp_limb_t tp[MUL_KARATSUBA_THRESHOLD_LIMIT], rp[GET_STR_PRECOMPUTE_THRESHOLD]), is run
through aliasflow with only the extent rule armed: the block is a region whose size is the linear term that was requested (in
limbs), every pointer into it carries its offset term, and each store `p[i] = ...` or call to an mpn routine with a documented
write extent (MPN_EXTENTS: mpn_mul writes un+vn limbs, mpn_sqr 2n, mpn_add_n n, ...) produces the obligation
offset + extent <= size.  Equal terms or a non-positive constant difference prove it, a positive constant difference refutes it
(the write lands that many limbs past the block on every execution of the path), anything else - symbolic sizes related only
through conditions - is undecided and counted.  This is the scratch-space counterpart of R-EXTENT on mpz destinations."""
import collections

import sa, aliasflow
from core import *

FIXTURE = os.path.join(VERIF, "selftest", "fixtures", "extent_fix.c")


def has_alloc(fn):
    for b in fn["blocks"]:
        for el in b["elems"]:
            e = el["e"]
            if e.get("k") == "call" and (e.get("callee") in aliasflow.TMP_ALLOC or e.get("callee") == "__builtin_alloca" or
                                         (e.get("callee") is None and aliasflow.Analysis.is_allocator_call(e) == "alloc")):
                return True
            if e.get("k") == "decl" and any(aliasflow._ARR.match(d["var"].get("ct", "")) for d in e["decls"]):
                return True
    return False


def run(prop="C04", tier="quick"):
    res = dict(findings=[], stats=collections.Counter(), samples=[], notes=[])
    ex = sa.export(sa.cfg_builtfx())
    sa.check_errors(ex)
    exc = set()
    for cols in spec_tsv("alias_exceptions.tsv", 4):
        exc.add((cols[0], cols[1], cols[2]))
    fx = []
    for path, unit in ex.units():
        if sa.is_foreign_fixture(path, FIXTURE):
            continue
        for fn in unit["functions"]:
            if not has_alloc(fn):
                continue
            found = []
            a = aliasflow.Analysis(fn, prop, found.append, res["stats"])
            a.reset_reports = lambda found=found: found.clear()
            a.exceptions = exc
            res["stats"]["functions"] += 1
            try:
                a.run()
            except AnalysisBroken as e:
                res["stats"]["budget_exceeded"] += 1
                continue
            hits = [f for f in found if f.rule == "R-EXTENT"]
            if path == FIXTURE:
                fx += hits
            else:
                res["findings"] += hits
    got = collections.Counter(f.function for f in fx)
    if not got.get("fix_extent_tmp_short") or not got.get("fix_extent_tmp_split") or got.get("fix_extent_tmp_good"):
        raise AnalysisBroken("R-EXTENT.tmp fixtures: %r" % dict(got))
    st = res["stats"]
    if st.get("fresh_blocks_sized", 0) < 150:
        raise AnalysisBroken("R-EXTENT.tmp: only %d scratch blocks with a known size (floor 150)" % st.get("fresh_blocks_sized", 0))
    if st.get("extent_proved", 0) < 100:
        raise AnalysisBroken("R-EXTENT.tmp: only %d extent obligations proved (floor 100)" % st.get("extent_proved", 0))
    res["stats"] = dict(st)
    res["obligations"] = st.get("extent_obligations", 0)
    res["undecided"] = st.get("extent_undecided", 0)
    res["samples"].append(dict(rule="R-EXTENT.tmp", functions=st.get("functions"), sized_blocks=st.get("fresh_blocks_sized"),
                               obligations=st.get("extent_obligations"), proved=st.get("extent_proved"), undecided=st.get("extent_undecided")))
    res["notes"].append("fixtures: 2 positive fired, 1 negative silent; functions whose partition budget is exceeded: %d" % st.get("budget_exceeded", 0))
    res["exhaustive"] = True
    return res
