"""R-DIVZERO (C02): every public division entry point tests its divisor for zero, and reaches the intentional
__gmp_divide_by_zero on the zero edge, before any limb-level division routine or C division sees it - either in the
function itself (the guard block dominates every dangerous operation) or by handing the divisor to another function of the
family in that function's divisor position."""
import collections, json, re

import sa
from core import *
from r_tmp import base_var

DANGEROUS = re.compile(r"^__gmpn_(tdiv_qr|tdiv_q|divrem|divrem_[12]|divrem_euclidean.*|divrem_hensel.*|rsh_divrem.*|mod_1.*|"
                       r"modexact_1.*|divexact.*|preinv_.*|sb_div.*|dc_div.*|inv_div.*|sb_bdiv.*|dc_bdiv.*|bdivmod|invert.*|"
                       r"mod_34lsub1|redc_.*|powm|powlo|binvert)$")
FIXTURE = os.path.join(VERIF, "selftest", "fixtures", "divzero_fix.c")


def dominators(fn):
    blocks = sa.blocks_by_id(fn)
    preds = collections.defaultdict(set)
    for b in fn["blocks"]:
        if b.get("noreturn"):
            continue
        for s in sa.succ_ids(b):
            preds[s].add(b["id"])
    # only blocks reachable from the entry take part (an unreachable predecessor would empty the intersection)
    reach, todo = {fn["entry"]}, [fn["entry"]]
    while todo:
        b = blocks[todo.pop()]
        if b.get("noreturn"):
            continue
        for s in sa.succ_ids(b):
            if s not in reach:
                reach.add(s)
                todo.append(s)
    for k in list(preds):
        preds[k] = {p for p in preds[k] if p in reach}
    ids = [i for i in blocks if i in reach]
    dom = {i: set(ids) for i in blocks}
    dom[fn["entry"]] = {fn["entry"]}
    changed = True
    while changed:
        changed = False
        for i in ids:
            if i == fn["entry"]:
                continue
            ps = [dom[p] for p in preds[i]]
            new = (set.intersection(*ps) if ps else set()) | {i}
            if new != dom[i]:
                dom[i] = new
                changed = True
    return dom, preds


def divisor_exprs(fn, pidx, kind):
    """ids of local variables that hold the divisor's size / value (flow-insensitive closure)"""
    pid = fn["params"][pidx]["id"]
    derived = set()
    # local pointers that name the divisor (mpz_srcptr dd = d) or, for an mpq divisor, its numerator (num2 = mpq_numref (op2)): every
    # definition of the local must be that expression
    palias = {}

    def names_divisor(e):
        while isinstance(e, dict) and e.get("k") in ("cast", "paren"):
            e = e["e"]
        if not isinstance(e, dict):
            return False
        if kind == "mpq":
            if e.get("k") == "unop" and e["op"] == "&":
                m = e["e"]
                while isinstance(m, dict) and m.get("k") in ("cast", "paren"):
                    m = m["e"]
                if isinstance(m, dict) and m.get("k") == "member" and m["field"] == "_mp_num":
                    b = base_var(m)
                    return b is not None and b["id"] == pid
            return False
        return kind in ("mpz", "mpf") and e.get("k") == "var" and e["id"] == pid
    if kind in ("mpz", "mpq", "mpf"):
        defs = collections.defaultdict(list)
        for b in fn["blocks"]:
            for el in b["elems"]:
                def pa(n):
                    if n.get("k") == "binop" and n["op"] == "=" and n["l"].get("k") == "var" and "*" in n["l"].get("ct", ""):
                        defs[n["l"]["id"]].append(n["r"])
                    if n.get("k") == "decl":
                        for d in n["decls"]:
                            if "init" in d and "*" in d["var"].get("ct", ""):
                                defs[d["var"]["id"]].append(d["init"])
                sa.walk(el["e"], pa)
        for v, rs in defs.items():
            if v != pid and rs and all(names_divisor(r) for r in rs):
                palias[v] = True

    def from_div(e):
        """does e read the divisor's size (mpz/mpq/mpf) or value (ui)?"""
        hit = []

        def f(n):
            if n.get("k") == "var" and n["id"] in derived:
                hit.append(1)
            if kind == "ui":
                if n.get("k") == "var" and n["id"] == pid:
                    hit.append(1)
            else:
                if n.get("k") == "member" and n["field"] == "_mp_size":
                    b = base_var(n)
                    if b is not None and b["id"] == pid:
                        if kind != "mpq" or "_mp_num" in json.dumps(n):
                            hit.append(1)
                    elif b is not None and b["id"] in palias:
                        hit.append(1)
        sa.walk(e, f)
        return bool(hit)
    changed = True
    while changed:
        changed = False
        for b in fn["blocks"]:
            for el in b["elems"]:
                def g(n):
                    nonlocal changed
                    if n.get("k") == "binop" and n["op"] == "=" and n["l"].get("k") == "var" and from_div(n["r"]) \
                            and n["l"]["id"] not in derived and n["l"]["id"] != pid:
                        derived.add(n["l"]["id"])
                        changed = True
                    if n.get("k") == "decl":
                        for d in n["decls"]:
                            if "init" in d and from_div(d["init"]) and d["var"]["id"] not in derived:
                                derived.add(d["var"]["id"])
                                changed = True
                sa.walk(el["e"], g)
    # variables that only ever hold |size of the divisor| (dsize = ABSIZ (d)): `dsize < 1` tests them for zero
    def strip(e):
        while isinstance(e, dict) and e.get("k") in ("cast", "paren"):
            e = e["e"]
        return e

    def is_abs(e):
        e = strip(e)
        if not (isinstance(e, dict) and e.get("k") == "cond"):
            return False
        c = strip(sa.strip_expect(e["c"]))
        if not (isinstance(c, dict) and c.get("k") == "binop" and c["op"] in (">=", ">", "<", "<=") and strip(c["r"]).get("k") == "int"
                and strip(c["r"])["v"] == 0 and from_div(c["l"])):
            return False
        x = json.dumps(strip(c["l"]), sort_keys=True)
        pos, negv = (e["a"], e["b"]) if c["op"] in (">=", ">") else (e["b"], e["a"])
        negv = strip(negv)
        return json.dumps(strip(pos), sort_keys=True) == x and isinstance(negv, dict) and negv.get("k") == "unop" and negv["op"] == "-" \
            and json.dumps(strip(negv["e"]), sort_keys=True) == x
    assigned = collections.defaultdict(list)
    for b in fn["blocks"]:
        for el in b["elems"]:
            def h(n):
                if n.get("k") == "binop" and n["op"].endswith("=") and n["op"] not in ("==", "!=", "<=", ">=") and strip(n["l"]).get("k") == "var":
                    assigned[strip(n["l"])["id"]].append(n["r"] if n["op"] == "=" else None)
                if n.get("k") == "unop" and n["op"] in ("post++", "pre++", "post--", "pre--") and strip(n["e"]).get("k") == "var":
                    assigned[strip(n["e"])["id"]].append(None)
                if n.get("k") == "decl":
                    for d in n["decls"]:
                        if "init" in d:
                            assigned[d["var"]["id"]].append(d["init"])
            sa.walk(el["e"], h)
    absvars = {v for v, rs in assigned.items() if v in derived and rs and all(r is not None and is_abs(r) for r in rs)}

    def nonneg(e):
        """e is known to be >= 0 and zero exactly when the divisor is zero"""
        e = strip(e)
        if not isinstance(e, dict):
            return False
        if e.get("k") == "var" and e["id"] in absvars:
            return True
        if e.get("k") == "var" and kind == "ui" and e["id"] == pid and "unsigned" in (fn["params"][pidx].get("ct", "") + fn["params"][pidx].get("t", "")):
            return True
        return is_abs(e)
    from_div.nonneg = nonneg
    return pid, derived, from_div


def zero_edge(cond, from_div):
    """0 / 1 = index of the successor taken when the divisor is zero, None if cond is not a divisor-zero test"""
    c = sa.strip_expect(cond)
    neg = False
    while isinstance(c, dict) and c.get("k") == "unop" and c["op"] == "!":
        c = sa.strip_expect(c["e"])
        neg = not neg
    # (x < 1) != 0  (what UNLIKELY leaves behind): the comparison itself
    while isinstance(c, dict) and c.get("k") == "binop" and c["op"] in ("==", "!=") and isinstance(c["r"], dict) and c["r"].get("k") == "int" \
            and c["r"]["v"] == 0 and isinstance(c["l"], dict) and c["l"].get("k") == "binop" and c["l"]["op"] in ("<", "<=", ">", ">=", "==", "!="):
        if c["op"] == "==":
            neg = not neg
        c = c["l"]
    if not isinstance(c, dict):
        return None
    if c.get("k") == "binop" and c["op"] in ("==", "!=") :
        for a, b in ((c["l"], c["r"]), (c["r"], c["l"])):
            if isinstance(b, dict) and b.get("k") == "int" and b["v"] == 0 and from_div(a) and a.get("k") in ("var", "member", "cast"):
                zero_when_true = (c["op"] == "==") != neg
                return 0 if zero_when_true else 1
        return None
    nonneg = getattr(from_div, "nonneg", None)
    if nonneg and c.get("k") == "binop" and c["op"] in ("<", "<=", ">", ">="):
        # |size| < 1, |size| <= 0, 1 > |size| ...: a zero test of a quantity that cannot be negative
        l, r, op = c["l"], c["r"], c["op"]
        if isinstance(l, dict) and l.get("k") in ("int",) or (isinstance(l, dict) and l.get("k") == "cast" and l["e"].get("k") == "int"):
            l, r, op = r, l, {"<": ">", "<=": ">=", ">": "<", ">=": "<="}[op]
        rr = r
        while isinstance(rr, dict) and rr.get("k") in ("cast", "paren"):
            rr = rr["e"]
        if isinstance(rr, dict) and rr.get("k") == "int" and nonneg(l):
            zero_when_true = {("<", 1): True, ("<=", 0): True, (">=", 1): False, (">", 0): False}.get((op, rr["v"]))
            if zero_when_true is not None:
                zero_when_true = zero_when_true != neg
                return 0 if zero_when_true else 1
        return None
    if c.get("k") in ("var", "member") and from_div(c):
        # if (d) ... : true edge = nonzero
        return 0 if neg else 1
    return None


TRAP_HELPERS = {}          # static function -> {parameter index: kind}: traps (DIVIDE_BY_ZERO) when that parameter is zero, divides nothing itself


def trap_helper_params(fn):
    """{param index: kind} for a static function that tests a parameter for zero and reaches __gmp_divide_by_zero on the zero edge"""
    out = {}
    if not fn.get("static"):
        return out
    for i, p in enumerate(fn["params"]):
        ct = p.get("ct", "")
        kind = "mpz" if "__mpz_struct" in ct else "mpq" if "__mpq_struct" in ct else "mpf" if "__mpf_struct" in ct else \
            ("ui" if "*" not in ct and ("long" in ct or "int" in ct) else None)
        if kind is None:
            continue
        probe = dict(findings=[], stats=collections.Counter(), samples=[], notes=[])
        g = guards_of(fn, i, kind)
        if g:
            out[i] = kind
    return out


def guards_of(fn, pidx, kind):
    blocks = sa.blocks_by_id(fn)
    pid, derived, from_div = divisor_exprs(fn, pidx, kind)
    dom, preds = dominators(fn)
    dz = [b["id"] for b in fn["blocks"] for el in b["elems"]
          if el["e"].get("k") == "call" and el["e"].get("callee") == "__gmp_divide_by_zero"]
    guards = set()
    for z in dz:
        cur, hops = z, 0
        while hops < 6:
            ps = list(preds[cur])
            if len(ps) != 1:
                break
            p = blocks[ps[0]]
            t = p.get("term")
            if t and t.get("cond") and len(p["succs"]) == 2:
                ze = zero_edge(sa.effective_cond(t), from_div)
                if ze is not None and p["succs"][ze] == cur:
                    guards.add(p["id"])
                break
            cur = p["id"]
            hops += 1
    return guards


def analyse(fn, pidx, kind, family, prop, res):
    defined0 = kind.endswith("0")
    kind = kind.rstrip("0")
    blocks = sa.blocks_by_id(fn)
    pid, derived, from_div = divisor_exprs(fn, pidx, kind)
    dom, preds = dominators(fn)
    # blocks that call __gmp_divide_by_zero
    dz = [b["id"] for b in fn["blocks"] for el in b["elems"]
          if el["e"].get("k") == "call" and el["e"].get("callee") == "__gmp_divide_by_zero"]
    guards = set()
    # a unit-local helper that traps on a zero divisor, called with the divisor: the call is the guard for everything after it
    guard_calls = []
    for b in fn["blocks"]:
        for el in b["elems"]:
            e = el["e"]
            if e.get("k") == "call" and e.get("callee") in TRAP_HELPERS and e.get("callee") != fn["name"]:
                for i_, k_ in TRAP_HELPERS[e["callee"]].items():
                    if i_ < len(e.get("args", [])):
                        a_ = e["args"][i_]
                        v_ = base_var(a_)
                        if (v_ is not None and v_["id"] == pid and k_ == kind) or (kind == "ui" and k_ == "ui" and from_div(a_)):
                            guard_calls.append((b["id"], el["line"]))
    for z in dz:
        # walk back through single-predecessor straight-line blocks to the deciding branch
        cur, hops = z, 0
        while hops < 6:
            ps = list(preds[cur])
            if len(ps) != 1:
                break
            p = blocks[ps[0]]
            t = p.get("term")
            if t and t.get("cond") and len(p["succs"]) == 2:
                ze = zero_edge(sa.effective_cond(t), from_div)
                if ze is not None and p["succs"][ze] == cur:
                    guards.add(p["id"])
                break
            cur = p["id"]
            hops += 1
    # dangerous operations and family delegations
    danger, deleg, wrongpos = [], [], []
    for b in fn["blocks"]:
        for el in b["elems"]:
            e = el["e"]
            if e.get("k") == "call":
                c = e.get("callee") or ""
                if DANGEROUS.match(c):
                    danger.append((b["id"], el["line"], c))
                if c in family and c != fn["name"]:
                    didx = family[c][0]
                    for i, a in enumerate(e["args"]):
                        v = base_var(a)
                        if v is not None and v["id"] == pid or (kind == "ui" and from_div(a)):
                            (deleg if i == didx else wrongpos).append((b["id"], el["line"], c, i))
            else:
                def f(n, b=b, el=el):
                    if n is not e and n.get("k") == "call":
                        return False
                    if n.get("k") == "binop" and n["op"] in ("/", "%", "/=", "%=") and from_div(n["r"]):
                        danger.append((b["id"], el["line"], "operator " + n["op"]))
                    if n.get("k") == "asm" and any(from_div(x) for x in n.get("ins", [])):
                        danger.append((b["id"], el["line"], "inline asm"))
                sa.walk(e, f)
    name = fn["name"]
    F = res["findings"]
    res["stats"]["dangerous_ops"] += len(danger)
    if defined0:
        # the manual defines the result for a zero divisor: no trap, but nothing division-like may see the divisor before a zero test;
        # accepted: the operation is dominated by the non-zero successor of a divisor test
        nz = set()
        for b in fn["blocks"]:
            t = b.get("term")
            if t and t.get("cond") and len(b["succs"]) == 2:
                ze = zero_edge(sa.effective_cond(t), from_div)
                if ze is not None:
                    s_ = b["succs"][1 - ze]
                    if isinstance(s_, int) and preds.get(s_) == {b["id"]}:
                        nz.add(s_)
        res["stats"]["defined_at_zero"] += 1
        bad = [(bid, ln, what) for bid, ln, what in danger if bid in dom and not (nz & dom[bid])]
        for bid, ln, what in bad:
            F.append(Finding(prop, "R-DIVZERO", fn["file"], ln, name, "unguarded:%s" % what,
                             "%s at line %d sees the divisor on a path that has not tested it for zero; the manual defines %s for a zero divisor, "
                             "so this path must return the defined answer instead of dividing" % (what, ln, name.replace("__g", ""))))
        if not danger and not deleg and not nz:
            F.append(Finding(prop, "R-DIVZERO", fn["file"], fn["line"], name, "no-guard",
                             "%s neither tests its divisor for zero nor hands it to a function of the family" % name))
        res["samples"].append(dict(rule="R-DIVZERO", function=name, file=relpath(fn["file"]), divisor=fn["params"][pidx]["name"],
                                   verdict="zero divisor defined: %d division-like operations behind the non-zero edge" % len(danger)))
        return
    if guards or guard_calls:
        res["stats"]["guarded_here"] += 1
        bad = [(bid, ln, what) for bid, ln, what in danger if not any(g in dom[bid] and g != bid for g in guards)
               and not any(gb in dom[bid] and (gb != bid or gl <= ln) for gb, gl in guard_calls)]
        for bid, ln, what in bad:
            F.append(Finding(prop, "R-DIVZERO", fn["file"], ln, name, "unguarded:%s" % what,
                             "%s at line %d is reachable without passing the divisor == 0 test that leads to DIVIDE_BY_ZERO" % (what, ln)))
        verdict = "guard dominates %d dangerous operations" % len(danger)
    elif deleg and not danger:
        res["stats"]["delegating"] += 1
        verdict = "delegates the divisor to %s" % ", ".join(sorted({d[2] for d in deleg}))
    else:
        why = "no test of the divisor for zero leading to __gmp_divide_by_zero"
        if danger:
            why += "; %s at line %d sees the divisor unchecked" % (danger[0][2], danger[0][1])
        elif not deleg:
            why += " and the divisor is not handed to another division function in its divisor position"
        F.append(Finding(prop, "R-DIVZERO", fn["file"], fn["line"], name, "no-guard", "%s: %s" % (name, why)))
        verdict = "REFUTED"
    res["samples"].append(dict(rule="R-DIVZERO", function=name, file=relpath(fn["file"]), divisor=fn["params"][pidx]["name"],
                               verdict=verdict))


def run(prop="C02", tier="quick"):
    res = dict(findings=[], stats=collections.Counter(), samples=[], notes=[])
    ex = sa.export(sa.cfg_builtfx())
    sa.check_errors(ex)
    family = {}
    for cols in spec_tsv("division_api.tsv", 4):
        family[cols[0]] = (int(cols[1]), cols[2])
    fix = {"fix_div_noguard": (2, "ui"), "fix_div_late_guard": (2, "ui"), "fix_div_good": (2, "ui"), "fix_div_deleg": (2, "mpz"),
           "fix_div_abs_lt1": (2, "mpz"), "fix_div_signed_lt1": (2, "mpz"), "fix_div_alias_good": (2, "mpz"), "fix_div_alias_bad": (2, "mpz"),
           "fix_div_helper_good": (2, "mpz"), "fix_div_helper_bad": (2, "mpz")}
    byname = {}
    TRAP_HELPERS.clear()
    for path, fn in ex.functions():
        if fn.get("static") and any(el["e"].get("k") == "call" and el["e"].get("callee") == "__gmp_divide_by_zero"
                                    for b in fn["blocks"] for el in b["elems"]):
            tp = trap_helper_params(fn)
            if tp:
                TRAP_HELPERS[fn["name"]] = tp
    res["stats"]["trap_helpers"] = len(TRAP_HELPERS)
    for path, fn in ex.functions():
        if fn["name"] in family or fn["name"] in fix:
            byname[fn["name"]] = fn
    missing = [f for f in family if f not in byname]
    if missing:
        raise AnalysisBroken("R-DIVZERO: division entry points vanished: %s" % missing)
    allf = dict(family)
    allf.update(fix)
    for name, fn in sorted(byname.items()):
        pidx, kind = allf[name]
        if pidx >= len(fn["params"]):
            raise AnalysisBroken("R-DIVZERO: %s has no parameter %d" % (name, pidx))
        analyse(fn, pidx, kind, allf, prop, res)
        res["stats"]["entry_points"] += 1
    fx = [f for f in res["findings"] if f.file == FIXTURE]
    res["findings"] = [f for f in res["findings"] if f.file != FIXTURE]
    res["samples"] = [s for s in res["samples"] if not s["function"].startswith("fix_")]
    exp = {"fix_div_noguard": "no-guard", "fix_div_late_guard": "unguarded", "fix_div_good": None, "fix_div_deleg": None,
           "fix_div_abs_lt1": None, "fix_div_signed_lt1": "no-guard", "fix_div_alias_good": None, "fix_div_alias_bad": "no-guard",
           "fix_div_helper_good": None, "fix_div_helper_bad": "no-guard"}
    for fname, sig in exp.items():
        got = [f.signature for f in fx if f.function == fname]
        if sig is None and got:
            raise AnalysisBroken("R-DIVZERO fires on its negative fixture %s: %s" % (fname, got))
        if sig is not None and not any(g.startswith(sig) for g in got):
            raise AnalysisBroken("R-DIVZERO no longer fires on its positive fixture %s (expected %s, got %s)" % (fname, sig, got))
    res["stats"]["entry_points"] -= len(fix)
    res["stats"] = dict(res["stats"])
    res["obligations"] = res["stats"]["entry_points"] + res["stats"].get("dangerous_ops", 0)
    res["notes"].append("fixtures: 5 positive fired, 5 negative silent")
    res["exhaustive"] = True
    return res
