"""R-ALLOC.size / R-ALLOC.pair (C04): allocator discipline inside each function.

  size   the size handed to the free / reallocate function is the size the block was obtained with:
         - blocks allocated in the function: the term bound at (re)allocation;
         - limb blocks of objects: the struct invariants  block(z->_mp_d) = z->_mp_alloc limbs  (mpz) and
           block(f->_mp_d) = f->_mp_prec + 1 limbs  (mpf), evaluated at the moment the pointer was loaded;
         - strings returned by mp*_get_str (NULL, ...): strlen + 1 (documented).
         Terms are linear combinations of symbols (values of variables / fields at a program point); agreement is
         term equality.  Three-valued: proved / refuted (terms known and different) / undecided.
  pair   every heap block obtained in a function, and every local mpz_t / mpq_t / mpf_t initialised in it, is
         freed / cleared or handed over (stored into memory reachable by the caller, returned) on every path
         to every exit; noreturn calls are not exits."""
import collections, json

import sa
from core import *
from aliasflow import T, tadd, tscale, tconst, objkind
from r_tmp import base_var

INIT_FNS = {"__gmpz_init": 1, "__gmpz_init2": 1, "__gmpz_init_set": 1, "__gmpz_init_set_ui": 1, "__gmpz_init_set_si": 1,
            "__gmpz_init_set_d": 1, "__gmpz_init_set_str": 1, "__gmpz_init_set_ux": 1, "__gmpz_init_set_sx": 1,
            "__gmpq_init": 1, "__gmpf_init": 1, "__gmpf_init2": 1, "__gmpf_init_set": 1, "__gmpf_init_set_ui": 1,
            "__gmpf_init_set_si": 1, "__gmpf_init_set_d": 1, "__gmpf_init_set_str": 1}
CLEAR_FNS = {"__gmpz_clear", "__gmpq_clear", "__gmpf_clear"}
GETSTR = {"__gmpz_get_str", "__gmpq_get_str", "__gmpf_get_str"}
FIXTURE = os.path.join(VERIF, "selftest", "fixtures", "alloc_fix.c")


def akind(e):
    fn = e.get("fn")
    names = []
    sa.walk(fn or {}, lambda n: names.append(n["name"]) if n.get("k") == "var" else None)
    for k, v in (("__gmp_allocate_func", "alloc"), ("__gmp_reallocate_func", "realloc"), ("__gmp_free_func", "free")):
        if k in names:
            return v
    return None


def key(e):
    if not isinstance(e, dict):
        return None
    k = e.get("k")
    if k == "var":
        return "v%d" % e["id"]
    if k == "member":
        b = key(e["base"])
        return None if b is None else b + ("->" if e["arrow"] else ".") + e["field"]
    if k == "cast":
        return key(e["e"])
    if k == "unop" and e["op"] == "*":
        b = key(e["e"])
        return None if b is None else "*" + b
    if k == "index":
        b, i = key(e["base"]), e["idx"]
        if b is not None and isinstance(i, dict) and i.get("k") == "int":
            return "%s[%d]" % (b, i["v"])
        return None
    return None


class St:
    __slots__ = ("env", "fver", "bind", "origin", "held", "names", "facts", "nulls")

    def __init__(self):
        self.names = {}     # pointer key -> frozenset of allocation site ids it may name   may-information
        self.facts = frozenset()   # (condition key, truth) known on this path (conditions over unmodified local scalars)
        self.env = {}       # int var id -> Term
        self.fver = {}      # field key -> version (line of the last store)
        self.bind = {}      # pointer key -> (Term size, line)                     must-information
        self.origin = {}    # pointer key -> (Term expected size, description)     must-information
        self.held = {}      # key -> (what, line)                                   may-information (leaks)
        self.nulls = {}     # pointer var id -> True (NULL) / False (a block)       must-information, part of the partition key

    def copy(self):
        s = St()
        s.env, s.fver, s.bind, s.origin, s.held = dict(self.env), dict(self.fver), dict(self.bind), dict(self.origin), dict(self.held)
        s.names, s.facts = dict(self.names), self.facts
        s.nulls = dict(self.nulls)
        return s

    def join(self, o, where):
        ch = False
        for k in set(self.env) | set(o.env):
            a, b = self.env.get(k), o.env.get(k)
            if a is b or a == b:
                continue
            if a is None:
                a = T(0, [(("v", k, 0), 1)])
            elif b is None:
                b = T(0, [(("v", k, 0), 1)])
            if a != b:
                n = T(0, [(("phi", where, k), 1)])
                if self.env.get(k) != n:
                    self.env[k] = n
                    ch = True
        for k in set(self.fver) | set(o.fver):
            if self.fver.get(k, 0) != o.fver.get(k, 0):
                n = ("phi", where)
                if self.fver.get(k) != n:
                    self.fver[k] = n
                    ch = True
        for m in ("bind", "origin"):
            mine, other = getattr(self, m), getattr(o, m)
            for k in list(mine):
                if k not in other or other[k][0] != mine[k][0]:
                    del mine[k]
                    ch = True
        for k in list(self.nulls):
            if o.nulls.get(k) != self.nulls[k]:
                del self.nulls[k]
                ch = True
        for k, v in o.held.items():
            if k not in self.held:
                self.held[k] = v
                ch = True
        for k, v in o.names.items():
            n = self.names.get(k, frozenset()) | v
            if n != self.names.get(k):
                self.names[k] = n
                ch = True
        return ch


class Fn:
    def __init__(self, fn, prop, out, stats, summaries=None):
        self.fn, self.prop, self.out, self.stats = fn, prop, out, stats
        self.summaries = summaries or {}       # callee -> {(param index, field suffix)}: the callee leaves a fresh block there
        self.hands_over = set()                # (param index, field suffix) this function fills with a block it allocated
        self.passthru = {}                     # callee -> index of the pointer parameter it returns (possibly reallocated)
        self.consumes = {}                     # callee -> indexes of pointer parameters it frees on every path
        self.blocks = sa.blocks_by_id(fn)
        self.seen = set()
        self.paramids = {p["id"] for p in fn["params"]}
        self.verdict = {}       # (line, kind) -> proved / undecided / refuted   (distinct sites, worst verdict wins)
        self.exit_blocks = set()

    def rep(self, rule, line, sig, what):
        if (rule, sig, line) in self.seen:
            return
        self.seen.add((rule, sig, line))
        self.out.append(Finding(self.prop, rule, self.fn["file"], line, self.fn["name"], sig, what))

    # ---- terms --------------------------------------------------------------------------------
    def term(self, e, st):
        if not isinstance(e, dict):
            return None
        k = e.get("k")
        if k == "int":
            return T(e["v"])
        if k == "var":
            ct = e.get("ct", "")
            if "*" in ct or "[" in ct or "struct" in ct:
                return None
            return st.env.get(e["id"], T(0, [(("v", e["id"], 0), 1)]))
        if k == "cast":
            return self.term(e["e"], st)
        if k == "member" and e["field"] in ("_mp_alloc", "_mp_prec", "_mp_size", "allocatedSize", "writtenSize", "alloc", "size"):
            kk = key(e)
            if kk is None:
                return None
            return T(0, [(("m", kk, st.fver.get(kk, 0)), 1)])
        if k == "binop" and e["op"] in ("+", "-"):
            return tadd(self.term(e["l"], st), self.term(e["r"], st), 1 if e["op"] == "+" else -1)
        if k == "binop" and e["op"] == "*":
            l, r = self.term(e["l"], st), self.term(e["r"], st)
            if tconst(l) is not None:
                return tscale(r, tconst(l))
            if tconst(r) is not None:
                return tscale(l, tconst(r))
            return None
        if k == "call" and e.get("callee") == "strlen" and e.get("args"):
            kk = key(e["args"][0])
            return T(0, [(("strlen", kk), 1)]) if kk else None
        if k == "binop" and e["op"] in ("=", ","):
            return self.term(e["r"], st)
        if k == "cond":
            # ABS (x): not linear; MAX etc: unknown
            return None
        return None

    def expected_for_pointer(self, p, st):
        """(Term, why) the struct invariant gives for the block p points to, if p is z->_mp_d of an mpz / mpf object"""
        e = p
        while isinstance(e, dict) and e.get("k") == "cast":
            e = e["e"]
        if not isinstance(e, dict):
            return None
        if e.get("k") == "member" and e["field"] == "_mp_d":
            b = e["base"]
            bk = key(b)
            if bk is None or "_mp_seed" in bk:
                return None      # RNG_STATE (rstate) keeps the generator's private struct in _mp_seed->_mp_d: not a limb block
            sep = "->" if e["arrow"] else "."
            ot = self.objtype(b)
            if ot == "mpz":
                kk = bk + sep + "_mp_alloc"
                return (tscale(T(0, [(("m", kk, st.fver.get(kk, 0)), 1)]), 8), "ALLOC * BYTES_PER_MP_LIMB of the same mpz object")
            if ot == "mpf":
                kk = bk + sep + "_mp_prec"
                return (tscale(tadd(T(0, [(("m", kk, st.fver.get(kk, 0)), 1)]), T(1)), 8), "(PREC + 1) * BYTES_PER_MP_LIMB of the same mpf object")
            return None
        if e.get("k") == "member" and e["field"] == "buf" and "asprintf" in json.dumps(e["base"]):
            # struct gmp_asprintf_t: buf holds alloc bytes (GMP_ASPRINTF_T_NEED updates alloc, then reallocates with the old value)
            bk = key(e["base"])
            if bk:
                kk = bk + ("->" if e["arrow"] else ".") + "alloc"
                return (T(0, [(("m", kk, st.fver.get(kk, 0)), 1)]), "alloc of the same gmp_asprintf_t")
        if e.get("k") == "member" and e["field"] == "allocated":
            bk = key(e["base"])
            if bk:
                kk = bk + ("->" if e["arrow"] else ".") + "allocatedSize"
                return (T(0, [(("m", kk, st.fver.get(kk, 0)), 1)]), "allocatedSize of the same mpir_out_struct")
        kk = key(e)
        if kk and kk in st.origin:
            return st.origin[kk]
        return None

    def objtype(self, b):
        """mpz / mpf for the expression denoting the object whose field is accessed"""
        v = b
        while isinstance(v, dict) and v.get("k") in ("cast",):
            v = v["e"]
        ct = ""
        if isinstance(v, dict) and v.get("k") == "var":
            ct = v.get("ct", "")
        elif isinstance(v, dict) and v.get("k") == "member":
            ct = v.get("t", "")
            if v["field"] in ("_mp_num", "_mp_den"):
                return "mpz"
        elif isinstance(v, dict) and v.get("k") == "unop" and v["op"] == "&":
            return self.objtype(v["e"])
        elif isinstance(v, dict) and v.get("k") == "index":
            return self.objtype(v["base"])
        if "__mpz_struct" in ct or "mpz_" in ct:
            return "mpz"
        if "__mpf_struct" in ct or "mpf_" in ct:
            return "mpf"
        return None

    # ---- checks -------------------------------------------------------------------------------
    def note(self, line, kind, v):
        rank = {"proved": 0, "undecided": 1, "refuted": 2}
        cur = self.verdict.get((line, kind))
        if cur is None or rank[v] > rank[cur]:
            self.verdict[(line, kind)] = v

    def check_size(self, kind, ptr, size_e, st, line):
        actual = self.term(size_e, st)
        pk = key(ptr)
        exp = None
        why = ""
        if pk and pk in st.bind:
            exp, why = st.bind[pk][0], "the size it was obtained with at line %d" % st.bind[pk][1]
        else:
            r = self.expected_for_pointer(ptr, st)
            if r:
                exp, why = r
        if exp is None or actual is None:
            self.note(line, kind, "undecided")
            return
        if exp == actual or self.at_entry(exp) == self.at_entry(actual):
            # the second form accepts  PREC(x) = new; ... realloc (xp, old_prec + 1, ...)  where the field was updated
            # before the block: both sides denote the value the field had on entry
            self.note(line, kind, "proved")
            return
        syms = {s for s, _ in exp[1]} | {s for s, _ in actual[1]}
        if any(s[0] == "phi" for s in syms):
            self.note(line, kind, "undecided")
            return
        self.note(line, kind, "refuted")
        self.rep("R-ALLOC.size", line, "%s-size:%s" % (kind, pk or "<expr>"),
                 "the %s function is given a size that differs from %s for the block it is passed (line %d): a custom allocator "
                 "installed with mp_set_memory_functions that tracks sizes is corrupted" % (kind, why, line))

    @staticmethod
    def at_entry(t):
        """the term with every field symbol taken at its entry version"""
        if t is None:
            return None
        d = {}
        for sym, k in t[1]:
            s2 = ("m", sym[1], 0) if sym[0] == "m" else sym
            d[s2] = d.get(s2, 0) + k
        return (t[0], frozenset((a, b) for a, b in d.items() if b))

    def release(self, st, k):
        for site in st.names.get(k, ()):
            st.held.pop(site, None)

    # ---- transfer -----------------------------------------------------------------------------
    def call(self, e, st, line, assigned_to=None):
        c = e.get("callee")
        args = e.get("args", [])
        kind = akind(e) if c is None else None
        if kind == "alloc" and args:
            self.note(line, "allocate", "proved")
            t = self.term(args[0], st)
            return ("block", t, line)
        if kind == "realloc" and len(args) >= 3:
            self.check_size("reallocate", args[0], args[1], st, line)
            pk = key(args[0])
            if pk:
                st.bind.pop(pk, None)
                st.origin.pop(pk, None)
                self.release(st, pk)
            return ("block", self.term(args[2], st), line)
        if kind == "free" and len(args) >= 2:
            self.check_size("free", args[0], args[1], st, line)
            pk = key(args[0])
            if pk:
                st.bind.pop(pk, None)
                st.origin.pop(pk, None)
                self.release(st, pk)
            return None
        if c in INIT_FNS and args:
            v = base_var(args[0])
            if v is not None and v["id"] not in self.paramids and not v.get("global") and objkind(v.get("ct", "")) and objkind(v["ct"])[3]:
                st.held["obj:%d" % v["id"]] = ("%s (%s)" % (v["name"], c.replace("__g", "")), line)
                self.note(line, "init:" + v["name"], "proved")
            return None
        if c in CLEAR_FNS and args:
            v = base_var(args[0])
            if v is not None:
                st.held.pop("obj:%d" % v["id"], None)
            return None
        if c in self.summaries and c != self.fn["name"]:
            for (pidx, suffix) in self.summaries[c]:
                if pidx < len(args):
                    a_ = args[pidx]
                    while isinstance(a_, dict) and a_.get("k") == "cast":
                        a_ = a_["e"]
                    v = base_var(a_)
                    ak = key(a_)
                    sfx = suffix
                    if ak is None and isinstance(a_, dict) and a_.get("k") == "unop" and a_["op"] == "&":
                        ak = key(a_["e"])                       # f (&local): the caller names the field  local.field
                        sfx = "." + suffix[2:] if suffix.startswith("->") else suffix
                    if v is not None and ak is not None and v.get("param") is None and not v.get("global"):
                        site = "site:%d:%s" % (line, suffix)
                        st.held[site] = ("block that %s left in %s%s at line %d" % (c, v["name"], sfx, line), line)
                        st.names[ak + sfx] = frozenset([site])
                        self.note(line, "received:" + suffix, "proved")
        if c in self.consumes and c != self.fn["name"]:
            for idx in self.consumes[c]:
                if idx < len(args):
                    pk = key(args[idx]) if isinstance(args[idx], dict) else None
                    a_ = args[idx]
                    while pk is None and isinstance(a_, dict) and a_.get("k") == "cast":
                        a_ = a_["e"]
                        pk = key(a_)
                    if pk:
                        st.bind.pop(pk, None)
                        st.origin.pop(pk, None)
                        self.release(st, pk)
        if c in GETSTR and args:
            a0 = args[0]
            while isinstance(a0, dict) and a0.get("k") == "cast":
                a0 = a0["e"]                       # NULL is ((void *) 0)
            if isinstance(a0, dict) and a0.get("k") == "int" and a0["v"] == 0:
                return ("string", None, line)
        # a pointer handed to any other callee: ownership is not transferred (all library callees copy or read)
        return None

    def assign(self, lhs, rhs, st, line, callres):
        lk = key(lhs)
        r = rhs
        while isinstance(r, dict) and r.get("k") == "cast":
            r = r["e"]
        # integer variable
        if lhs.get("k") == "var" and "*" not in lhs.get("ct", "") and "[" not in lhs.get("ct", "") and "struct" not in lhs.get("ct", ""):
            t = self.term(rhs, st) if rhs is not None else None
            st.env[lhs["id"]] = t if t is not None else T(0, [(("v", lhs["id"], line), 1)])
            return
        if lhs.get("k") == "member" and lk:
            # field store: new version (after evaluating the right-hand side)
            if lhs["field"] in ("_mp_alloc", "_mp_prec", "_mp_size", "allocatedSize", "writtenSize", "alloc", "size"):
                st.fver[lk] = line
        if lk is None:
            return
        res = None
        if isinstance(r, dict) and r.get("k") == "call":
            res = callres.get(json.dumps(r, sort_keys=True)[:400])
        if isinstance(r, dict) and r.get("k") == "cond":
            for arm in (r["a"], r["b"]):
                a2 = arm
                while isinstance(a2, dict) and a2.get("k") == "cast":
                    a2 = a2["e"]
                if isinstance(a2, dict) and a2.get("k") == "call":
                    res = res or callres.get(json.dumps(a2, sort_keys=True)[:400])
        st.bind.pop(lk, None)
        st.origin.pop(lk, None)
        if lhs.get("k") == "var" and "*" in lhs.get("ct", ""):
            st.nulls.pop(lhs["id"], None)
            if res and res[0] in ("block", "string"):
                st.nulls[lhs["id"]] = False          # the allocation functions never return NULL (manual, Custom Allocation)
            elif isinstance(r, dict) and r.get("k") == "int" and r["v"] == 0:
                st.nulls[lhs["id"]] = True
            elif isinstance(r, dict) and r.get("k") == "var" and r["id"] in st.nulls:
                st.nulls[lhs["id"]] = st.nulls[r["id"]]
        if res:
            what, t, l0 = res
            if what == "block":
                self.note_handover(lhs, lk)
                if t is not None:
                    st.bind[lk] = (t, l0)
                if lhs.get("k") == "var" and lhs["id"] not in self.paramids and not lhs.get("global"):
                    st.held["site:%d" % l0] = ("block allocated at line %d" % l0, l0)
                    st.names[lk] = frozenset(["site:%d" % l0])
            elif what == "string":
                st.bind[lk] = (tadd(T(0, [(("strlen", lk), 1)]), T(1)), l0)
                if lhs.get("k") == "var" and lhs["id"] not in self.paramids:
                    st.held["site:%d" % l0] = ("string returned by mp*_get_str (NULL, ...) at line %d" % l0, l0)
                    st.names[lk] = frozenset(["site:%d" % l0])
            return
        # p = helper (.., q, ..) where the helper returns the block it was given (possibly moved): p is q as far as ownership goes
        if isinstance(r, dict) and r.get("k") == "call" and r.get("callee") in self.passthru and self.passthru[r["callee"]] < len(r.get("args", [])):
            r = r["args"][self.passthru[r["callee"]]]
            while isinstance(r, dict) and r.get("k") == "cast":
                r = r["e"]
            if key(r) == lk:
                return                          # s = store (s, ...): same owner, same name; the size is whatever the helper left (not tracked)
        # pointer copies: p = q, p = z->_mp_d
        rk = key(r) if isinstance(r, dict) else None
        if rk and rk in st.bind:
            st.bind[lk] = st.bind[rk]
        exp = self.expected_for_pointer(r, st) if isinstance(r, dict) else None
        if exp:
            st.origin[lk] = exp
        # another name for a held block / handing it over (stored into memory the caller can reach)
        named = []
        if isinstance(rhs, dict):
            sa.walk(rhs, lambda n: named.append(key(n)) if n.get("k") == "var" and key(n) in st.names else None)
        if lhs.get("k") == "var" and not lhs.get("global") and not lhs.get("static_local"):
            st.names.pop(lk, None)
            if rk and rk in st.names:
                st.names[lk] = st.names[rk]
        else:
            for nk in named:
                self.release(st, nk)
            if named:
                self.note_handover(lhs, lk)

    def note_handover(self, lhs, lk):
        """p->field = <fresh block> with p a parameter: callers receive a block they have to free (mpz_out_raw_m fills out->allocated)"""
        if lhs.get("k") != "member" or lk is None or "_mp_d" in lk:
            return                           # limb blocks of mpz/mpq/mpf objects follow the init / clear protocol
        v = base_var(lhs)
        if v is None or v.get("param") is None:
            return
        pre = "v%d" % v["id"]
        if lk.startswith(pre):
            self.hands_over.add((v["param"], lk[len(pre):]))

    # ---- branch conditions over local scalars: evaluate / remember (trace partitioning) ----------
    def cond_of(self, term):
        c = sa.strip_expect(sa.effective_cond(term))
        neg = False
        while isinstance(c, dict) and c.get("k") == "unop" and c["op"] == "!":
            c = sa.strip_expect(c["e"])
            neg = not neg
        return c, neg

    @staticmethod
    def cond_vars(c):
        ids, ok = set(), [True]

        def f(n):
            k = n.get("k")
            if k == "var":
                if "*" in n.get("ct", "") or "[" in n.get("ct", "") or n.get("global"):
                    ok[0] = False
                ids.add(n["id"])
            elif k in ("member", "call", "index") or (k == "unop" and n["op"] in ("*", "&")):
                ok[0] = False
        sa.walk(c, f)
        return ids if ok[0] and ids else None

    def eval_cond(self, c, st):
        k = c.get("k")
        if k == "var":
            v = tconst(self.term(c, st))
            return None if v is None else v != 0
        if k == "binop" and c["op"] in ("==", "!=", "<", ">", "<=", ">="):
            l, r = tconst(self.term(c["l"], st)), tconst(self.term(c["r"], st))
            if l is None or r is None:
                return None
            return {"==": l == r, "!=": l != r, "<": l < r, ">": l > r, "<=": l <= r, ">=": l >= r}[c["op"]]
        return None

    def pkey(self, st):
        return (st.facts, frozenset((v, tconst(st.env[v])) for v in self.flagvars if v in st.env and tconst(st.env[v]) is not None),
                frozenset((v, st.nulls[v]) for v in self.nullvars if v in st.nulls),
                # blocks still held that no name refers to any more (the last pointer was overwritten): kept apart from states in which the
                # block is still reachable, or the union of the names at the join would let a later free release it
                frozenset(h for h in st.held if h.startswith("site:") and not any(h in v for v in st.names.values())))

    @staticmethod
    def null_test(c):
        """(var id, True if the condition holds when the pointer is NULL) for  p == NULL / p != 0 / p  on a local pointer"""
        def strip(e):
            while isinstance(e, dict) and e.get("k") == "cast":
                e = e["e"]
            return e
        c = strip(c)
        if isinstance(c, dict) and c.get("k") == "var" and "*" in c.get("ct", "") and not c.get("global"):
            return (c["id"], False)
        if isinstance(c, dict) and c.get("k") == "binop" and c["op"] in ("==", "!="):
            l, r = strip(c["l"]), strip(c["r"])
            for a, b in ((l, r), (r, l)):
                if isinstance(a, dict) and a.get("k") == "var" and "*" in a.get("ct", "") and not a.get("global") \
                        and isinstance(b, dict) and b.get("k") == "int" and b["v"] == 0:
                    return (a["id"], c["op"] == "==")
        return None

    def kill_facts(self, st, vid):
        if st.facts:
            st.facts = frozenset(f for f in st.facts if vid not in self.condvars.get(f[0], ()))

    def run(self):
        """full partitioning first; if a function has too many correlated conditions, fall back to flags only, then none"""
        for level in (2, 1, 0):
            self.seen.clear()
            del self.out[:]
            try:
                return self.run_level(level)
            except OverflowError:
                self.stats["partition_fallbacks"] += 1
        raise AnalysisBroken("R-ALLOC: partition budget exceeded in " + self.fn["name"])

    def run_level(self, level):
        fn = self.fn
        # conditions tested more than once, and the variables conditions look at
        cnt = collections.Counter()
        self.condvars, self.flagvars = {}, set()
        for b in fn["blocks"]:
            t = b.get("term")
            if t and t.get("cond") and len(b["succs"]) == 2:
                c, _ = self.cond_of(t)
                if isinstance(c, dict):
                    vs = self.cond_vars(c)
                    if vs:
                        ck = json.dumps(c, sort_keys=True)
                        cnt[ck] += 1
                        self.condvars[ck] = vs
                        self.flagvars |= vs
        repeated = {k for k, n in cnt.items() if n >= 2}
        # local pointers that are compared with NULL: the  p = NULL; if (..) p = alloc; ...; if (p != NULL) free (p)  idiom
        self.nullvars = set()
        for b in fn["blocks"]:
            t = b.get("term")
            if t and t.get("cond") and len(b["succs"]) == 2:
                c, _ = self.cond_of(t)
                nt = self.null_test(c) if isinstance(c, dict) else None
                if nt and nt[0] not in self.paramids:
                    self.nullvars.add(nt[0])
        # only genuine flags (every assignment is an integer literal) are partitioned on, or loops would be unrolled
        notflag = set()
        for b in fn["blocks"]:
            for el in b["elems"]:
                def g(n):
                    k = n.get("k")
                    if k == "binop" and n["op"].endswith("=") and n["op"] not in ("==", "!=", "<=", ">=") and n["l"].get("k") == "var":
                        if n["op"] != "=" or n["r"].get("k") != "int":
                            notflag.add(n["l"]["id"])
                    elif k == "unop" and n["op"] in ("post++", "post--", "pre++", "pre--") and n["e"].get("k") == "var":
                        notflag.add(n["e"]["id"])
                    elif k == "decl":
                        for d in n["decls"]:
                            if "init" in d and d["init"].get("k") != "int":
                                notflag.add(d["var"]["id"])
                    elif k == "unop" and n["op"] == "&" and n["e"].get("k") == "var":
                        notflag.add(n["e"]["id"])
                sa.walk(el["e"], g)
        self.flagvars -= notflag
        self.flagvars -= self.paramids
        if level < 2:
            repeated = set()
        if level < 1:
            self.flagvars = set()
            self.nullvars = set()
        IN = collections.defaultdict(dict)
        s0 = St()
        IN[fn["entry"]][self.pkey(s0)] = s0
        work = {fn["entry"]}
        it = 0
        while work:
            it += 1
            if it > (6000 if level else 40000):
                raise OverflowError()
            bid = max(work)              # Clang numbers blocks in reverse topological order: entry is the highest
            work.discard(bid)
            b = self.blocks[bid]
            for st0 in list(IN[bid].values()):
                st = st0.copy()
                self.block(b, st)
                if b.get("noreturn"):
                    continue
                t = b.get("term")
                c, neg = self.cond_of(t) if t and t.get("cond") and len(b["succs"]) == 2 else (None, False)
                ck = json.dumps(c, sort_keys=True) if isinstance(c, dict) else None
                for si, s in enumerate(b["succs"]):
                    if not isinstance(s, int):
                        continue
                    st2 = st
                    nt = self.null_test(c) if isinstance(c, dict) else None
                    if nt and nt[0] in self.nullvars and nt[0] in st.nulls:
                        truth = (si == 0) != neg
                        if (st.nulls[nt[0]] == nt[1]) != truth:
                            continue                      # infeasible edge: the pointer is known (not) to be NULL here
                    if isinstance(c, dict) and ck in self.condvars:
                        truth = (si == 0) != neg
                        v = self.eval_cond(c, st)
                        if v is not None and v != truth:
                            continue                      # infeasible edge
                        if ck in repeated:
                            if (ck, not truth) in st.facts:
                                continue
                            st2 = st.copy()
                            st2.facts = st.facts | {(ck, truth)}
                    if s == fn["exit"]:
                        self.exit_blocks.add(bid)
                        line = b["elems"][-1]["line"] if b["elems"] else fn["endline"]
                        for hk, (what, l0) in st2.held.items():
                            self.rep("R-ALLOC.pair", line, "leak:%s" % what.split(" ")[0],
                                     "exit at line %d is reachable while %s is still held: neither freed / cleared nor handed to the "
                                     "caller on this path" % (line, what))
                        continue
                    pk = self.pkey(st2)
                    cur = IN[s].get(pk)
                    if cur is None:
                        if len(IN[s]) > 64:
                            raise OverflowError()
                        IN[s][pk] = st2.copy()
                        work.add(s)
                    elif cur.join(st2, s):
                        work.add(s)

    def block(self, b, st):
        callres = {}
        for el in b["elems"]:
            e, line = el["e"], el["line"]
            if e.get("k") == "call":
                r = self.call(e, st, line)
                if r:
                    callres[json.dumps(e, sort_keys=True)[:400]] = r
                continue

            def f(n):
                if n is not e and n.get("k") == "call":
                    return False
                k = n.get("k")
                if k == "binop" and n["op"] == "=":
                    if n["l"].get("k") == "var":
                        self.kill_facts(st, n["l"]["id"])
                    self.assign(n["l"], n["r"], st, line, callres)
                    return False
                if k == "binop" and n["op"] in ("+=", "-=") and n["l"].get("k") == "var" and "*" not in n["l"].get("ct", ""):
                    self.kill_facts(st, n["l"]["id"])
                    t = tadd(st.env.get(n["l"]["id"], T(0, [(("v", n["l"]["id"], 0), 1)])), self.term(n["r"], st), 1 if n["op"] == "+=" else -1)
                    st.env[n["l"]["id"]] = t if t is not None else T(0, [(("v", n["l"]["id"], line), 1)])
                    return False
                if k == "binop" and n["op"].endswith("=") and n["op"] not in ("==", "!=", "<=", ">="):
                    if n["l"].get("k") == "var":
                        self.kill_facts(st, n["l"]["id"])
                        st.env[n["l"]["id"]] = T(0, [(("v", n["l"]["id"], line), 1)])
                    elif key(n["l"]):
                        st.fver[key(n["l"])] = line
                    return False
                if k == "unop" and n["op"] in ("post++", "post--", "pre++", "pre--"):
                    if n["e"].get("k") == "var" and "*" not in n["e"].get("ct", ""):
                        self.kill_facts(st, n["e"]["id"])
                        st.env[n["e"]["id"]] = tadd(st.env.get(n["e"]["id"], T(0, [(("v", n["e"]["id"], 0), 1)])), T(1 if "++" in n["op"] else -1))
                    elif key(n["e"]):
                        st.fver[key(n["e"])] = line
                if k == "decl":
                    for d in n["decls"]:
                        if "init" in d:
                            self.kill_facts(st, d["var"]["id"])
                            self.assign(d["var"], d["init"], st, line, callres)
                    return False
                if k == "return":
                    if n.get("e"):
                        sa.walk(n["e"], lambda m: self.release(st, key(m)) if m.get("k") == "var" and key(m) in st.names else None)
                    return False
            sa.walk(e, f)


def passthrough_summaries(ex):
    """static helpers that return the block they were given, possibly after reallocating it:  s = store (s, &upto, &alloc, c).
    F qualifies for parameter k when every return hands back the variable of parameter k, and that variable is only ever reassigned
    from `reallocate (k, ...)`.  For the caller `p = F (.., p, ..)` then keeps the one block p owns (no copy, no leak)."""
    out = {}
    for path, fn in ex.functions():
        if sa.is_foreign_fixture(path, FIXTURE) or not fn.get("static"):
            continue
        pids = {p_["id"]: i for i, p_ in enumerate(fn["params"]) if "*" in p_.get("ct", "")}
        if not pids:
            continue
        rets, bad, reall = [], set(), set()
        for b in fn["blocks"]:
            for el in b["elems"]:
                def f(n):
                    if n.get("k") == "return":
                        r = n.get("e")
                        while isinstance(r, dict) and r.get("k") in ("cast", "paren"):
                            r = r["e"]
                        if isinstance(r, dict) and r.get("k") == "call" and r.get("callee") is None and akind(r) == "realloc" and r.get("args"):
                            r = r["args"][0]                    # return reallocate (p, old, new): the block that was given, possibly moved
                            while isinstance(r, dict) and r.get("k") in ("cast", "paren"):
                                r = r["e"]
                        rets.append(r["id"] if isinstance(r, dict) and r.get("k") == "var" else None)
                    if n.get("k") == "binop" and n["op"].endswith("=") and n["op"] not in ("==", "!=", "<=", ">=") and n["l"].get("k") == "var" \
                            and n["l"]["id"] in pids:
                        r = n["r"]
                        while isinstance(r, dict) and r.get("k") in ("cast", "paren"):
                            r = r["e"]
                        ok = n["op"] == "=" and isinstance(r, dict) and r.get("k") == "call" and r.get("callee") is None and akind(r) == "realloc" \
                            and r.get("args") and key(r["args"][0]) == key(n["l"])
                        (reall if ok else bad).add(n["l"]["id"])
                    if n.get("k") == "unop" and n["op"] in ("post++", "pre++", "post--", "pre--") and n["e"].get("k") == "var" and n["e"]["id"] in pids:
                        bad.add(n["e"]["id"])
                sa.walk(el["e"], f)
        if rets and len(set(rets)) == 1 and rets[0] in pids and rets[0] not in bad and "*" in fn.get("ret", "*"):
            out[fn["name"]] = pids[rets[0]]
    return out


def consume_summaries(ex):
    """static helpers that release a block they are given: on EVERY path to their exit the free function is called on pointer parameter k
    (doprnt_gmp_str (funs, data, param, gmp_str) prints the string and frees it).  A caller that hands an owned block to such a helper no
    longer owns it."""
    out = {}
    for path, fn in ex.functions():
        if sa.is_foreign_fixture(path, FIXTURE) or not fn.get("static"):
            continue
        pids = {p_["id"]: i for i, p_ in enumerate(fn["params"]) if "*" in p_.get("ct", "")}
        if not pids:
            continue
        blocks = sa.blocks_by_id(fn)
        frees = collections.defaultdict(set)          # block id -> params freed in it
        reassigned = set()
        for b in fn["blocks"]:
            for el in b["elems"]:
                def f(n, b=b):
                    if n.get("k") == "call" and n.get("callee") is None and akind(n) == "free" and n.get("args"):
                        a_ = n["args"][0]
                        while isinstance(a_, dict) and a_.get("k") in ("cast", "paren"):
                            a_ = a_["e"]
                        if isinstance(a_, dict) and a_.get("k") == "var" and a_["id"] in pids:
                            frees[b["id"]].add(a_["id"])
                    if n.get("k") == "binop" and n["op"].endswith("=") and n["op"] not in ("==", "!=", "<=", ">=") and n["l"].get("k") == "var" \
                            and n["l"]["id"] in pids:
                        reassigned.add(n["l"]["id"])
                sa.walk(el["e"], f)
        for pid_, idx in pids.items():
            if pid_ in reassigned or not any(pid_ in v for v in frees.values()):
                continue
            # must-pass-through: can the exit be reached from the entry without a block that frees the parameter?
            seen, todo, escapes = set(), [fn["entry"]], False
            while todo and not escapes:
                cur = todo.pop()
                if cur in seen or pid_ in frees.get(cur, ()):
                    continue
                seen.add(cur)
                if blocks[cur].get("noreturn"):
                    continue
                for s_ in blocks[cur]["succs"]:
                    if s_ == fn["exit"]:
                        escapes = True
                    elif isinstance(s_, int):
                        todo.append(s_)
            if not escapes:
                out.setdefault(fn["name"], set()).add(idx)
    return out


def run(prop="C04", tier="quick"):
    res = dict(findings=[], stats=collections.Counter(), samples=[], notes=[])
    ex = sa.export(sa.cfg_builtfx())
    sa.check_errors(ex)
    exc = set()
    for cols in spec_tsv("alloc_exceptions.tsv", 4):
        exc.add((cols[0], cols[1], cols[2]))
    # pass 1: which functions leave a block they allocated in a field reachable through a parameter
    summaries = {}
    for path, fn in ex.functions():
        if sa.is_foreign_fixture(path, FIXTURE):
            continue
        if not any(el["e"].get("k") == "call" and el["e"].get("callee") is None and akind(el["e"]) for b in fn["blocks"] for el in b["elems"]):
            continue
        a0 = Fn(fn, prop, [], collections.Counter())
        try:
            a0.run()
        except AnalysisBroken:
            continue
        if a0.hands_over:
            summaries[fn["name"]] = set(a0.hands_over)
    res["stats"]["handover_summaries"] = len(summaries)
    passthru = passthrough_summaries(ex)
    res["stats"]["passthrough_summaries"] = len(passthru)
    consumes = consume_summaries(ex)
    res["stats"]["consume_summaries"] = len(consumes)
    for path, fn in ex.functions():
        if sa.is_foreign_fixture(path, FIXTURE):
            continue
        txt = None
        has = False
        for b in fn["blocks"]:
            for el in b["elems"]:
                e = el["e"]
                if e.get("k") == "call" and (e.get("callee") in INIT_FNS or e.get("callee") in GETSTR or (e.get("callee") is None and akind(e))
                                             or e.get("callee") in summaries):
                    has = True
        if not has:
            continue
        out = []
        a = Fn(fn, prop, out, res["stats"], summaries)
        a.passthru = passthru
        a.consumes = consumes
        a.run()
        res["stats"]["functions"] += 1
        for (line, kind), v in a.verdict.items():
            if kind.startswith("init:"):
                res["stats"]["local_objects"] += 1
                continue
            res["stats"]["allocator_sites"] += 1
            if kind != "allocate":
                res["stats"]["size_obligations"] += 1
                res["stats"]["size_" + v] += 1
        res["stats"]["exits"] += len(a.exit_blocks)
        for f in out:
            if (f.rule, f.function, f.signature) in exc:
                res["stats"]["reviewed_exceptions"] += 1
                continue
            res["findings"].append(f)
    fx = [f for f in res["findings"] if f.file == FIXTURE]
    res["findings"] = [f for f in res["findings"] if f.file != FIXTURE]
    exp = {"fix_free_wrong_size": ("R-ALLOC.size", "free-size"), "fix_leak_local": ("R-ALLOC.pair", "leak:"),
           "fix_leak_block": ("R-ALLOC.pair", "leak:"), "fix_alloc_good": None,
           "fix_alloc_null_sentinel": None, "fix_alloc_null_sentinel_bad": ("R-ALLOC.pair", "leak:"),
           "fix_handover_leak": ("R-ALLOC.pair", "leak:"), "fix_handover_good": None,
           "fix_passthru_good": None, "fix_passthru_bad": ("R-ALLOC.pair", "leak:"),
           "fix_consume_good": None, "fix_consume_bad": ("R-ALLOC.pair", "leak:")}
    for fname, e2 in exp.items():
        got = [(f.rule, f.signature) for f in fx if f.function == fname]
        if e2 is None and got:
            raise AnalysisBroken("R-ALLOC fires on its negative fixture %s: %s" % (fname, got))
        if e2 is not None and not any(r == e2[0] and s.startswith(e2[1]) for r, s in got):
            raise AnalysisBroken("R-ALLOC no longer fires on its positive fixture %s (expected %s, got %s)" % (fname, e2, got))
    st = res["stats"]
    if st["allocator_sites"] < 80:
        raise AnalysisBroken("R-ALLOC saw only %d allocator call sites (floor 80)" % st["allocator_sites"])
    res["stats"] = dict(st)
    res["obligations"] = st["size_obligations"] + st["exits"]
    res["undecided"] = st["size_undecided"]
    res["samples"].append(dict(rule="R-ALLOC", functions=st["functions"], allocator_sites=st["allocator_sites"],
                               size_proved=st["size_proved"], size_undecided=st["size_undecided"], local_objects=st["local_objects"]))
    res["notes"].append("fixtures: 5 positive fired, 3 negative silent")
    res["exhaustive"] = True
    return res


def run_io(prop="C17", tier="quick"):
    """C17 view: the stream / raw / string I/O functions and the printf / scanf layer neither leak a heap block nor free one with
    the wrong size on any path, in particular on their failure exits (`without crashing or leaking`)"""
    from r_tmp import IO_UNITS
    r = run(prop=prop, tier=tier)
    r["findings"] = [f for f in r["findings"] if any(u in unoverlay(f.file) for u in IO_UNITS) or "/printf/" in unoverlay(f.file)
                     or "/scanf/" in unoverlay(f.file)]
    r["notes"].append("findings restricted to the I/O units (%d patterns) and printf/ scanf/" % len(IO_UNITS))
    return r


def run_blockmove(prop="C04", tier="quick"):
    """R-ALLOC.blockmove: a limb block and its recorded capacity travel together.  Every function that stores the `_mp_d` of an mpz / mpq-part /
    mpf object it received as a parameter also stores that object's `_mp_alloc` (mpz) or `_mp_prec` (mpf: the block holds prec + 1 limbs).
    Otherwise reallocate / free are later given a size that belongs to another block (mpf_swap without the precision), or writes are
    sized by the wrong capacity.  Local objects are exempt (read-only views such as `PTR (n) = PTR (N)`), and so is the generator state
    kept in `_mp_seed->_mp_d`."""
    res = dict(findings=[], stats=collections.Counter(), samples=[], notes=[])
    ex = sa.export(sa.cfg_builtfx())
    sa.check_errors(ex)
    fx = collections.Counter()
    for path, fn in ex.functions():
        if sa.is_foreign_fixture(path, FIXTURE):
            continue
        stores, info = collections.defaultdict(set), {}
        for b in fn["blocks"]:
            for el in b["elems"]:
                def f(n, el=el):
                    if n.get("k") == "binop" and n["op"] == "=":
                        l = n["l"]
                        while isinstance(l, dict) and l.get("k") == "cast":
                            l = l["e"]
                        if isinstance(l, dict) and l.get("k") == "member" and l["field"] in ("_mp_d", "_mp_alloc", "_mp_prec"):
                            bv = base_var(l)
                            bk = key(l["base"])
                            if bv is None or bk is None or bv.get("param") is None or "_mp_seed" in bk:
                                return
                            stores[bk].add(l["field"])
                            info.setdefault((bk, l["field"]), (bv, el["line"]))
                sa.walk(el["e"], f)
        for bk, fl in stores.items():
            if "_mp_d" not in fl:
                continue
            if path != FIXTURE:
                res["stats"]["block_stores"] += 1
            if not (fl & {"_mp_alloc", "_mp_prec"}):
                bv, line = info[(bk, "_mp_d")]
                f_ = Finding(prop, "R-ALLOC.blockmove", path, line, fn["name"], "block-without-capacity:%s" % bv["name"],
                             "%s stores the limb pointer of its parameter object %s at line %d but never that object's _mp_alloc / _mp_prec: the "
                             "block and the capacity recorded for it now belong to different allocations (a later free / reallocate gets the "
                             "wrong size, writes are bounded by the wrong capacity)" % (fn["name"], bv["name"], line))
                if path == FIXTURE:
                    fx[fn["name"]] += 1
                else:
                    res["findings"].append(f_)
    if not fx.get("fix_blockmove_bad") or fx.get("fix_blockmove_good"):
        raise AnalysisBroken("R-ALLOC.blockmove fixtures: %r" % dict(fx))
    if res["stats"]["block_stores"] < 10:
        raise AnalysisBroken("R-ALLOC.blockmove: only %d limb-pointer stores on parameter objects found (floor 10)" % res["stats"]["block_stores"])
    res["stats"] = dict(res["stats"])
    res["obligations"] = res["stats"]["block_stores"]
    res["notes"].append("fixtures: 1 positive fired, 1 negative silent")
    res["exhaustive"] = True
    return res


def stale_views(fn, path, bufs, passthru, prop, res, fx, strip, var):
    """R-BUFGROW, second clause: a pointer INTO a growable buffer (q = p + i, q = &p[i], q = p) is not used after the buffer may have been
    reallocated.  The reallocate function may move the block; the buffer variable is reassigned from its result, a pointer computed before
    is left pointing into the freed block.  May-dataflow: the set of view variables that were taken before a reallocation of their buffer
    that has happened since; any read of such a variable (dereference, argument, arithmetic, comparison with anything but NULL) is
    reported, an assignment to it clears it."""
    blocks = sa.blocks_by_id(fn)
    views = {}                      # q id -> buffer id  (every definition of q is based on that buffer, or NULL / 0)
    defs = collections.defaultdict(list)
    for b in fn["blocks"]:
        for el in b["elems"]:
            def f(n):
                if n.get("k") == "binop" and n["op"] == "=" and var(n["l"]) is not None and "*" in strip(n["l"]).get("ct", ""):
                    defs[var(n["l"])].append(n["r"])
                if n.get("k") == "decl":
                    for d_ in n["decls"]:
                        if "init" in d_ and "*" in d_["var"].get("ct", ""):
                            defs[d_["var"]["id"]].append(d_["init"])
            sa.walk(el["e"], f)

    def based_on(e):
        e = strip(e)
        if not isinstance(e, dict):
            return None
        if e.get("k") == "int" and e["v"] == 0:
            return "null"
        if e.get("k") == "var":
            return e["id"] if e["id"] in bufs else None
        if e.get("k") == "binop" and e["op"] in ("+", "-"):
            return based_on(e["l"]) if based_on(e["l"]) not in (None, "null") else None
        if e.get("k") == "unop" and e["op"] == "&" and strip(e["e"]).get("k") == "index":
            b_ = based_on(strip(e["e"])["base"])
            return b_ if b_ != "null" else None
        return None
    for q, rs in defs.items():
        if q in bufs:
            continue
        bs = {based_on(r) for r in rs}
        real = bs - {"null"}
        if len(real) == 1 and None not in bs:
            views[q] = next(iter(real))
    if not views:
        return
    if path != FIXTURE:
        res["stats"]["bufgrow_views"] += len(views)

    def reallocs(e):
        """buffers that e reassigns from the reallocate function (or from a helper that hands the block back)"""
        out = set()

        def f(n):
            if n.get("k") == "binop" and n["op"] == "=" and var(n["l"]) in bufs:
                r = strip(n["r"])
                if isinstance(r, dict) and r.get("k") == "call" and ((r.get("callee") is None and akind(r) == "realloc") or r.get("callee") in passthru):
                    out.add(var(n["l"]))
        sa.walk(e, f)
        return out
    IN = {fn["entry"]: frozenset()}
    work = {fn["entry"]}
    reported = set()
    while work:
        bid = max(work)
        work.discard(bid)
        st = set(IN[bid])
        for el in blocks[bid]["elems"]:
            e = el["e"]
            # reads of stale views (not: the left side of a plain assignment, a comparison with NULL)
            def rd(n, top=[True]):
                if n.get("k") == "binop" and n["op"] == "=" and var(n["l"]) in views:
                    sa.walk(n["r"], rd)
                    return False
                if n.get("k") == "binop" and n["op"] in ("==", "!=") and ((var(n["l"]) in views and based_on(n["r"]) == "null") or
                                                                       (var(n["r"]) in views and based_on(n["l"]) == "null")):
                    return False
                if n.get("k") == "var" and n["id"] in st and (el["line"], n["id"]) not in reported:
                    reported.add((el["line"], n["id"]))
                    f_ = Finding(prop, "R-BUFGROW", path, el["line"], fn["name"], "stale-view:%s" % n.get("name", "?"),
                                 "%s points into the growable buffer and was set before a reallocation of that buffer that may have happened "
                                 "since; it is used at line %d without being recomputed (the reallocate function may move the block)"
                                 % (n.get("name", "?"), el["line"]))
                    if path == FIXTURE:
                        fx[fn["name"]] += 1
                    else:
                        res["findings"].append(f_)
            sa.walk(e, rd)
            for bufid in reallocs(e):
                st |= {q for q, b_ in views.items() if b_ == bufid}
            # assignments to a view refresh it (after the reads of this element)
            def asg(n):
                if n.get("k") == "binop" and n["op"] == "=" and var(n["l"]) in views:
                    st.discard(var(n["l"]))
                if n.get("k") == "decl":
                    for d_ in n["decls"]:
                        if d_["var"]["id"] in views and "init" in d_:
                            st.discard(d_["var"]["id"])
            sa.walk(e, asg)
        if blocks[bid].get("noreturn"):
            continue
        for s_ in blocks[bid]["succs"]:
            if not isinstance(s_, int) or s_ == fn["exit"]:
                continue
            cur = IN.get(s_)
            new = frozenset(st) if cur is None else cur | frozenset(st)
            if cur is None or new != cur:
                IN[s_] = new
                work.add(s_)


def run_bufgrow(prop="C04", tier="quick"):
    """R-BUFGROW: a byte buffer that is grown on demand is only appended to where the path has established room.  For every local buffer p
    obtained from the allocate / reallocate function with a size variable A, and every fill index i that the function compares with A
    to decide about growing: a store p[i] or p[i++] needs the must-fact i < A, which holds after the non-growing edge of `i >= A` (or the
    true edge of `i < A`), or after the growing edge once A has been reassigned, and is lost when i or A changes.  Stores into the buffer
    with any other index are counted undecided.  (mpz_inp_str, mpf_inp_str, the scanf field buffer.)"""
    res = dict(findings=[], stats=collections.Counter(), samples=[], notes=[])
    ex = sa.export(sa.cfg_builtfx())
    sa.check_errors(ex)
    fx = collections.Counter()
    passthru = passthrough_summaries(ex)

    def strip(e):
        while isinstance(e, dict) and e.get("k") in ("cast", "paren"):
            e = e["e"]
        return e

    def var(e):
        e = strip(e)
        return e["id"] if isinstance(e, dict) and e.get("k") == "var" else None
    for path, fn in ex.functions():
        if sa.is_foreign_fixture(path, FIXTURE):
            continue
        # buffers: p = allocate (A) / reallocate (p, old, A)
        bufs = {}                       # p id -> set of size var ids
        for b in fn["blocks"]:
            for el in b["elems"]:
                def f(n):
                    if n.get("k") == "decl":
                        for d_ in n["decls"]:
                            if "init" in d_:
                                f(dict(k="binop", op="=", l=dict(k="var", id=d_["var"]["id"]), r=d_["init"]))
                        return
                    if n.get("k") == "binop" and n["op"] == "=" and var(n["l"]) is not None:
                        r = strip(n["r"])
                        if isinstance(r, dict) and r.get("k") == "call" and r.get("callee") is None and akind(r) in ("alloc", "realloc"):
                            sz = r["args"][0] if akind(r) == "alloc" else (r["args"][2] if len(r["args"]) > 2 else None)
                            ids = []
                            sa.walk(sz or {}, lambda m: ids.append(m["id"]) if m.get("k") == "var" and "*" not in m.get("ct", "") else None)
                            if len(ids) == 1:
                                bufs.setdefault(var(n["l"]), set()).add(ids[0])
                sa.walk(el["e"], f)
        if not bufs:
            continue
        blocks = sa.blocks_by_id(fn)
        stale_views(fn, path, bufs, passthru, prop, res, fx, strip, var)
        # growth checks  i >= A  etc.
        triples = set()
        for b in fn["blocks"]:
            t = b.get("term")
            if t and t.get("cond") and len(b["succs"]) == 2:
                c = strip(sa.strip_expect(sa.effective_cond(t)))
                while isinstance(c, dict) and c.get("k") == "unop" and c["op"] == "!":
                    c = strip(sa.strip_expect(c["e"]))
                if isinstance(c, dict) and c.get("k") == "binop" and c["op"] in (">=", "<", ">", "<=", "==", "!="):
                    ids = []
                    sa.walk(c, lambda m: ids.append(m["id"]) if m.get("k") == "var" and "*" not in m.get("ct", "") and m["id"] not in ids else None)
                    for p, As in bufs.items():
                        for A in As:
                            if A in ids and len(ids) == 2:
                                other = [x for x in ids if x != A][0]
                                # a growth test: on the edge where the buffer is full the size variable is reassigned
                                import r_contract
                                for si, s_ in enumerate(b["succs"]):
                                    fs = r_contract.constraints(sa.effective_cond(t), si == 0)
                                    fs = [f_ for f_ in (fs or []) if f_[0] != "ne"]
                                    full = r_contract.tadd(r_contract.T(0, [(("v", other), 1)]), r_contract.T(0, [(("v", A), 1)]), -1)
                                    if not (isinstance(s_, int) and fs and r_contract.implies(fs, full)):
                                        continue
                                    cur, hops, grows = s_, 0, False
                                    while isinstance(cur, int) and hops < 4 and not grows:
                                        for el2 in blocks[cur]["elems"]:
                                            def asg(m):
                                                nonlocal grows
                                                if m.get("k") == "binop" and m["op"].endswith("=") and m["op"] not in ("==", "!=", "<=", ">=") and var(m["l"]) == A:
                                                    grows = True
                                                if m.get("k") == "decl":
                                                    pass
                                            sa.walk(el2["e"], asg)
                                        nx = [x for x in blocks[cur]["succs"] if isinstance(x, int)]
                                        cur = nx[0] if len(nx) == 1 else None
                                        hops += 1
                                    if grows:
                                        triples.add((p, other, A))
        for (p, i, A) in sorted(triples):
            def room_edge(cond, truth):
                """True: i < A holds on this edge; 'grow': the edge on which the buffer is full (i >= A, or i == A); None: nothing.
                Any comparison that is linear in i and A is understood (i >= A, A <= i, i + 1 > A, i == A, ...)."""
                import r_contract
                facts = r_contract.constraints(cond, truth)
                if not facts:
                    return None
                facts = [f_ for f_ in facts if f_[0] != "ne"]
                sym_i, sym_a = ("v", i), ("v", A)
                room = r_contract.tadd(r_contract.tadd(r_contract.T(-1), r_contract.T(0, [(sym_a, 1)])), r_contract.T(0, [(sym_i, 1)]), -1)   # A - i - 1 >= 0
                full = r_contract.tadd(r_contract.T(0, [(sym_i, 1)]), r_contract.T(0, [(sym_a, 1)]), -1)                                      # i - A >= 0
                if r_contract.implies(facts, room):
                    return True
                if r_contract.implies(facts, full):
                    return "grow"
                return None
            def ne_edge(cond, truth):
                """the edge on which i != A is known (`i == A` false, `i != A` true)"""
                c = strip(sa.strip_expect(cond))
                while isinstance(c, dict) and c.get("k") == "unop" and c["op"] == "!":
                    c, truth = strip(sa.strip_expect(c["e"])), not truth
                if isinstance(c, dict) and c.get("k") == "binop" and c["op"] in ("==", "!=") and {var(c["l"]), var(c["r"])} == {i, A}:
                    return truth == (c["op"] == "!=")
                return False

            def const(e):
                e = strip(e)
                return e["v"] if isinstance(e, dict) and e.get("k") == "int" else None

            def level(ci, ca, lvl):
                if ci is not None and ca is not None:
                    return max(lvl, 2 if ci < ca else (1 if ci == ca else 0))
                return lvl
            # state: (lvl, growing, ci, ca)   lvl 2: i < A, 1: i <= A, 0: nothing known (must-facts; join = min);  ci / ca: the
            # constant the variable currently holds, if any (the initial  alloc_size = 100, str_size = 0)
            IN = {fn["entry"]: (0, False, None, None)}
            work = {fn["entry"]}
            reported = set()
            while work:
                bid = max(work)
                work.discard(bid)
                b = blocks[bid]
                lvl, growing, ci, ca = IN[bid]
                for el in b["elems"]:
                    e = el["e"]
                    # stores into the buffer
                    def g(n, el=el):
                        if n.get("k") == "binop" and n["op"] == "=" and strip(n["l"]).get("k") == "index" and var(strip(n["l"])["base"]) == p:
                            ix = strip(strip(n["l"])["idx"])
                            appended = var(ix) == i or (isinstance(ix, dict) and ix.get("k") == "unop" and ix["op"] in ("post++",) and var(ix["e"]) == i)
                            key_ = (el["line"], i)
                            if not appended:
                                if key_ not in reported:
                                    res["stats"]["bufgrow_other_index"] += 1 if path != FIXTURE else 0
                                    reported.add(key_)
                                return
                            if key_ not in reported and path != FIXTURE:
                                res["stats"]["bufgrow_appends"] += 1
                            if lvl < 2 and key_ + ("v",) not in reported:
                                reported.add(key_ + ("v",))
                                f_ = Finding(prop, "R-BUFGROW", path, el["line"], fn["name"], "append-without-room:%d" % el["line"],
                                             "the store into the growable buffer at line %d is reachable on a path that has not established that the "
                                             "fill index is below the allocated size since either last changed: when the buffer is exactly full the "
                                             "byte lands one past the block" % el["line"])
                                if path == FIXTURE:
                                    fx[fn["name"]] += 1
                                else:
                                    res["findings"].append(f_)
                            reported.add(key_)
                    sa.walk(e, g)
                    # kills / growth completion
                    def k(n):
                        nonlocal lvl, growing, ci, ca
                        tgt, val, step = None, None, None
                        if n.get("k") == "binop" and n["op"].endswith("=") and n["op"] not in ("==", "!=", "<=", ">="):
                            tgt = var(n["l"])
                            if n["op"] == "=":
                                val = const(n["r"])
                            elif n["op"] == "+=" and const(n["r"]) == 1:
                                step = 1
                        elif n.get("k") == "unop" and n["op"] in ("post++", "pre++", "post--", "pre--"):
                            tgt = var(n["e"])
                            step = 1 if n["op"].endswith("++") else None
                        elif n.get("k") == "decl":
                            for d_ in n["decls"]:
                                if d_["var"]["id"] in (i, A) and "init" in d_:
                                    v_ = const(d_["init"])
                                    if d_["var"]["id"] == i:
                                        ci = v_
                                    else:
                                        ca = v_
                                    lvl = level(ci, ca, 0)
                            return
                        if tgt == i:
                            if step == 1:                                  # one more byte used:  i < A  becomes  i <= A
                                ci = ci + 1 if ci is not None else None
                                lvl = level(ci, ca, max(lvl - 1, 0))
                            else:
                                ci = val
                                lvl = level(ci, ca, 0)
                        elif tgt == A:
                            ca = val
                            if growing:
                                lvl, growing = 2, False
                            else:
                                lvl = level(ci, ca, 0)
                    sa.walk(e, k)
                if b.get("noreturn"):
                    continue
                t = b.get("term")
                cond = sa.effective_cond(t) if t and t.get("cond") and len(b["succs"]) == 2 else None
                for si, s_ in enumerate(b["succs"]):
                    if not isinstance(s_, int) or s_ == fn["exit"]:
                        continue
                    o = (lvl, growing, ci, ca)
                    if cond is not None:
                        re_ = room_edge(cond, si == 0)
                        if re_ is True:
                            o = (2, False, ci, ca)
                        elif re_ == "grow":
                            o = (0, True, ci, ca)
                        elif lvl == 1 and ne_edge(cond, si == 0):            # i <= A and i != A
                            o = (2, growing, ci, ca)
                    cur = IN.get(s_)
                    new = o if cur is None else (min(cur[0], o[0]), cur[1] and o[1], cur[2] if cur[2] == o[2] else None, cur[3] if cur[3] == o[3] else None)
                    if cur is None or new != cur:
                        IN[s_] = new
                        work.add(s_)
            if path != FIXTURE:
                res["samples"].append(dict(rule="R-BUFGROW", function=fn["name"], file=relpath(path)))
    if not fx.get("fix_bufgrow_bad") or fx.get("fix_bufgrow_good") or not fx.get("fix_bufgrow_bad2") or fx.get("fix_bufgrow_good2") \
            or not fx.get("fix_bufview_bad") or fx.get("fix_bufview_good"):
        raise AnalysisBroken("R-BUFGROW fixtures: %r" % dict(fx))
    if res["stats"]["bufgrow_appends"] < 3:
        raise AnalysisBroken("R-BUFGROW: only %d append stores into growable buffers found (floor 3)" % res["stats"]["bufgrow_appends"])
    res["stats"] = dict(res["stats"])
    res["obligations"] = res["stats"]["bufgrow_appends"] + res["stats"].get("bufgrow_other_index", 0)
    res["undecided"] = res["stats"].get("bufgrow_other_index", 0)
    res["notes"].append("fixtures: 3 positive fired, 3 negative silent")
    res["exhaustive"] = True
    return res


def run_bufgrow_io(prop="C17", tier="quick"):
    """C17 view of R-BUFGROW: the input functions' token buffers"""
    return run_bufgrow(prop=prop, tier=tier)
