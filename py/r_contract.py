"""R-CONTRACT (C01, C02, C14): size dispatch only sends an operand to an algorithm inside the size domain that algorithm
declares in its own entry assertions - under the built tuning table (quick) and every shipped gmp-mparam.h (thorough).

Contracts are extracted from the repository on every run (-DWANT_ASSERT=1 export): an *entry assertion* of F is an
ASSERT whose condition is a linear constraint over F's parameters and constants, placed where it dominates every exit
and before any assignment to those parameters.  At each call site the caller's knowledge is the set of branch
conditions that dominate the call (edge dominance), its own entry assertions, and nothing else; both are linear
constraints  sum(a_i * x_i) + c >= 0  over integer variables that are not reassigned in between.

Three-valued per (call site, callee assertion):
  proved     a single known constraint with the same variable part implies it (or it is constant true);
  refuted    the assertion bounds ONE variable by a constant, every dominating condition that mentions that variable
             was understood, and the interval they leave contains a value outside the bound
             (the dispatch admits an operand size the algorithm excludes);
  undecided  everything else (relational constraints not matched, data-dependent sizes)."""
import collections, json

import sa
from core import *
from aliasflow import T, tadd, tscale, tconst
import r_assert, r_divzero

INF = 1 << 62


def lin(e):
    """linear Term over ('v', id) symbols, or None"""
    if not isinstance(e, dict):
        return None
    k = e.get("k")
    if k == "int":
        return T(e["v"])
    if k == "var":
        ct = e.get("ct", "")
        if "*" in ct or "[" in ct or "struct" in ct:
            return None
        return T(0, [(("v", e["id"]), 1)])
    if k == "cast":
        return lin(e["e"])
    if k == "binop" and e["op"] in ("+", "-"):
        return tadd(lin(e["l"]), lin(e["r"]), 1 if e["op"] == "+" else -1)
    if k == "binop" and e["op"] == "*":
        l, r = lin(e["l"]), lin(e["r"])
        if tconst(l) is not None:
            return tscale(r, tconst(l))
        if tconst(r) is not None:
            return tscale(l, tconst(r))
        return None
    if k == "unop" and e["op"] == "-":
        return tscale(lin(e["e"]), -1)
    return None


def constraints(cond, truth):
    """list of Terms t meaning t >= 0 that hold when `cond` evaluates to `truth`; None if not understood"""
    c = sa.strip_expect(cond)
    while isinstance(c, dict) and c.get("k") == "unop" and c["op"] == "!":
        c = sa.strip_expect(c["e"])
        truth = not truth
    if not isinstance(c, dict):
        return None
    if c.get("k") == "int":
        return []            # constant condition: no information
    if c.get("k") != "binop" or c["op"] not in ("<", ">", "<=", ">=", "==", "!="):
        return None
    l, r = lin(c["l"]), lin(c["r"])
    if l is None or r is None:
        return None
    op = c["op"]
    if not truth:
        op = {"<": ">=", ">": "<=", "<=": ">", ">=": "<", "==": "!=", "!=": "=="}[op]
    d = tadd(l, r, -1)           # l - r
    if op == ">=":
        return [d]
    if op == ">":
        return [tadd(d, T(-1))]
    if op == "<=":
        return [tscale(d, -1)]
    if op == "<":
        return [tadd(tscale(d, -1), T(-1))]
    if op == "==":
        return [d, tscale(d, -1)]
    # x != c  excludes one point; useful at the end of an interval (n >= 0 and n != 0)
    if len(d[1]) == 1:
        (s_, k), = d[1]
        if k in (1, -1):
            return [("ne", s_[1], -d[0] * k)]
    return []


def vars_of(t):
    if t[0] == "ne":
        return {t[1]}
    return {s[1] for s, _ in t[1]}


def mentions(e, ids):
    """does the (not understood) condition e constrain one of the variables?  Occurrences that only select a limb
    (dp[dn - 1] & HIGHBIT) or feed a call are about the data, not about the size."""
    hit = []

    def f(n):
        k = n.get("k")
        if k in ("index", "call", "member") or (k == "unop" and n["op"] == "*"):
            return False
        if k == "var" and n["id"] in ids:
            hit.append(1)
    sa.walk(e, f)
    return bool(hit)


def assigned_lines(fn):
    """var id -> sorted lines where it is assigned / modified"""
    out = collections.defaultdict(list)
    for b in fn["blocks"]:
        for el in b["elems"]:
            def f(n, el=el):
                k = n.get("k")
                if k == "binop" and n["op"].endswith("=") and n["op"] not in ("==", "!=", "<=", ">=") and n["l"].get("k") == "var":
                    out[n["l"]["id"]].append(el["line"])
                elif k == "unop" and n["op"] in ("post++", "post--", "pre++", "pre--") and n["e"].get("k") == "var":
                    out[n["e"]["id"]].append(el["line"])
                elif k == "unop" and n["op"] == "&" and n["e"].get("k") == "var":
                    out[n["e"]["id"]].append(el["line"])          # address taken: may change behind our back
            sa.walk(el["e"], f)
    return out


def entry_contract(fn, dom, exits):
    """[(Term over parameter INDICES, text)] - the entry assertions of fn"""
    pidx = {p["id"]: i for i, p in enumerate(fn["params"])}
    asg = assigned_lines(fn)
    out = []
    for b, t in r_assert.assert_sites(fn):
        if "ASSERT" not in (t.get("m") or []) and "ASSERT_ALWAYS" not in (t.get("m") or []):
            continue
        if any(m in ("MPN_COPY", "MPN_ZERO", "MPN_COPY_INCR", "MPN_COPY_DECR", "MPN_INCR_U", "MPN_DECR_U") for m in (t.get("m") or [])):
            continue
        if not all(b["id"] in dom[x] for x in exits if x in dom):
            continue
        cs = constraints(t["cond"], False)         # assertion holds when !(expr) is false
        if not cs:
            continue
        for c in cs:
            vs = vars_of(c)
            if c[0] == "ne" or not vs or not vs <= set(pidx):
                break
            if any(l < t["line"] for v in vs for l in asg.get(v, [])):
                break
        else:
            for c in cs:
                if c[0] == "ne":
                    continue
                out.append(((c[0], frozenset((("p", pidx[s[1]]), k) for s, k in c[1])), t.get("txt", "")[:80], t["line"]))
    return out


def implies(facts, ob):
    """facts / ob are Terms meaning >= 0; single-fact implication"""
    c = tconst(ob)
    if c is not None:
        return c >= 0
    for f in facts:
        if f[0] != "ne" and f[1] == ob[1] and f[0] <= ob[0]:
            return True
    if len(ob[1]) == 1:
        (s_, k), = ob[1]
        lo, hi = interval(facts, s_[1])
        worst = lo if k > 0 else hi
        if abs(worst) < INF and k * worst + ob[0] >= 0:
            return True
    return False


def interval(facts, var):
    """[lo, hi] of a single variable from the constraints that mention only it"""
    lo, hi = -INF, INF
    for f in facts:
        if f[0] == "ne":
            continue
        if len(f[1]) == 1:
            (s, k), = f[1]
            if s[1] != var:
                continue
            # k*x + c >= 0
            if k > 0:
                lo = max(lo, -(f[0] // k))            # x >= ceil(-c/k)
            else:
                hi = min(hi, f[0] // (-k))             # x <= floor(c/-k)
    for _ in range(4):
        for f in facts:
            if f[0] == "ne" and f[1] == var:
                if f[2] == lo:
                    lo += 1
                if f[2] == hi:
                    hi -= 1
    return lo, hi


def analyse_unit_functions(ex, contracts, prop, res, table):
    F = res["findings"]
    for path, fn in ex.functions():
        calls = []
        for b in fn["blocks"]:
            for el in b["elems"]:
                e = el["e"]
                if e.get("k") == "call" and e.get("callee") in contracts and e["callee"] != fn["name"]:
                    calls.append((b, el, e))
        if not calls:
            continue
        blocks = sa.blocks_by_id(fn)
        dom, preds = r_divzero.dominators(fn)
        asg = assigned_lines(fn)
        exits = [p for p in preds.get(fn["exit"], ())]
        own = []
        if fn["name"] in contracts:
            pid = [p["id"] for p in fn["params"]]
            for (c, ps), txt, ln in contracts[fn["name"]]:
                own.append(((c, frozenset(((("v", pid[s[1]]), k) for s, k in ps))), ln))
        for b, el, e in calls:
            line = el["line"]
            # dominating branch facts
            facts, unknown_conds, branch_facts, relational = [], [], [], []
            for d in dom[b["id"]]:
                if d == b["id"]:
                    continue
                db = blocks[d]
                t = db.get("term")
                if t and t.get("kind") == "SwitchStmt" and t.get("switch_cond"):
                    # the arm that dominates the call: case v  =>  x == v ;  default  =>  x != every case value
                    x = lin(t["switch_cond"])
                    if x is not None and len(x[1]) == 1 and not any(t["line"] <= l <= line for v in vars_of(x) for l in asg.get(v, [])):
                        (sx, kx), = x[1]
                        vals = []
                        for s_ in db["succs"]:
                            if isinstance(s_, int) and "case" in blocks[s_] and blocks[s_]["case"].get("k") == "int":
                                vals.append(blocks[s_]["case"]["v"])
                        for s_ in db["succs"]:
                            if isinstance(s_, int) and s_ in dom[b["id"]] and len(preds[s_]) == 1 and kx == 1 and x[0] == 0:
                                sb = blocks[s_]
                                if "case" in sb and sb["case"].get("k") == "int":
                                    v = sb["case"]["v"]
                                    for c in (tadd(x, T(-v)), tadd(tscale(x, -1), T(v))):
                                        facts.append(c)
                                        branch_facts.append(c)
                                elif sb.get("default"):
                                    for v in vals:
                                        facts.append(("ne", sx[1], v))
                                        branch_facts.append(("ne", sx[1], v))
                    continue
                if not t or not t.get("cond") or len(db["succs"]) != 2:
                    continue
                if "ASSERT_ALWAYS" in (t.get("m") or []):
                    continue        # an internal ASSERT is a claim, not knowledge; entry assertions are added below
                s0, s1 = db["succs"]
                truth = None
                for si, s in ((0, s0), (1, s1)):
                    other = s1 if si == 0 else s0
                    if isinstance(s, int) and s in dom[b["id"]] and len([p for p in preds[s]]) == 1 \
                            and not (isinstance(other, int) and other in dom[b["id"]]):
                        truth = (si == 0)
                if truth is None:
                    continue
                cond = sa.effective_cond(t)
                cs = constraints(cond, truth)
                if cs is None:
                    unknown_conds.append(cond)
                    continue
                for c in cs:
                    vs = vars_of(c)
                    # the variables must not be modified between the test and the call
                    if any(t["line"] <= l <= line for v in vs for l in asg.get(v, [])):
                        relational.append(c)
                        continue
                    facts.append(c)
                    branch_facts.append(c)
                    if c[0] != "ne" and len(c[1]) > 1:
                        relational.append(c)
            for c, ln in own:
                vs = vars_of(c)
                if not any(l <= line for v in vs for l in asg.get(v, [])):
                    facts.append(c)
            for (c0, ps), txt, aline in contracts[e["callee"]]:
                if c0 == "ne":
                    continue
                # substitute actual arguments for the parameters
                ob = T(c0)
                ok = True
                for (s, k) in ps:
                    i = s[1]
                    a = lin(e["args"][i]) if i < len(e["args"]) else None
                    if a is None:
                        ok = False
                        break
                    ob = tadd(ob, tscale(a, k))
                res["stats"]["obligations"] += 1
                if not ok:
                    res["stats"]["undecided"] += 1
                    continue
                if implies(facts, ob):
                    res["stats"]["proved"] += 1
                    if len(res["samples"]) < 12 and len(ob[1]) >= 1:
                        res["samples"].append(dict(rule="R-CONTRACT", caller=fn["name"], callee=e["callee"], line=line,
                                                   assertion=txt, table=os.path.relpath(table, REPO), verdict="proved"))
                    continue
                verdict = "undecided"
                if len(ob[1]) == 1:
                    (s, k), = ob[1]
                    var = s[1]
                    lo, hi = interval(facts, var)
                    # every dominating condition that mentions var must have been understood
                    # a condition we did not understand, or a relation with other variables that bounds var from the same side
                    # as the obligation, could exclude the violating value: then nothing is refuted
                    def same_side(c):
                        if c[0] == "ne":
                            return False
                        co = dict((s_[1], kk) for s_, kk in c[1]).get(var, 0)
                        return co * k > 0
                    blocked = any(mentions(u, {var}) for u in unknown_conds) or any(same_side(c) for c in relational) \
                        or any(l <= line for l in asg.get(var, []))
                    if not blocked:
                        # k*x + c >= 0 violated by some x in [lo, hi]?
                        worst = lo if k > 0 else hi
                        # the violating bound must come from a dispatch condition of this function: a bound that is merely
                        # the caller's own (possibly incomplete) entry assertion says nothing about what the dispatch admits
                        olo, ohi = interval([c for c, _ in own], var)
                        from_branch = (lo != olo) if k > 0 else (hi != ohi)
                        if abs(worst) < INF and k * worst + ob[0] < 0 and from_branch:
                            verdict = "refuted"
                            nm = var_name(fn, var)
                            F.append(Finding(prop, "R-CONTRACT", fn["file"], line, fn["name"],
                                             "domain:%s:%s:%s" % (e["callee"], "".join(txt.split()), os.path.relpath(table, REPO)),
                                             "%s calls %s at line %d with %s = %d admitted by the dispatch conditions (they leave %s in [%s, %s]), "
                                             "but %s requires %s; tuning table %s"
                                             % (fn["name"], e["callee"], line, nm, worst, nm, lo if lo > -INF else "-inf",
                                                hi if hi < INF else "+inf", e["callee"], txt, os.path.relpath(table, REPO))))
                res["stats"][verdict] += 1


def interval_complete(asg, var, line, fn):
    return not any(l <= line for l in asg.get(var, []))


def var_name(fn, vid):
    for p in fn["params"]:
        if p["id"] == vid:
            return p["name"]
    names = {}
    for b in fn["blocks"]:
        for el in b["elems"]:
            sa.walk(el["e"], lambda n: names.__setitem__(n["id"], n["name"]) if n.get("k") == "var" else None)
    return names.get(vid, "v%d" % vid)


def array_contract(fn):
    """implicit entry contract of a function that fills a fixed-size local limb array with an amount that depends on its parameters
    (mpn_sb_get_str: MPN_COPY (rp + 1, up, un) into rp[GET_STR_PRECOMPUTE_THRESHOLD] needs un + 1 <= the threshold): the constraint
    counts only if every path from entry to exit passes through a write that implies it"""
    import aliasflow
    if not any(e.get("k") == "decl" and any(aliasflow._ARR.match(d["var"].get("ct", "")) for d in e["decls"])
               for b in fn["blocks"] for el in b["elems"] for e in (el["e"],)):
        return []
    a = aliasflow.Analysis(fn, "", lambda f: None, collections.Counter())
    try:
        a.run()
    except AnalysisBroken:
        return []
    if not a.implied:
        return []
    pidx = {p["id"]: i for i, p in enumerate(fn["params"])}
    asg = assigned_lines(fn)
    by = collections.defaultdict(set)
    info = {}
    for need, line, bid, arr in a.implied:
        by[need].add(bid)
        info.setdefault(need, (line, arr))
    blocks = sa.blocks_by_id(fn)
    _, preds = r_divzero.dominators(fn)
    # the inline copy / fill macros guard their body with `if ((n) != 0)`: skipping an empty copy does not avoid the constraint
    for need, bids in by.items():
        for bid in list(bids):
            for p_ in preds.get(bid, ()):
                t = blocks[p_].get("term") or {}
                if any(m in aliasflow.Analysis.INLINE_FILLS for m in (t.get("m") or [])):
                    bids.add(p_)
    out = []
    for need, bids in by.items():
        # unavoidable: the exit is unreachable from the entry once the generating blocks are removed
        seen, work = {fn["entry"]}, [fn["entry"]]
        reach = False
        while work:
            x = work.pop()
            if x in bids:
                continue
            if x == fn["exit"]:
                reach = True
                break
            if blocks[x].get("noreturn"):
                continue
            for s_ in blocks[x]["succs"]:
                if isinstance(s_, int) and s_ not in seen:
                    seen.add(s_)
                    work.append(s_)
        if reach:
            continue
        line, arr = info[need]
        vs = {sym[1] for sym, _ in need[1]}
        if any(l < line for v in vs for l in asg.get(v, [])):
            continue                                      # the parameter is modified before the write
        txt = "extent of local array %s[] (line %d)" % (arr, line)
        out.append(((need[0], frozenset((("p", pidx[sym[1]]), k) for sym, k in need[1])), txt, line))
    return out


def extract_contracts(ex):
    contracts = {}
    for path, fn in ex.functions():
        if not fn["blocks"]:
            continue
        dom, preds = r_divzero.dominators(fn)
        exits = list(preds.get(fn["exit"], ()))
        c = entry_contract(fn, dom, exits) + array_contract(fn)
        if c:
            contracts[fn["name"]] = c
    return contracts


def run(prop="C01", tier="quick", dirs=None):
    res = dict(findings=[], stats=collections.Counter(), samples=[], notes=[])
    built = os.path.realpath(os.path.join(REPO, "gmp-mparam.h"))
    ex = sa.export(sa.cfg_assert())
    sa.check_errors(ex)
    contracts = extract_contracts(ex)
    res["stats"]["callees_with_contract"] = len(contracts)
    res["stats"]["contract_assertions"] = sum(len(v) for v in contracts.values())
    for need in ("__gmpn_toom3_mul_n", "__gmpn_toom8h_mul", "__gmpn_toom3_mul", "__gmpn_sb_div_qr", "__gmpn_dc_div_qr"):
        if need not in contracts:
            raise AnalysisBroken("R-CONTRACT: the entry assertions of %s were not found" % need)
    analyse_unit_functions(ex, contracts, prop, res, built)
    ntab = 1
    if tier == "thorough":
        us = r_assert.tuned_units()
        for t in r_assert.mparam_tables():
            if os.path.realpath(t) == built:
                continue
            tag = os.path.relpath(os.path.dirname(t), os.path.join(REPO, "mpn/x86_64")).replace("/", "-")
            c = sa.Config("assert-mparam-" + tag, flags=["-DWANT_ASSERT=1"],
                          overlay={os.path.join(REPO, "gmp-mparam.h"): OVERLAY.get(t, t)}, units=us)
            e2 = sa.export(c)
            sa.check_errors(e2)
            c2 = dict(contracts)
            c2.update(extract_contracts(e2))
            analyse_unit_functions(e2, c2, prop, res, t)
            ntab += 1
    res["stats"]["tuning_tables"] = ntab
    if res["stats"]["obligations"] < 200:
        raise AnalysisBroken("R-CONTRACT found only %d call-site obligations (floor 200)" % res["stats"]["obligations"])
    res["stats"] = dict(res["stats"])
    res["obligations"] = res["stats"]["obligations"]
    res["undecided"] = res["stats"].get("undecided", 0)
    res["proved"] = res["stats"].get("proved", 0)
    res["exhaustive"] = True
    return res
