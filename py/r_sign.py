"""R-SIGN (C12 "denominator positive"; C07 / C08 / C09 "non-negative result"): the sign the manual documents for a result holds at
every exit of the function that produces it, for every sign combination of the inputs and every permitted aliasing of the result
with an input.

Forward abstract interpretation over the Clang CFG with the sign domain (subsets of {negative, zero, positive}) for integer locals
and for the size field of every mpz object the function can name (parameters, the numerator / denominator of mpq parameters,
local mpz_t / mpq_t).  Branch conditions that compare such a quantity with 0 / 1 / -1 refine it; pointer comparisons between object
parameters are decided by the alias *scenario* under analysis (result distinct from every input; result the same variable as each
non-empty subset of the inputs of its type - in a scenario the aliased objects are one abstract object, so updates are strong).
mpz functions are summarised by their sign algebra (product, exact quotient, gcd, copy, negation, ...), static helpers of the unit
by the verdict this rule reaches for them; every other callee makes the objects it may write unknown.

Three-valued.  *proved*: at every exit, in every scenario, the sign set is inside the documented one.  *refuted*: some exit value
is outside it AND the value is *exact* - every sign in the set is attained for some admissible input on the path: it was built from
entry quantities (whose signs the caller chooses freely) only by copies, negation, ABS-like conditionals, multiplication with a
factor of definite sign, exact division, and refinement by understood conditions.  Exactness is dropped by anything else (sums of
mixed signs, unknown callees, comparisons ...) and, for every quantity that shares a source with it, by a condition on a copy
(a test of `n` says something about `m = n` that the domain does not record).  Everything else is *undecided* and never alarms.
"""
import collections, fnmatch

import sa
from core import *

FIXTURE = os.path.join(VERIF, "selftest", "fixtures", "sign_fix.c")

N, Z, P = 1, 2, 4
TOP = N | Z | P
NAMES = {N: "negative", Z: "zero", P: "positive"}


def sname(m):
    return " or ".join(NAMES[b] for b in (N, Z, P) if m & b) or "nothing"


class Val(tuple):
    """(signs, tags, link): tags is a frozenset of source names when the value is exact, None otherwise; link = (root, pol) says
    sign (value) = pol * sign (root) for pol in '+', '-', or sign (|root|) for 'abs', where root names an entry quantity (immutable)"""
    __slots__ = ()

    def __new__(cls, signs, tags=None, link=None, susp=frozenset(), att=None):
        if tags is None:
            susp, att = frozenset(), 0
        elif att is None:
            att = signs
        att &= signs
        if att == 0:
            tags, susp = None, frozenset()
        return tuple.__new__(cls, (signs, tags, link, susp, att))

    signs = property(lambda s: s[0])
    tags = property(lambda s: s[1])
    link = property(lambda s: s[2])
    susp = property(lambda s: s[3])      # branch blocks whose not-understood condition mentions a source of this value: what is attained
    #                                      is suspended on their arms and comes back where the arms meet again, if the value is untouched
    att = property(lambda s: s[4])       # the signs known to be ATTAINED for some admissible input on the path (subset of signs)
    exact = property(lambda s: s[4] == s[0] and not s[3])
    attained = property(lambda s: 0 if s[3] else s[4])

    def used(s):
        """the value as an operand: a suspended one counts as inexact in everything derived from it"""
        return s if not s[3] else Val(s[0], None, s[2])


UNK = Val(TOP, None)
NONNEG = Val(Z | P, None)
UNSURE = ("unsure",)      # state key: branch blocks (or "expr") whose arms are not known to be feasible on the current path


def sneg(m):
    return (P if m & N else 0) | (Z if m & Z else 0) | (N if m & P else 0)


def sabs(m):
    return (Z if m & Z else 0) | (P if m & (N | P) else 0)


def img(pol, rootset):
    return rootset if pol == "+" else sneg(rootset) if pol == "-" else sabs(rootset)


def preimg(pol, allowed):
    if pol == "+":
        return allowed
    if pol == "-":
        return sneg(allowed)
    return (Z if allowed & Z else 0) | ((N | P) if allowed & P else 0)


def lneg(link):
    if link is None or link[1] == "abs":
        return None
    return (link[0], "-" if link[1] == "+" else "+")


def vjoin(a, b):
    if a is None:
        return b
    if b is None:
        return a
    link = a.link if a.link == b.link else None
    if link is None and a.link and b.link and a.link[0] == b.link[0] and (a.signs | b.signs) & N == 0:
        link = (a.link[0], "abs")            # n where n >= 0, -n where n < 0 (or either of them with |n|)
    tags = (a.tags or frozenset()) | (b.tags or frozenset()) if (a.att | b.att) else None
    return Val(a.signs | b.signs, tags, link, a.susp | b.susp, a.att | b.att)


def vneg(a):
    return Val(sneg(a.signs), a.tags, lneg(a.link), a.susp, sneg(a.att))


def vabs(a):
    return Val(sabs(a.signs), a.tags, (a.link[0], "abs") if a.link else None, a.susp, sabs(a.att))


def smul(x, y):
    s = 0
    for i in (N, Z, P):
        if x & i:
            for j in (N, Z, P):
                if y & j:
                    s |= Z if Z in (i, j) else (P if i == j else N)
    return s


def sadd_def(x, y):
    """signs of sums that are determined by the signs of the terms"""
    s = 0
    for i in (N, Z, P):
        if x & i:
            for j in (N, Z, P):
                if y & j:
                    if i == Z:
                        s |= j
                    elif j == Z or i == j:
                        s |= i
    return s


def independent(a, b):
    return a.tags is not None and b.tags is not None and not (a.tags & b.tags)


def vmul(a, b):
    a, b = a.used(), b.used()
    s = smul(a.signs, b.signs)
    if a.signs == Z or b.signs == Z:
        z = a if a.signs == Z else b
        return Val(Z, z.tags, None, frozenset(), z.att)
    if b.signs in (N, P):
        return Val(s, a.tags, a.link if b.signs == P else lneg(a.link), frozenset(), smul(a.att, b.signs))
    if a.signs in (N, P):
        return Val(s, b.tags, b.link if a.signs == P else lneg(b.link), frozenset(), smul(b.att, a.signs))
    if independent(a, b):
        return Val(s, a.tags | b.tags, None, frozenset(), smul(a.att, b.att))
    return Val(s, None)


def vadd(a, b):
    a, b = a.used(), b.used()
    if a.signs == Z:
        return b
    if b.signs == Z:
        return a
    s = 0
    for x in (N, Z, P):
        if not a.signs & x:
            continue
        for y in (N, Z, P):
            if not b.signs & y:
                continue
            if x == Z:
                s |= y
            elif y == Z:
                s |= x
            elif x == y:
                s |= x
            else:
                s |= TOP
    if independent(a, b):
        # the terms' signs are chosen independently: a sum of two attained signs that determine the sign of the sum is attained
        return Val(s, a.tags | b.tags, None, frozenset(), sadd_def(a.att, b.att))
    return Val(s, None)


def vstep(a, d):
    """a + d for d = +1 / -1 on integers: positive means >= 1, so one step down from positive cannot pass zero"""
    s = 0
    if d > 0:
        s = (N | Z if a.signs & N else 0) | (P if a.signs & (Z | P) else 0)
    else:
        s = (Z | P if a.signs & P else 0) | (N if a.signs & (Z | N) else 0)
    return Val(s, None)


def _strip(e):
    while isinstance(e, dict) and e.get("k") in ("cast", "paren"):
        e = e["e"]
    return e


def is_unsigned(t):
    t = (t or "")
    return "unsigned" in t or t in ("mp_limb_t", "mp_bitcnt_t", "size_t", "mpir_ui")


def struct_of(ct):
    ct = ct or ""
    for s in ("__mpz_struct", "__mpq_struct"):
        if s in ct:
            return s
    return None


class Fn:
    def __init__(self, fn, summaries):
        self.fn = fn
        self.blocks = sa.blocks_by_id(fn)
        self.summaries = summaries
        self.params = fn["params"]
        self.pidx = {p["id"]: i for i, p in enumerate(self.params)}
        # local object variables and local object-pointer bindings (flow-insensitive; a pointer with more than one definition is unknown)
        self.local_obj = {}          # var id -> struct
        self.reassigned = set()      # object-pointer parameters that the function itself redirects (MPZ_SRCPTR_SWAP ...): not followed
        self.bind = collections.defaultdict(list)
        for b in fn["blocks"]:
            for el in b["elems"]:
                sa.walk(el["e"], self._scan)
        self.unknown_ptr_store = False

    def _scan(self, n):
        if n.get("k") == "decl":
            for d in n["decls"]:
                v = d["var"]
                s = struct_of(v.get("ct"))
                if s and "*" not in v.get("ct", ""):
                    self.local_obj[v["id"]] = s
                elif s and "*" in v.get("ct", ""):
                    self.bind[v["id"]].append(d.get("init"))
        if n.get("k") == "binop" and n["op"] == "=":
            l = _strip(n["l"])
            if isinstance(l, dict) and l.get("k") == "var" and struct_of(l.get("ct")) and "*" in l.get("ct", "") and l["id"] not in self.pidx:
                self.bind[l["id"]].append(n["r"])
            elif isinstance(l, dict) and l.get("k") == "var" and struct_of(l.get("ct")) and "*" in l.get("ct", "") and l["id"] in self.pidx:
                self.reassigned.add(l["id"])
                self.bind[l["id"]].append(n["r"])

    # ---- objects ------------------------------------------------------------------------------------------------------------
    def obj(self, e, depth=0):
        """abstract mpz object denoted by an expression of type __mpz_struct * (or the struct lvalue itself); None = unknown"""
        e = _strip(e)
        if not isinstance(e, dict) or depth > 4:
            return None
        k = e.get("k")
        if k == "unop" and e["op"] in ("&", "*"):
            return self.obj(e["e"], depth)
        if k == "index":
            return self.obj(e["base"], depth)
        if k == "var":
            s = struct_of(e.get("ct"))
            if s != "__mpz_struct":
                return None
            if e["id"] in self.reassigned:
                return self.may_objs(e["id"])
            if e["id"] in self.pidx:
                return self.canon(("p", e["id"]))
            if e["id"] in self.local_obj:
                return ("l", e["id"])
            defs = self.bind.get(e["id"], [])
            if len(defs) == 1 and defs[0] is not None:
                return self.obj(defs[0], depth + 1)
            return None
        if k == "member" and e["field"] in ("_mp_num", "_mp_den"):
            q = self.qobj(e["base"], depth)
            if q is not None:
                return self.canon((q[0] + "f", q[1], e["field"]))
        return None

    def may_objs(self, vid):
        """a redirected object-pointer parameter names its own object or one of those it is ever assigned (MPZ_PTR_SWAP): ('may', set), or
        None when some assignment is not another object we can name"""
        seen, todo, out = set(), [vid], set()
        while todo:
            v = todo.pop()
            if v in seen:
                continue
            seen.add(v)
            if v in self.pidx:
                out.add(self.canon(("p", v)))
            elif v in self.local_obj:
                out.add(("l", v))
                continue
            for r in self.bind.get(v, []):
                r = _strip(r)
                while isinstance(r, dict) and r.get("k") == "unop" and r["op"] == "&":
                    r = _strip(r["e"])
                while isinstance(r, dict) and r.get("k") == "index":
                    r = _strip(r["base"])
                if isinstance(r, dict) and r.get("k") == "var" and struct_of(r.get("ct")) == "__mpz_struct":
                    todo.append(r["id"])
                else:
                    return None
        return ("may", frozenset(out))

    def qobj(self, e, depth=0):
        e = _strip(e)
        if not isinstance(e, dict) or depth > 4:
            return None
        k = e.get("k")
        if k == "unop" and e["op"] in ("&", "*"):
            return self.qobj(e["e"], depth)
        if k == "index":
            return self.qobj(e["base"], depth)
        if k == "var" and struct_of(e.get("ct")) == "__mpq_struct" and e["id"] not in self.reassigned:
            if e["id"] in self.pidx:
                return ("p", e["id"])
            if e["id"] in self.local_obj:
                return ("l", e["id"])
            defs = self.bind.get(e["id"], [])
            if len(defs) == 1 and defs[0] is not None:
                return self.qobj(defs[0], depth + 1)
        return None

    def canon(self, o):
        if o[0] in ("p", "pf") and o[1] in self.unify:
            return (o[0], self.unify[o[1]]) + tuple(o[2:])
        return o

    def oname(self, o):
        names = {p["id"]: p["name"] for p in self.params}
        if o[0] == "p":
            return names.get(o[1], "?")
        if o[0] == "pf":
            return "%s->%s" % (names.get(o[1], "?"), o[2])
        return "local#%d%s" % (o[1], "." + o[2] if len(o) > 2 else "")

    # ---- values -------------------------------------------------------------------------------------------------------------
    def get(self, st, key):
        if key[0] == "may":
            out = None
            for c in key[1]:
                out = vjoin(out, st.get(c, UNK))
            return Val(out.signs, None) if out is not None else UNK
        if key in st:
            return st[key]
        return UNK

    def rd(self, st, key):
        return self.get(st, key).used()

    def atom(self, e):
        """state key of an expression that is a tracked quantity, else None"""
        e = _strip(e)
        if not isinstance(e, dict):
            return None
        if e.get("k") == "var" and "*" not in e.get("ct", "") and not struct_of(e.get("ct")):
            return ("v", e["id"])
        if e.get("k") == "member" and e["field"] == "_mp_size":
            o = self.obj(e["base"])
            if o is not None and o[0] != "may":
                return o
        return None

    def eval(self, e, st):
        if not isinstance(e, dict):
            return UNK
        k = e.get("k")
        if k in ("cast", "paren"):
            v = self.eval(e["e"], st)
            if k == "cast" and is_unsigned(e.get("t")) and v.signs & N:
                inner = _strip(e["e"])
                if not is_unsigned(inner.get("t") or inner.get("ct")):
                    return Val((v.signs & ~N) | P, v.tags, None, frozenset(), (v.att & ~N) | (P if v.att & N else 0))      # a negative value converted to an unsigned type is a large positive one
            return v
        if k == "int":
            # a constant is attained whenever its path is; on an arm whose feasibility is not known it is not known to be attained
            return Val(Z if e["v"] == 0 else (P if e["v"] > 0 else N), None if st.get(UNSURE) else frozenset())
        a = self.atom(e)
        if a is not None:
            v = self.rd(st, a)
            if k == "var" and is_unsigned(e.get("ct")) and v.signs & N:
                return NONNEG
            return v
        if k == "member":
            if e["field"] == "_mp_size":
                o = self.obj(e["base"])
                if o is not None:
                    return self.get(st, o)                    # through a redirected pointer: what any of its objects holds
            return NONNEG if e["field"] in ("_mp_alloc", "_mp_prec") or is_unsigned(e.get("t")) else UNK
        if k == "unop":
            if e["op"] == "-":
                return vneg(self.eval(e["e"], st))
            if e["op"] == "+":
                return self.eval(e["e"], st)
            if e["op"] == "!":
                return NONNEG
            if e["op"] in ("post++", "post--", "pre++", "pre--"):
                return UNK
        if k == "binop":
            op = e["op"]
            if op == "=":
                return self.eval(e["r"], st)
            if op in ("==", "!=", "<", ">", "<=", ">=", "&&", "||"):
                return NONNEG
            if op in ("+", "-"):
                r_ = _strip(e["r"])
                l_ = _strip(e["l"])
                if isinstance(r_, dict) and r_.get("k") == "int" and r_["v"] in (1, -1):
                    return vstep(self.eval(e["l"], st), r_["v"] if op == "+" else -r_["v"])
                if op == "+" and isinstance(l_, dict) and l_.get("k") == "int" and l_["v"] in (1, -1):
                    return vstep(self.eval(e["r"], st), l_["v"])
                r = self.eval(e["r"], st)
                return vadd(self.eval(e["l"], st), r if op == "+" else vneg(r))
            if op in ("/", "%", ">>", "&"):
                l, r = self.eval(e["l"], st), self.eval(e["r"], st)
                if op == "&" and (l.signs & N == 0 or r.signs & N == 0):
                    return NONNEG
                if l.signs & N == 0 and r.signs & N == 0:
                    return NONNEG
                return UNK
            if op == "*":
                return vmul(self.eval(e["l"], st), self.eval(e["r"], st))
            if op == ",":
                return self.eval(e["r"], st)
        if k == "cond":
            c_ = sa.strip_expect(e["c"])
            if isinstance(c_, dict) and c_.get("k") == "binop" and c_["op"] in (">=", ">") and _strip(c_["r"]).get("k") == "int" \
                    and _strip(c_["r"])["v"] == 0 and _strip(e["b"]).get("k") == "unop" and _strip(e["b"])["op"] == "-" \
                    and _strip(_strip(e["b"])["e"]) == _strip(e["a"]) == _strip(c_["l"]):
                return vabs(self.eval(e["a"], st))            # ABS (x), whatever x is
            out = None
            understood = True
            for arm, truth in ((e["a"], True), (e["b"], False)):
                s2, ok = self.refine(dict(st), e["c"], truth)
                understood = understood and ok
                if s2 is None:
                    continue
                if not self.last_sure:
                    s2[UNSURE] = frozenset(s2.get(UNSURE, ())) | {"expr"}
                out = vjoin(out, self.eval(arm, s2))
            if out is None:
                return UNK
            return Val(out.signs, out.tags if understood else None, out.link, frozenset(), out.att)
        if k == "call":
            r = RETURNS.get(e.get("callee"))
            if r is not None:
                return Val(r, None)
        if is_unsigned(e.get("t") or e.get("ct")):
            return NONNEG
        return UNK

    # ---- conditions ---------------------------------------------------------------------------------------------------------
    def mentioned_tags(self, e, st):
        tags = set()
        keys = set()

        def f(n):
            a = self.atom(n)
            if a is not None:
                keys.add(a)
            if n.get("k") == "call":
                for x in n.get("args", ()):
                    o = self.obj(x)
                    if o is not None:
                        keys.add(o)
        sa.walk(e, f)
        for k_ in keys:
            v = self.get(st, k_)
            if v.tags:
                tags |= v.tags
        return tags, keys

    def blur(self, st, tags, keep=None, root=None, branch=None):
        """quantities that share a source with a tested one lose exactness (the test says something about them that is not recorded)"""
        if not tags:
            return
        for k_, v in list(st.items()):
            if k_ == UNSURE:
                continue
            if k_ != keep and v.tags and v.tags & tags and not (root is not None and v.link and v.link[0] == root):
                st[k_] = Val(v.signs, None, v.link) if branch is None else Val(v.signs, v.tags, v.link, v.susp | {branch}, v.att)

    def refine(self, st, c, truth, branch=None):
        """-> (state or None when the edge is infeasible, understood?); self.last_sure says whether the arm is known to be taken for some
        admissible input: an understood test on a quantity none of whose admitted signs is known to be attained (an unsigned argument
        that 'may be 0' only because nothing excludes it) does not make its arm feasible.  Conditions that are not understood are
        assumed to leave both arms feasible (stated assumption), at the price of suspending what they mention."""
        self.last_sure = True
        c = sa.strip_expect(c)
        if not isinstance(c, dict):
            return st, False
        if c.get("k") == "unop" and c["op"] == "!":
            return self.refine(st, c["e"], not truth, branch)
        if c.get("k") == "int":
            return (st if bool(c["v"]) == truth else None), True
        if c.get("k") == "binop" and c["op"] in ("&&", "||"):
            # only reached for conditional expressions (the CFG splits statement-level logic): a conjunction that holds refines by both
            if (c["op"] == "&&") == truth:
                s1, ok1 = self.refine(st, c["l"], truth)
                if s1 is None:
                    return None, ok1
                s2, ok2 = self.refine(s1, c["r"], truth)
                return s2, ok1 and ok2
            tags, _ = self.mentioned_tags(c, st)
            self.blur(st, tags)
            return st, False
        allowed = None
        target = None
        cut = 0
        if c.get("k") == "binop" and c["op"] in ("==", "!=", "<", ">", "<=", ">="):
            l, r = _strip(c["l"]), _strip(c["r"])
            # pointer comparison between object parameters: decided by the scenario
            pl, pr = self.ptr_param(l), self.ptr_param(r)
            if pl is not None and pr is not None and c["op"] in ("==", "!="):
                same = self.unify.get(pl, pl) == self.unify.get(pr, pr)
                if pl in self.outs or pr in self.outs:
                    holds = same if c["op"] == "==" else not same
                    return (st if holds == truth else None), True
                if (c["op"] == "==") == truth:
                    # two operands known to be one variable: their signs are no longer independent choices
                    names = {p_["id"]: p_["name"] for p_ in self.params}
                    pre_ = (names.get(pl, "?"), names.get(pr, "?"))
                    for k_, v in list(st.items()):
                        if k_ != UNSURE and v.tags and any(t == n_ or t.startswith(n_ + "->") for t in v.tags for n_ in pre_):
                            st[k_] = Val(v.signs, None, v.link)
                return st, True                                # two inputs: either way
            op = c["op"]
            if isinstance(r, dict) and r.get("k") == "int" and self.atom(l) is not None:
                target, cst = self.atom(l), r["v"]
            elif isinstance(l, dict) and l.get("k") == "int" and self.atom(r) is not None:
                target, cst = self.atom(r), l["v"]
                op = {"<": ">", ">": "<", "<=": ">=", ">=": "<=", "==": "==", "!=": "!="}[op]
            if target is not None:
                if not truth:
                    op = {"<": ">=", ">": "<=", "<=": ">", ">=": "<", "==": "!=", "!=": "=="}[op]
                # cut: the sign class that the constant splits - what survives of it is not known to be attained any more (a later test
                # may exclude the rest: `n > 1`, `n == 1`, `n == 0` leave only negatives although each test alone keeps "positive")
                if cst == 0:
                    allowed = {"<": N, ">": P, "<=": N | Z, ">=": Z | P, "==": Z, "!=": N | P}[op]
                elif cst == 1:
                    allowed = {"<": N | Z, ">=": P, ">": P, "==": P, "<=": TOP, "!=": TOP}[op]
                    cut = 0 if op in ("<", ">=") else P
                elif cst == -1:
                    allowed = {">": Z | P, "<=": N, "<": N, "==": N, ">=": TOP, "!=": TOP}[op]
                    cut = 0 if op in (">", "<=") else N
                elif cst > 1:
                    allowed = {">": P, ">=": P, "==": P}.get(op, TOP)
                    cut = P
                else:
                    allowed = {"<": N, "<=": N, "==": N}.get(op, TOP)
                    cut = N
        elif self.atom(c) is not None:
            target = self.atom(c)
            allowed = (N | P) if truth else Z
        if target is None:
            tags, _ = self.mentioned_tags(c, st)
            self.blur(st, tags, branch=branch)
            return st, False
        v = self.get(st, target)
        ns = v.signs & allowed
        if ns == 0:
            return None, True
        root = None
        if v.link:
            # every quantity whose sign is tied to the same entry value learns what this test says about that value
            root = v.link[0]
            rs = preimg(v.link[1], allowed)
            for k2, v2 in list(st.items()):
                if k2 != target and k2 != UNSURE and v2.link and v2.link[0] == root:
                    s2 = v2.signs & img(v2.link[1], rs)
                    if s2 == 0:
                        return None, True
                    st[k2] = Val(s2, v2.tags, v2.link, v2.susp, v2.att & ~img(v2.link[1], preimg(v.link[1], cut)) if cut else v2.att)
        if v.tags:
            self.blur(st, v.tags, keep=target, root=root, branch=branch)
        # a comparison with a non-zero constant cuts a sign class in two: the surviving part is still attained, exactness is kept
        st[target] = Val(ns, v.tags, v.link, v.susp, v.att & ~cut)
        # this arm is known to be taken when one of the signs it admits is attained (or it admits everything the quantity can be)
        self.last_sure = bool(v.attained & allowed) or ns == v.signs
        return st, True

    def ptr_param(self, e):
        if isinstance(e, dict) and e.get("k") == "var" and e["id"] in self.pidx and struct_of(e.get("ct")) and "*" in e.get("ct", ""):
            return e["id"]
        return None

    # ---- statements ---------------------------------------------------------------------------------------------------------
    def havoc_objects(self, st):
        for k_ in list(st):
            if k_[0] != "v" and k_ != UNSURE:
                st[k_] = UNK

    def set_obj(self, st, o, v):
        if o is None:
            self.havoc_objects(st)
        elif st.get(UNSURE) and o[0] != "may":
            st[o] = Val(v.signs, None, v.link)
        elif o[0] == "may":
            for c in o[1]:                     # one of them is written: each may now hold the new value or still its own
                j = vjoin(st.get(c, UNK), v)
                st[c] = Val(j.signs, None)
        else:
            st[o] = v.used()

    def q_fields(self, q):
        return [self.canon((q[0] + "f", q[1], f)) for f in ("_mp_num", "_mp_den")]

    def do_call(self, e, st):
        callee = e.get("callee")
        args = e.get("args", [])
        ps = e.get("params", [])
        h = MPZ.get(callee)
        if h is not None and len(args) >= h[0]:
            objs = [self.obj(a) for a in args]
            h[1](self, st, objs, args)
            return
        summ = self.summaries.get(callee)
        if summ:
            # the helper's verdict was reached for canonical inputs: it carries over only if this call passes canonical ones
            for i, a in enumerate(args):
                p = ps[i] if i < len(ps) else {}
                if p.get("pc") and struct_of(p.get("ct")) == "__mpq_struct":
                    q = self.qobj(a)
                    if q is None or self.get(st, self.q_fields(q)[1]).signs != P:
                        summ = None
        for i, a in enumerate(args):
            p = ps[i] if i < len(ps) else {}
            ct = p.get("ct", "")
            if "*" not in ct and not struct_of(ct) or "(*)" in ct:
                continue
            if p.get("pc"):
                continue
            s = struct_of(ct) or struct_of((_strip(a) or {}).get("ct"))
            if s == "__mpz_struct":
                self.set_obj(st, self.obj(a), UNK)
            elif s == "__mpq_struct":
                q = self.qobj(a)
                if q is None:
                    self.havoc_objects(st)
                else:
                    num, den = self.q_fields(q)
                    st[num] = UNK
                    st[den] = Val(summ[i]) if summ and i in summ else UNK
            else:
                # a pointer to something else that is not const: a size field handed out by address, or an integer local
                x = _strip(a)
                if isinstance(x, dict) and x.get("k") == "unop" and x["op"] == "&":
                    t = self.atom(x["e"])
                    if t is not None:
                        st[t] = UNK
                    elif _strip(x["e"]).get("k") == "member":
                        self.havoc_objects(st)

    def assign(self, lhs, v, st):
        l = _strip(lhs)
        if not isinstance(l, dict):
            return
        if st.get(UNSURE):
            v = Val(v.signs, None, v.link)
        t = self.atom(l)
        if t is not None:
            st[t] = v.used()
            return
        if l.get("k") == "member" and l["field"] == "_mp_size":
            self.set_obj(st, self.obj(l["base"]), v)            # through a redirected pointer (weak update), or one we cannot name (everything)
        elif l.get("k") == "unop" and l["op"] == "*" and struct_of(_strip(l["e"]).get("ct")):
            o = self.obj(l["e"])
            q = self.qobj(l["e"])
            if o is not None:
                self.set_obj(st, o, UNK)
            elif q is not None:
                for f in self.q_fields(q):
                    st[f] = UNK
            else:
                self.havoc_objects(st)

    def elem(self, el, st):
        e = el["e"]
        k = e.get("k")
        if k == "call":
            self.do_call(e, st)
        elif k == "binop" and e["op"] == "=":
            self.assign(e["l"], self.eval(e["r"], st), st)
        elif k == "binop" and e["op"] in ("+=", "-=") and _strip(e["r"]).get("k") == "int" and _strip(e["r"])["v"] in (1, -1):
            d = _strip(e["r"])["v"]
            self.assign(e["l"], vstep(self.eval(e["l"], st), d if e["op"] == "+=" else -d), st)
        elif k == "binop" and e["op"] in ("+=", "-=", "*="):
            l = self.eval(e["l"], st)
            r = self.eval(e["r"], st)
            v = vadd(l, r) if e["op"] == "+=" else vadd(l, vneg(r)) if e["op"] == "-=" else vmul(l, r)
            self.assign(e["l"], v, st)
        elif k == "binop" and e["op"].endswith("=") and e["op"] not in ("==", "!=", "<=", ">="):
            self.assign(e["l"], NONNEG if is_unsigned(_strip(e["l"]).get("ct")) else UNK, st)
        elif k == "unop" and e["op"] in ("post++", "pre++", "post--", "pre--"):
            v = self.eval(e["e"], st)
            self.assign(e["e"], vstep(v, 1 if "++" in e["op"] else -1), st)
        elif k == "decl":
            for d in e["decls"]:
                if "init" in d:
                    self.assign(d["var"], self.eval(d["init"], st), st)
        elif k == "return" and isinstance(e.get("e"), dict):
            st[("ret",)] = self.eval(e["e"], st)

    # ---- fixpoint -----------------------------------------------------------------------------------------------------------
    def ipdoms(self):
        """immediate post-dominator of every block (exit is the root; a noreturn block leads to the exit like a return does, so a
        branch with a trapping arm has no meeting point before the exit)"""
        fn = self.fn
        succ = {b["id"]: [x for x in b["succs"] if isinstance(x, int)] for b in fn["blocks"]}
        ids = list(succ)
        pd = {i: set(ids) for i in ids}
        pd[fn["exit"]] = {fn["exit"]}
        changed = True
        while changed:
            changed = False
            for i in ids:
                if i == fn["exit"]:
                    continue
                ss = [pd[x] for x in succ[i]]
                new = (set.intersection(*ss) if ss else set()) | {i}
                if new != pd[i]:
                    pd[i] = new
                    changed = True
        out = {}
        for i in ids:
            cands = pd[i] - {i}
            # the immediate one is the candidate that every other candidate post-dominates
            for c in cands:
                if all(o in pd[c] for o in cands):
                    out[i] = c
                    break
        return out

    def run(self, entry, unify, outs):
        """entry: {key: Val}; unify: {param id: representative id}; outs: ids of output object parameters.  -> list of (line, state) at exits,
        or None when the iteration budget is exceeded (the function is then undecided)"""
        self.unify, self.outs = unify, outs
        fn = self.fn
        if getattr(self, "_ipd", None) is None:
            self._ipd = self.ipdoms()
        meet = collections.defaultdict(set)
        for b_, x in self._ipd.items():
            meet[x].add(b_)
        pre = {}
        init = {}
        for k_, v in entry.items():
            ck = self.canon(k_) if k_[0] != "v" else k_
            init[ck] = vjoin_entry(init.get(ck), v)
        IN = {fn["entry"]: init}
        work = {fn["entry"]}
        exits = {}
        it = 0

        def restore(st, at):
            if st.get(UNSURE):
                st[UNSURE] = frozenset(x for x in st[UNSURE] if x not in meet.get(at, set()))
            for k_, v in list(st.items()):
                if k_ == UNSURE or not v.susp:
                    continue
                left = set(v.susp)
                ok = True
                for B in v.susp & meet.get(at, set()):
                    left.discard(B)
                    p0 = pre.get(B, {}).get(k_, UNK)
                    if (p0.signs, p0.tags, p0.link, p0.att) != (v.signs, v.tags, v.link, v.att):
                        ok = False                      # touched on one of the arms: what is attained where they meet is not known
                st[k_] = Val(v.signs, v.tags if ok else None, v.link, frozenset(left), v.att)

        while work:
            it += 1
            if it > 6000:
                return None
            bid = max(work)
            work.discard(bid)
            b = self.blocks[bid]
            st = dict(IN[bid])
            restore(st, bid)
            for el in b["elems"]:
                self.elem(el, st)
            if b.get("noreturn"):
                continue
            t = b.get("term")
            two = t and len(b["succs"]) == 2 and t.get("kind") != "SwitchStmt"
            cond = sa.effective_cond(t) if two else None
            pre[bid] = dict(st)
            if two and cond is not None and getattr(self, "cond_hook", None):
                self.cond_hook(cond, st, t.get("line"))
            if t and not two and len(b["succs"]) >= 2:
                tags, _ = self.mentioned_tags(t.get("cond") or t.get("switch_cond") or {}, st)
                self.blur(st, tags, branch=bid)
            for si, s in enumerate(b["succs"]):
                if not isinstance(s, int):
                    continue
                s2 = dict(st)
                if two and cond is not None:
                    s2, _ok = self.refine(s2, cond, si == 0, branch=bid)
                    if s2 is None:
                        continue
                    if not self.last_sure:
                        s2[UNSURE] = frozenset(s2.get(UNSURE, ())) | {bid}
                if s == fn["exit"]:
                    line = b["elems"][-1]["line"] if b["elems"] else fn.get("endline", 0)
                    exits[(bid, si)] = (line, s2)
                    continue
                old = IN.get(s)
                if old is None:
                    IN[s] = s2
                    work.add(s)
                else:
                    new = dict(old)
                    changed = False
                    for k_ in set(old) | set(s2):
                        if k_ == UNSURE:
                            j = frozenset(old.get(k_, ())) | frozenset(s2.get(k_, ()))
                            if j != frozenset(old.get(k_, ())):
                                new[k_] = j
                                changed = True
                            continue
                        a, b_ = old.get(k_, UNK), s2.get(k_, UNK)
                        j = vjoin(a, b_)
                        if j != a or k_ not in old:
                            new[k_] = j
                            changed = changed or j != a
                    if changed:
                        IN[s] = new
                        work.add(s)
        return list(exits.values())


def vjoin_entry(a, b):
    """two entry quantities unified by a scenario: the common object satisfies both descriptions"""
    if a is None:
        return b
    s = a.signs & b.signs
    if s == 0:
        s = a.signs | b.signs
    return Val(s, (a.tags | b.tags) if a.tags is not None and b.tags is not None else (a.tags if a.tags is not None else b.tags), a.link or b.link,
               frozenset(), (a.att | b.att) & s)


# ---- sign algebra of the mpz functions -------------------------------------------------------------------------------------
def _g(F, st, o):
    return F.rd(st, o) if o is not None else UNK


def h_copy(F, st, o, a):
    F.set_obj(st, o[0], _g(F, st, o[1]))


def h_neg(F, st, o, a):
    F.set_obj(st, o[0], vneg(_g(F, st, o[1])))


def h_abs(F, st, o, a):
    F.set_obj(st, o[0], vabs(_g(F, st, o[1])))


def h_mul(F, st, o, a):
    F.set_obj(st, o[0], vmul(_g(F, st, o[1]), _g(F, st, o[2])))


def h_mul_scalar(F, st, o, a):
    F.set_obj(st, o[0], vmul(_g(F, st, o[1]), F.eval(a[2], st)))


def h_gcd(F, st, o, a):
    x, y = _g(F, st, o[1]), _g(F, st, o[2])
    F.set_obj(st, o[0], Val(P) if not (x.signs & Z and y.signs & Z) else Val(Z | P, None))


def h_divexact_gcd(F, st, o, a):
    F.set_obj(st, o[0], _g(F, st, o[1]))           # the divisor is a gcd (positive by that function's contract): the sign of the dividend


def h_divexact(F, st, o, a):
    F.set_obj(st, o[0], vmul(_g(F, st, o[1]), _g(F, st, o[2])))


def h_add(F, st, o, a):
    F.set_obj(st, o[0], vadd(_g(F, st, o[1]), _g(F, st, o[2])))


def h_sub(F, st, o, a):
    F.set_obj(st, o[0], vadd(_g(F, st, o[1]), vneg(_g(F, st, o[2]))))


def h_set_scalar(F, st, o, a):
    F.set_obj(st, o[0], F.eval(a[1], st))


def h_zero(F, st, o, a):
    F.set_obj(st, o[0], Val(Z, frozenset()))


def h_shift_down(F, st, o, a):
    v = _g(F, st, o[1])
    F.set_obj(st, o[0], Val(v.signs | Z, None))


def h_swap(F, st, o, a):
    x, y = _g(F, st, o[0]), _g(F, st, o[1])
    if o[0] is None or o[1] is None:
        F.havoc_objects(st)
    else:
        F.set_obj(st, o[0], y)
        F.set_obj(st, o[1], x)


def h_nothing(F, st, o, a):
    pass


def h_tdiv_r(F, st, o, a):
    """r = n - d * trunc (n / d): zero, or the sign of the dividend; both happen for every sign of n (d chosen suitably)"""
    n = _g(F, st, o[1])
    d = _g(F, st, o[2])
    att = (n.att | Z) if n.att and independent(n, d) else 0
    F.set_obj(st, o[0], Val(n.signs | Z, n.tags if att else None, None, frozenset(), att))


def is_null(a):
    a = _strip(a)
    return isinstance(a, dict) and a.get("k") == "int" and a["v"] == 0


def h_gcdext(F, st, o, a):
    """g = gcd (a, b) >= 0; the cofactors take either sign (and zero) depending on the operands - all three are attained"""
    F.set_obj(st, o[0], Val(Z | P, frozenset(["the gcd computed by mpz_gcdext"])))
    for i in (1, 2):
        if not is_null(a[i]):
            F.set_obj(st, o[i], Val(TOP, frozenset(["a cofactor computed by mpz_gcdext"])))


def h_nonneg(F, st, o, a):
    F.set_obj(st, o[0], NONNEG)


MPZ = {"__gmpz_tdiv_r": (3, h_tdiv_r), "__gmpz_gcdext": (5, h_gcdext), "__gmpz_set": (2, h_copy), "__gmpz_init_set": (2, h_copy), "__gmpz_neg": (2, h_neg), "__gmpz_abs": (2, h_abs),
       "__gmpz_mul": (3, h_mul), "__gmpz_mul_ui": (3, h_mul_scalar), "__gmpz_mul_si": (3, h_mul_scalar), "__gmpz_mul_2exp": (2, h_copy),
       "__gmpz_gcd": (3, h_gcd), "__gmpz_divexact_gcd": (3, h_divexact_gcd), "__gmpz_divexact": (3, h_divexact),
       "__gmpz_add": (3, h_add), "__gmpz_sub": (3, h_sub), "__gmpz_set_ui": (2, h_set_scalar), "__gmpz_set_si": (2, h_set_scalar),
       "__gmpz_init_set_ui": (2, h_set_scalar), "__gmpz_init_set_si": (2, h_set_scalar), "__gmpz_init": (1, h_zero),
       "__gmpz_tdiv_q_2exp": (2, h_shift_down), "__gmpz_swap": (2, h_swap), "__gmpz_clear": (1, h_nothing),
       "__gmpz_realloc": (1, h_nothing), "__gmpz_lcm": (3, h_nonneg), "__gmpz_sqrt": (2, h_nonneg), "__gmpz_fac_ui": (2, h_nonneg),
       "__gmpz_ui_pow_ui": (3, h_nonneg)}
# sign of the value returned by callees that return a size or a count
RETURNS = {"__gmpn_gcd": P, "__gmpn_gcd_1": P, "__gmpn_gcdext": P, "__gmpn_sqrtrem": Z | P, "__gmpn_rootrem": Z | P, "__gmpn_set_str": Z | P,
           "__gmpn_get_str": Z | P, "__gmpz_sizeinbase": P, "__gmpn_popcount": Z | P, "strlen": Z | P}


# ---- obligations ------------------------------------------------------------------------------------------------------------
def entry_model(F, canonical_inputs=True, den_nonzero_outputs=False):
    """entry facts from the manual: every input is any valid number (size of any sign, the caller's free choice); the denominator of a
    canonical mpq input is positive; outputs hold anything"""
    ent = {}
    for p in F.params:
        s = struct_of(p.get("ct"))
        star = "*" in p.get("ct", "")
        if s == "__mpz_struct" and star:
            ent[("p", p["id"])] = Val(TOP, frozenset([p["name"]]), (p["name"], "+")) if p.get("pc") else UNK
        elif s == "__mpq_struct" and star:
            if p.get("pc"):
                ent[("pf", p["id"], "_mp_num")] = Val(TOP, frozenset([p["name"] + "->_mp_num"]), (p["name"] + "->_mp_num", "+"))
                ent[("pf", p["id"], "_mp_den")] = Val(P, frozenset())
            elif den_nonzero_outputs:
                ent[("pf", p["id"], "_mp_num")] = Val(TOP, frozenset([p["name"] + "->_mp_num"]), (p["name"] + "->_mp_num", "+"))
                ent[("pf", p["id"], "_mp_den")] = Val(N | P, frozenset([p["name"] + "->_mp_den"]), (p["name"] + "->_mp_den", "+"))
            else:
                ent[("pf", p["id"], "_mp_num")] = UNK
                ent[("pf", p["id"], "_mp_den")] = UNK
        elif not star and not s:
            ent[("v", p["id"])] = NONNEG if is_unsigned(p.get("ct")) else Val(TOP, frozenset([p["name"]]), (p["name"], "+"))
    return ent


def scenarios(F, out_id):
    """alias scenarios for output parameter out_id: distinct, or the same variable as each non-empty subset of the const inputs of its type"""
    outp = [p for p in F.params if p["id"] == out_id][0]
    s = struct_of(outp.get("ct"))
    ins = [p["id"] for p in F.params if p["id"] != out_id and struct_of(p.get("ct")) == s and "*" in p.get("ct", "") and p.get("pc")]
    yield "distinct", {}
    for m in range(1, 1 << len(ins)):
        grp = [ins[i] for i in range(len(ins)) if m >> i & 1]
        u = {out_id: grp[0]}
        for g in grp[1:]:
            u[g] = grp[0]
        names = {p["id"]: p["name"] for p in F.params}
        yield "%s is %s" % (names[out_id], " and ".join(names[g] for g in grp)), u


def whence(detail):
    if detail.get("sources"):
        return "the sign comes from %s, which the caller chooses freely" % ", ".join(detail["sources"])
    return "that sign is attained on this path whatever the operands' signs are"


def judge(fn, out_idx, field, want, summaries, canonicalize=False, when_returns_nonzero=False, restrict=None):
    """-> (verdict, detail) for 'at every exit the size of <output>[.field] has a sign inside want'"""
    F = Fn(fn, summaries)
    outp = fn["params"][out_idx]
    verdict, detail = "proved", None
    for label, unify in scenarios(F, outp["id"]):
        ent = entry_model(F, den_nonzero_outputs=canonicalize)
        for pi, mask in (restrict or {}).items():          # the documented domain of an operand
            k_ = ("p", fn["params"][pi]["id"])
            if k_ in ent:
                v_ = ent[k_]
                ent[k_] = Val(v_.signs & mask, v_.tags, v_.link, frozenset(), v_.att & mask)
        exits = F.run(ent, unify, {outp["id"]})
        if exits is None:
            verdict, detail = "undecided", detail or dict(scenario=label, why="iteration budget")
            continue
        key = ("pf", outp["id"], field) if field else ("p", outp["id"])
        key = F.canon(key)
        for line, st in exits:
            v = F.get(st, key)
            if v.signs & ~want == 0:
                continue
            if when_returns_nonzero and F.get(st, ("ret",)).signs == Z:
                continue                      # "no result" exit: the output is not defined there
            if when_returns_nonzero and F.get(st, ("ret",)).signs & Z:
                verdict = "undecided"         # result and no-result paths share this exit (a flag is returned): not told apart
                detail = detail or dict(line=line, scenario=label, signs=sname(v.signs))
                continue
            if v.attained & ~want and not st.get(UNSURE):
                bad = v.attained & ~want
                return "refuted", dict(line=line, scenario=label, signs=sname(v.signs), bad=sname(bad), sources=sorted(v.tags))
            verdict = "undecided"
            detail = detail or dict(line=line, scenario=label, signs=sname(v.signs))
    return verdict, detail


# (file glob relative to /repo, function glob, output parameter index, field, documented sign, canonicalize-style entry, property, text)
OBLIGATIONS = [
    ("mpq/*.c", "*", 0, "_mp_den", P, "C12", "the denominator of a result is positive"),
]
C12_SKIP = {"__gmpq_set_den": "stores the caller's integer as it is; canonical form is the caller's business (manual: mpq_canonicalize afterwards)",
            "__gmpq_set_num": "does not touch the denominator", "__gmpq_swap": "exchanges two variables", "__gmpq_clear": "releases",
            "__gmpq_inp_str": "reads text; not in the property", "__gmpq_set_str": "reads text; the manual asks for mpq_canonicalize afterwards"}


def run(prop="C12", tier="quick"):
    res = dict(findings=[], stats=collections.Counter(), samples=[], notes=[])
    cfg = sa.cfg_built()
    cfg = sa.Config("built-sign", units=cfg.units, flags=list(cfg.flags), extra_files=[FIXTURE])
    ex = sa.export(cfg)
    sa.check_errors(ex)
    anchors = set(anchor_files(prop))
    fxres = {}
    units = collections.defaultdict(list)
    for path, fn in ex.functions():
        units[path].append(fn)
    for path, fns in units.items():
        rel = relpath(path)
        fixture = path == FIXTURE
        if not fixture and not fnmatch.fnmatch(rel, "mpq/*.c"):
            continue
        if not fixture and anchors and rel not in anchors:
            continue
        # static helpers first, so that their verdict can serve as a summary for the callers in the unit
        summaries = {}
        for fn in sorted(fns, key=lambda f: not f.get("static")):
            ps = fn["params"]
            if not ps or struct_of(ps[0].get("ct")) != "__mpq_struct" or ps[0].get("pc") or "*" not in ps[0].get("ct", ""):
                continue
            if fn["name"] in C12_SKIP:
                res["stats"]["skipped_by_table"] += 1
                continue
            canonicalize = len([p for p in ps if struct_of(p.get("ct"))]) == 1 and "canonicalize" in fn["name"]
            verdict, detail = judge(fn, 0, "_mp_den", P, summaries, canonicalize=canonicalize)
            if fixture:
                fxres[fn["name"]] = verdict
                continue
            if fn.get("static") and verdict == "proved":
                summaries[fn["name"]] = {0: P}
            res["stats"]["obligations"] += 1
            res["stats"][verdict] += 1
            res["samples"].append(dict(rule="R-SIGN", function=fn["name"], file=rel, output="%s->_mp_den" % ps[0]["name"], verdict=verdict,
                                       detail=detail))
            if verdict == "refuted":
                res["findings"].append(Finding(
                    prop, "R-SIGN", path, detail["line"], fn["name"], "denominator-sign:%s" % detail["bad"].replace(" ", "-"),
                    "%s can return at line %d with the denominator of %s %s (scenario: %s; %s): a canonical rational has a positive "
                    "denominator, and mpq_cmp, mpq_equal, mpq_get_d and the arithmetic functions rely on it"
                    % (fn["name"], detail["line"], ps[0]["name"], detail["bad"], detail["scenario"], whence(detail))))
    want = {"fix_sign_bad_inv": "refuted", "fix_sign_bad_div": "refuted", "fix_sign_good_inv": "proved", "fix_sign_good_div": "proved",
            "fix_sign_good_copytest": "proved", "fix_sign_good_square": "undecided", "fix_sign_bad_inplace": "refuted", "fix_sign_good_inplace": "proved"}
    if any(fxres.get(k) != v for k, v in want.items()):
        raise AnalysisBroken("R-SIGN fixtures: got %r, want %r" % (fxres, want))
    st = res["stats"]
    if st["obligations"] < 10:
        raise AnalysisBroken("R-SIGN: only %d mpq result functions found (floor 10)" % st["obligations"])
    if st["proved"] < 6:
        raise AnalysisBroken("R-SIGN: only %d denominators proved positive (floor 6): the sign algebra no longer understands the tree" % st["proved"])
    res["stats"] = dict(st)
    res["obligations"] = st["obligations"]
    res["undecided"] = st.get("undecided", 0)
    res["notes"].append("fixtures: 3 positive refuted, 4 negative proved, 1 undecided by design (a square)")
    res["exhaustive"] = True
    return res


# ---- non-negative integer results (C07, C08, C09) ----------------------------------------------------------------------------
# property -> [(file, function, output parameter index, documented sign set, what the manual says)]
NONNEG_RESULTS = {
    "C07": [("mpz/gcd.c", "__gmpz_gcd", 0, Z | P, "the greatest common divisor is non-negative"),
            ("mpz/gcdext.c", "__gmpz_gcdext", 0, Z | P, "the greatest common divisor is non-negative"),
            ("mpz/lcm.c", "__gmpz_lcm", 0, Z | P, "the least common multiple is non-negative"),
            ("mpz/lcm_ui.c", "__gmpz_lcm_ui", 0, Z | P, "the least common multiple is non-negative"),
            ("mpz/invert.c", "__gmpz_invert", 0, Z | P, "the inverse lies in [0, |m|) (exits that return non-zero; modulus non-zero: "
             "the property speaks of moduli of absolute value above 1)", {2: N | P})],
    "C08": [("mpz/powm.c", "__gmpz_powm", 0, Z | P, "the residue lies in [0, |mod|)"),
            ("mpz/powm_ui.c", "__gmpz_powm_ui", 0, Z | P, "the residue lies in [0, |mod|)"),
            ("mpz/ui_pow_ui.c", "__gmpz_ui_pow_ui", 0, Z | P, "a power of an unsigned base is non-negative")],
    "C09": [("mpz/sqrt.c", "__gmpz_sqrt", 0, Z | P, "the square root is non-negative"),
            ("mpz/sqrtrem.c", "__gmpz_sqrtrem", 0, Z | P, "the square root is non-negative"),
            ("mpz/sqrtrem.c", "__gmpz_sqrtrem", 1, Z | P, "the remainder u - s^2 is non-negative")],
}


def run_nonneg(prop, tier="quick"):
    res = dict(findings=[], stats=collections.Counter(), samples=[], notes=[])
    cfg = sa.cfg_built()
    cfg = sa.Config("built-sign", units=cfg.units, flags=list(cfg.flags), extra_files=[FIXTURE])
    ex = sa.export(cfg)
    sa.check_errors(ex)
    byname = {}
    for path, fn in ex.functions():
        byname[(relpath(path), fn["name"])] = (path, fn)
    for row in NONNEG_RESULTS[prop]:
        rel, name, idx, want, text = row[:5]
        restrict = row[5] if len(row) > 5 else {}
        if (rel, name) not in byname:
            raise AnalysisBroken("R-SIGN: anchor %s in %s not found" % (name, rel))
        path, fn = byname[(rel, name)]
        if idx >= len(fn["params"]) or struct_of(fn["params"][idx].get("ct")) != "__mpz_struct" or fn["params"][idx].get("pc"):
            raise AnalysisBroken("R-SIGN: parameter %d of %s is no longer an integer result" % (idx, name))
        verdict, detail = judge(fn, idx, None, want, {}, when_returns_nonzero="non-zero" in text, restrict=restrict)
        oname = fn["params"][idx]["name"]
        res["stats"]["obligations"] += 1
        res["stats"][verdict] += 1
        res["samples"].append(dict(rule="R-SIGN", function=name, file=rel, output=oname, documented=sname(want), verdict=verdict, detail=detail))
        if verdict == "refuted":
            res["findings"].append(Finding(
                prop, "R-SIGN", path, detail["line"], name, "result-sign:%s:%s" % (oname, detail["bad"].replace(" ", "-")),
                "%s can return at line %d with %s %s (scenario: %s; %s), but %s"
                % (name, detail["line"], oname, detail["bad"], detail["scenario"], whence(detail), text)))
    st = res["stats"]
    res["stats"] = dict(st)
    res["obligations"] = st["obligations"]
    res["undecided"] = st.get("undecided", 0)
    res["exhaustive"] = True
    return res


def run_c07(prop="C07", tier="quick"):
    r = run_nonneg("C07", tier)
    st = r["stats"]
    if st.get("proved", 0) < 1:
        raise AnalysisBroken("R-SIGN.c07: only %d of the non-negative results proved (floor 1; today 3): the sign algebra no longer understands the tree"
                             % st.get("proved", 0))
    return r


# ---- "zero as 0/1" / integer denominators: a denominator whose size is set to the constant 1 gets its limb written -------------
def analyse_den_one(fn, prop, F, stats):
    """R-DENONE (C12): a function that stores the literal 1 into the size field of the denominator of a rational it was given also writes
    the denominator's limbs on every path to its exit (the value 1 is size 1 AND limb 1; the size alone leaves whatever limb the
    variable held, so 0/1 or n/1 silently becomes 0/d or n/d).  May-dataflow over (size-is-literal-1, limbs-written) pairs per path."""
    qs = {p["id"]: p["name"] for p in fn["params"] if struct_of(p.get("ct")) == "__mpq_struct" and "*" in p.get("ct", "") and not p.get("pc")}
    if not qs:
        return
    blocks = sa.blocks_by_id(fn)

    def mentions_den_limbs(e, q, aliases):
        hit = []

        def f(n):
            if n.get("k") == "member" and n["field"] == "_mp_d":
                b = _strip(n.get("base"))
                while isinstance(b, dict) and b.get("k") in ("unop", "index"):
                    b = _strip(b.get("e") if b.get("k") == "unop" else b.get("base"))
                if isinstance(b, dict) and b.get("k") == "member" and b["field"] == "_mp_den":
                    bb = _strip(b.get("base"))
                    while isinstance(bb, dict) and bb.get("k") in ("unop", "index"):
                        bb = _strip(bb.get("e") if bb.get("k") == "unop" else bb.get("base"))
                    if isinstance(bb, dict) and bb.get("k") == "var" and bb["id"] == q:
                        hit.append(1)
            if n.get("k") == "var" and n["id"] in aliases:
                hit.append(1)
        sa.walk(e, f)
        return bool(hit)

    def den_object(e, q):
        """the expression names the denominator object of q (mpq_denref (q), &q->_mp_den)"""
        e = _strip(e)
        while isinstance(e, dict) and e.get("k") in ("unop", "index"):
            e = _strip(e.get("e") if e.get("k") == "unop" else e.get("base"))
        if isinstance(e, dict) and e.get("k") == "member" and e["field"] == "_mp_den":
            bb = _strip(e.get("base"))
            while isinstance(bb, dict) and bb.get("k") in ("unop", "index"):
                bb = _strip(bb.get("e") if bb.get("k") == "unop" else bb.get("base"))
            return isinstance(bb, dict) and bb.get("k") == "var" and bb["id"] == q
        return False

    for q, qname in qs.items():
        # local limb pointers into the denominator (closure over every definition)
        aliases = set()
        changed = True
        while changed:
            changed = False
            for b in fn["blocks"]:
                for el in b["elems"]:
                    def g(n):
                        nonlocal changed
                        if n.get("k") == "decl":
                            for d in n["decls"]:
                                if "init" in d and "*" in d["var"].get("ct", "") and d["var"]["id"] not in aliases \
                                        and mentions_den_limbs(d["init"], q, aliases):
                                    aliases.add(d["var"]["id"])
                                    changed = True
                        if n.get("k") == "binop" and n["op"] == "=":
                            l = _strip(n["l"])
                            if isinstance(l, dict) and l.get("k") == "var" and "*" in l.get("ct", "") and l["id"] not in aliases \
                                    and mentions_den_limbs(n["r"], q, aliases):
                                aliases.add(l["id"])
                                changed = True
                    sa.walk(el["e"], g)

        def events(e):
            """[('size', is literal 1) | ('limbs',)] of one CFG element"""
            out = []
            if e.get("k") == "call":
                ps = e.get("params", [])
                for i, a in enumerate(e.get("args", [])):
                    if i < len(ps) and ps[i].get("pc"):
                        continue
                    if den_object(a, q):
                        out.append(("size", False))
                        out.append(("limbs",))
                    elif isinstance(a, dict) and "*" in (ps[i].get("ct", "") if i < len(ps) else "*") and mentions_den_limbs(a, q, aliases):
                        out.append(("limbs",))
                    elif isinstance(_strip(a), dict) and _strip(a).get("k") == "var" and _strip(a)["id"] == q:
                        out.append(("size", False))
                        out.append(("limbs",))
                return out
            if e.get("k") == "binop" and e["op"].endswith("=") and e["op"] not in ("==", "!=", "<=", ">="):
                l = _strip(e["l"])
                if isinstance(l, dict) and l.get("k") == "member" and l["field"] == "_mp_size" and den_object(l.get("base"), q):
                    r = _strip(e["r"])
                    out.append(("size", e["op"] == "=" and isinstance(r, dict) and r.get("k") == "int" and r["v"] == 1))
                elif isinstance(l, dict) and l.get("k") in ("index", "unop") and mentions_den_limbs(l, q, aliases):
                    out.append(("limbs",))
            if e.get("k") == "unop" and e["op"] in ("post++", "pre++", "post--", "pre--"):
                l = _strip(e["e"])
                if isinstance(l, dict) and l.get("k") == "member" and l["field"] == "_mp_size" and den_object(l.get("base"), q):
                    out.append(("size", False))
            return out

        IN = collections.defaultdict(set)
        IN[fn["entry"]] = {(False, False)}
        work = {fn["entry"]}
        sites, bad = [], {}
        while work:
            bid = max(work)
            work.discard(bid)
            b = blocks[bid]
            cur = set(IN[bid])
            for el in b["elems"]:
                for ev in events(el["e"]):
                    if ev[0] == "size":
                        if ev[1] and el["line"] not in sites:
                            sites.append(el["line"])
                        cur = {(ev[1], l0) for (_s, l0) in cur}
                    else:
                        cur = {(s0, True) for (s0, _l) in cur}
            if b.get("noreturn"):
                continue
            for s in b["succs"]:
                if not isinstance(s, int):
                    continue
                if s == fn["exit"]:
                    if (True, False) in cur:
                        bad[b["elems"][-1]["line"] if b["elems"] else fn.get("endline", 0)] = True
                    continue
                if not cur <= IN[s]:
                    IN[s] |= cur
                    work.add(s)
        stats["den_size_one_stores"] += len(sites)
        for line in sorted(bad):
            F.append(Finding(prop, "R-DENONE", fn["file"], line, fn["name"], "denominator-one-without-limb:%s" % qname,
                             "%s can return at line %d after storing 1 into the size of the denominator of %s (line %s) without writing the "
                             "denominator's limb on that path: the denominator keeps whatever limb the variable held, so the result is 0/d or "
                             "n/d instead of the canonical 0/1 or n/1" % (fn["name"], line, qname, ", ".join(map(str, sites)))))


def run_den_one(prop="C12", tier="quick"):
    res = dict(findings=[], stats=collections.Counter(), samples=[], notes=[])
    cfg = sa.cfg_built()
    cfg = sa.Config("built-sign", units=cfg.units, flags=list(cfg.flags), extra_files=[FIXTURE])
    ex = sa.export(cfg)
    sa.check_errors(ex)
    fx = []
    for path, fn in ex.functions():
        if path == FIXTURE:
            if fn["name"].startswith("fix_denone_"):
                analyse_den_one(fn, prop, fx, collections.Counter())
            continue
        if not fnmatch.fnmatch(relpath(path), "mpq/*.c"):
            continue
        before = res["stats"]["den_size_one_stores"]
        analyse_den_one(fn, prop, res["findings"], res["stats"])
        if res["stats"]["den_size_one_stores"] > before:
            res["samples"].append(dict(rule="R-DENONE", function=fn["name"], file=relpath(path), stores=res["stats"]["den_size_one_stores"] - before))
    got = collections.Counter(f.function for f in fx)
    if not got.get("fix_denone_bad") or not got.get("fix_denone_bad_path") or got.get("fix_denone_good") or got.get("fix_denone_good_alias") \
            or got.get("fix_denone_good_setui"):
        raise AnalysisBroken("R-DENONE fixtures: %r" % dict(got))
    if res["stats"]["den_size_one_stores"] < 4:
        raise AnalysisBroken("R-DENONE: only %d literal-1 denominator size stores found (floor 4; today 7)" % res["stats"]["den_size_one_stores"])
    res["stats"] = dict(res["stats"])
    res["obligations"] = res["stats"]["den_size_one_stores"]
    res["notes"].append("fixtures: 2 positive fired, 3 negative silent")
    res["exhaustive"] = True
    return res



# ---- sizes handed to MPZ_REALLOC / _mpz_realloc are limb counts (C04) ------------------------------------------------------------
def analyse_realloc_sizes(fn, prop, F, stats):
    """R-SIGN.alloc: the new size given to _mpz_realloc (directly or through MPZ_REALLOC, whose test `n > ALLOC (z)` is simply false for a
    negative n, so that nothing is enlarged and the copy that follows overruns the block) is never a quantity for which a negative sign is
    attained - e.g. the signed size of an operand where its absolute value is meant."""
    def alloc_compare(c):
        """X for  X > z->_mp_alloc  /  z->_mp_alloc < X  (the growth test of MPZ_REALLOC and of the hand-written forms)"""
        c = sa.strip_expect(c)
        neg = False
        while isinstance(c, dict) and c.get("k") == "unop" and c["op"] == "!":
            c, neg = sa.strip_expect(c["e"]), not neg
        if not (isinstance(c, dict) and c.get("k") == "binop" and c["op"] in ("<", ">", "<=", ">=")):
            return None
        l, r = _strip(c["l"]), _strip(c["r"])
        if isinstance(r, dict) and r.get("k") == "member" and r["field"] == "_mp_alloc" and c["op"] in (">", ">="):
            return l
        if isinstance(l, dict) and l.get("k") == "member" and l["field"] == "_mp_alloc" and c["op"] in ("<", "<="):
            return r
        return None

    if not any(alloc_compare(sa.effective_cond(b["term"])) is not None for b in fn["blocks"] if b.get("term") and len(b["succs"]) == 2
               and b["term"].get("cond")):
        return
    E = Fn(fn, {})
    found = {}
    scalar_names = {p["name"] for p in fn["params"] if not struct_of(p.get("ct"))}

    def hook(cond, st, line):
        x = alloc_compare(cond)
        if x is None:
            return
        v = E.eval(x, st)
        rec = found.setdefault(line, [0, 0, None])
        rec[0] |= v.signs
        # only the signs of operand OBJECTS are the caller's free choice here; a scalar size argument is bound by the function's contract
        if v.attained & N and v.tags and not (v.tags & scalar_names):
            rec[1] |= N
            rec[2] = sorted(v.tags or ())
    E.cond_hook = hook
    outs = [p for p in fn["params"] if struct_of(p.get("ct")) and "*" in p.get("ct", "") and not p.get("pc")]
    if outs:
        scen = list(scenarios(E, outs[0]["id"]))
    else:
        scen = [("distinct", {})]
    for label, unify in scen[:4]:
        ent = entry_model(E)
        if E.run(ent, unify, {o["id"] for o in outs}) is None:
            stats["budget"] += 1
    for line, (signs, bad, tags) in found.items():
        stats["realloc_sites"] += 1
        if bad:
            F.append(Finding(prop, "R-SIGN.alloc", fn["file"], line, fn["name"], "negative-realloc-size",
                             "%s passes a size to _mpz_realloc / MPZ_REALLOC at line %d that is negative for some operands (its sign comes from %s): "
                             "MPZ_REALLOC's test `n > ALLOC (z)` is then false, nothing is enlarged, and the limbs stored afterwards overrun the block"
                             % (fn["name"], line, ", ".join(tags) or "the operands")))
        elif signs & N == 0:
            stats["proved"] += 1
        else:
            stats["undecided"] += 1


def run_realloc(prop="C04", tier="quick"):
    res = dict(findings=[], stats=collections.Counter(), samples=[], notes=[])
    cfg = sa.cfg_built()
    cfg = sa.Config("built-sign", units=cfg.units, flags=list(cfg.flags), extra_files=[FIXTURE])
    ex = sa.export(cfg)
    sa.check_errors(ex)
    fx = []
    for path, fn in ex.functions():
        if path == FIXTURE:
            if fn["name"].startswith("fix_realloc_"):
                analyse_realloc_sizes(fn, prop, fx, collections.Counter())
            continue
        rel = relpath(path)
        if not (rel.startswith("mpz/") or rel.startswith("mpq/") or rel.startswith("mpf/")):
            continue
        try:
            analyse_realloc_sizes(fn, prop, res["findings"], res["stats"])
        except RecursionError:
            res["stats"]["budget"] += 1
    got = collections.Counter(f.function for f in fx)
    if not got.get("fix_realloc_bad") or got.get("fix_realloc_good"):
        raise AnalysisBroken("R-SIGN.alloc fixtures: %r" % dict(got))
    st = res["stats"]
    if st["realloc_sites"] < 60:
        raise AnalysisBroken("R-SIGN.alloc: only %d _mpz_realloc sites found (floor 60; today 124)" % st["realloc_sites"])
    res["stats"] = dict(st)
    res["obligations"] = st["realloc_sites"]
    res["undecided"] = st.get("undecided", 0)
    res["notes"].append("fixtures: 1 positive fired, 1 negative silent")
    res["exhaustive"] = True
    return res


# ---- limb counts handed to mpn routines are never negative (C04) -----------------------------------------------------------------
NOT_COUNTS = {("__gmpn_get_d", 2)}      # mpn_get_d (ptr, size, SIGN, exp): the third argument carries the sign of the result


def analyse_mpn_sizes(fn, prop, F, stats):
    """R-SIGN.count: an argument of type mp_size_t handed to an mpn routine is a limb count; it never is a quantity for which a negative sign
    is attained from the signs of the operands (SIZ (u) where ABSIZ (u) is meant: the routine would run over 2^64 - |n| limbs)."""
    has = False
    for b in fn["blocks"]:
        for el in b["elems"]:
            e = el["e"]
            if e.get("k") == "call" and (e.get("callee") or "").startswith("__gmpn_") and any(p.get("t") == "mp_size_t" for p in e.get("params", [])):
                has = True
            if e.get("k") == "decl" and any(m_ in ("MPN_COPY_INCR", "MPN_COPY_DECR") for m_ in el.get("m", ())):
                has = True
    if not has:
        return
    E = Fn(fn, {})
    found = {}
    scalar_names = {p["name"] for p in fn["params"] if not struct_of(p.get("ct"))}
    orig = E.do_call

    def do_call(e, st):
        c = e.get("callee") or ""
        # judged also on arms whose feasibility is not established: a value that still attains a sign there got it before the branch, from
        # operands the branch does not mention (values assigned on such arms attain nothing)
        if c.startswith("__gmpn_"):
            for i, p in enumerate(e.get("params", [])):
                if p.get("t") == "mp_size_t" and i < len(e.get("args", [])) and (c, i) not in NOT_COUNTS:
                    v = E.eval(e["args"][i], st)
                    rec = found.setdefault((e.get("line"), c, i), [0, 0, None])
                    rec[0] |= v.signs
                    if v.attained & N and v.tags and not (v.tags & scalar_names):
                        rec[1] |= N
                        rec[2] = sorted(v.tags)
        return orig(e, st)
    E.do_call = do_call
    orig_elem = E.elem

    def elem(el, st):
        # the inline forms of MPN_COPY_INCR / MPN_COPY_DECR (this configuration has no native copy routine) start with
        #   mp_size_t __n = (n) - 1;   - the count is the left operand
        e = el["e"]
        if e.get("k") == "decl" and any(m_ in ("MPN_COPY_INCR", "MPN_COPY_DECR") for m_ in el.get("m", ())):
            for d in e["decls"]:
                init = _strip(d.get("init")) if isinstance(d.get("init"), dict) else None
                if d["var"].get("name") == "__n" and isinstance(init, dict) and init.get("k") == "binop" and init["op"] == "-" \
                        and _strip(init["r"]).get("k") == "int" and _strip(init["r"])["v"] == 1:
                    v = E.eval(init["l"], st)
                    mac = [m_ for m_ in el["m"] if m_.startswith("MPN_COPY")][-1]
                    rec = found.setdefault((el["line"], mac, 2), [0, 0, None])
                    rec[0] |= v.signs
                    if v.attained & N and v.tags and not (v.tags & scalar_names):
                        rec[1] |= N
                        rec[2] = sorted(v.tags)
        return orig_elem(el, st)
    E.elem = elem
    outs = [p for p in fn["params"] if struct_of(p.get("ct")) and "*" in p.get("ct", "") and not p.get("pc")]
    scen = list(scenarios(E, outs[0]["id"])) if outs else [("distinct", {})]
    for label, unify in scen[:4]:
        if E.run(entry_model(E), unify, {o["id"] for o in outs}) is None:
            stats["budget"] += 1
    for (line, c, i), (signs, bad, tags) in found.items():
        stats["count_arguments"] += 1
        if bad:
            F.append(Finding(prop, "R-SIGN.count", fn["file"], line, fn["name"], "negative-limb-count:%s:%d" % (c, i),
                             "%s passes a limb count to %s (argument %d) at line %d that is negative for some operands (its sign comes from %s)"
                             % (fn["name"], c, i + 1, line, ", ".join(tags))))
        elif signs & N == 0:
            stats["proved"] += 1
        else:
            stats["undecided"] += 1


def run_counts(prop="C04", tier="quick"):
    res = dict(findings=[], stats=collections.Counter(), samples=[], notes=[])
    cfg = sa.cfg_built()
    cfg = sa.Config("built-sign", units=cfg.units, flags=list(cfg.flags), extra_files=[FIXTURE])
    ex = sa.export(cfg)
    sa.check_errors(ex)
    fx = []
    for path, fn in ex.functions():
        if path == FIXTURE:
            if fn["name"].startswith("fix_count_"):
                analyse_mpn_sizes(fn, prop, fx, collections.Counter())
            continue
        rel = relpath(path)
        if not (rel.startswith("mpz/") or rel.startswith("mpq/") or rel.startswith("mpf/")):
            continue
        analyse_mpn_sizes(fn, prop, res["findings"], res["stats"])
    got = collections.Counter(f.function for f in fx)
    if not got.get("fix_count_bad") or got.get("fix_count_good"):
        raise AnalysisBroken("R-SIGN.count fixtures: %r" % dict(got))
    st = res["stats"]
    if st["count_arguments"] < 150:
        raise AnalysisBroken("R-SIGN.count: only %d limb-count arguments found (floor 150; today 528)" % st["count_arguments"])
    res["stats"] = dict(st)
    res["obligations"] = st["count_arguments"]
    res["undecided"] = st.get("undecided", 0)
    res["notes"].append("fixtures: 1 positive fired, 1 negative silent")
    res["exhaustive"] = True
    return res
