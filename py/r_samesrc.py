"""R-SAMESRC (C01): "the same operand twice" is decided by pointer AND length.

mpn_mul (rp, up, un, up, vn) with vn < un is a legal call (sources may overlap each other freely; only the destination must
be separate), and the product must not depend on "whether the two operands are the same object".  A multiplication
routine that takes two source operands, each with its own length, and switches to its squaring path when the two
source POINTERS are equal must also require the two LENGTHS to be equal - otherwise {up, un} x {up, vn} is computed as a
square of one of them.

Rule: in every function of mpn/ and fft/ that compares two pointer-to-const limb parameters, each of which is immediately
followed by its own integer length parameter, for equality as a branch condition: the successor taken when the pointers
are equal either (a) compares the two length parameters (before any call or assignment), or (b) the comparison is
dominated by the equal edge of such a length comparison.  Comparisons whose result is stored instead of branched on are
counted as undecided.  Functions whose two sources share one length parameter (mpn_mul_n style) have nothing to check."""
import collections

import sa, r_divzero
from core import *

FIXTURE = os.path.join(VERIF, "selftest", "fixtures", "samesrc_fix.c")


def _strip(e):
    while isinstance(e, dict) and e.get("k") in ("cast", "paren"):
        e = e["e"]
    return e


def _cmp_of(e, ids):
    """(op, negated) if e is (possibly negated) `a == b` / `a != b` between the two variables in ids"""
    e = sa.strip_expect(e) if isinstance(e, dict) else e
    neg = False
    while isinstance(e, dict) and e.get("k") == "unop" and e["op"] == "!":
        e = sa.strip_expect(e["e"])
        neg = not neg
    e = _strip(e)
    if isinstance(e, dict) and e.get("k") == "binop" and e["op"] in ("==", "!="):
        l, r = _strip(e["l"]), _strip(e["r"])
        if l.get("k") == "var" and r.get("k") == "var" and {l["id"], r["id"]} == set(ids):
            return (e["op"] == "==") != neg
    return None


def analyse(fn, prop, F, stats):
    ps = fn["params"]
    own = {}
    for i, p in enumerate(ps):
        ct = p.get("ct", "")
        if ct.count("*") == 1 and ct.strip().startswith("const") and "long" in ct and "char" not in ct:
            nxt = ps[i + 1] if i + 1 < len(ps) else None
            if nxt is not None and "*" not in nxt.get("ct", "") and ("long" in nxt.get("ct", "") or "int" in nxt.get("ct", "")):
                own[p["id"]] = (p, nxt)
    # local views of mpz / mpf operands:  up = PTR (u), usize = SIZ (u) or ABSIZ (u)  pair the pointer with the length of the same object
    # (mpz_mul: two mpz_roinit_n views may share limbs and differ in size)
    lp, ln = {}, {}

    def obj_field(e, field):
        e = _strip(e)
        if isinstance(e, dict) and e.get("k") == "cond":          # ABS (x): either arm
            for arm in (e["a"], e["b"]):
                arm = _strip(arm)
                if isinstance(arm, dict) and arm.get("k") == "unop" and arm["op"] == "-":
                    arm = _strip(arm["e"])
                r = obj_field(arm, field)
                if r is not None:
                    return r
            return None
        if isinstance(e, dict) and e.get("k") == "member" and e["field"] == field:
            b = _strip(e.get("base"))
            if isinstance(b, dict) and b.get("k") == "var" and b.get("param") is not None:
                return b["id"]
        return None
    for blk in fn["blocks"]:
        for el in blk["elems"]:
            def g(n):
                tgt = src = None
                if n.get("k") == "binop" and n["op"] == "=" and _strip(n["l"]).get("k") == "var":
                    tgt, src = _strip(n["l"]), n["r"]
                    one(tgt, src)
                if n.get("k") == "decl":
                    for d in n["decls"]:
                        if "init" in d:
                            one(d["var"], d["init"])

            def one(tgt, src):
                if tgt.get("param") is not None:
                    return
                o = obj_field(src, "_mp_d")
                if o is not None and "*" in tgt.get("ct", ""):
                    lp.setdefault(tgt["id"], (tgt, set()))[1].add(o)
                o = obj_field(src, "_mp_size")
                if o is not None and "*" not in tgt.get("ct", ""):
                    ln.setdefault(o, []).append(tgt)
            sa.walk(el["e"], g)
    for pid_, (pv, objs_) in lp.items():
        if len(objs_) == 1:
            o = next(iter(objs_))
            lens_ = {v["id"]: v for v in ln.get(o, [])}
            if len(lens_) == 1:
                own[pid_] = (pv, next(iter(lens_.values())))
    if len(own) < 2:
        return
    blocks = sa.blocks_by_id(fn)
    dom, preds = r_divzero.dominators(fn)
    pairs = [(a, b) for a in own for b in own if a < b]
    for a, b in pairs:
        la, lb = own[a][1], own[b][1]
        if la["id"] == lb["id"]:
            continue
        lens = (la["id"], lb["id"])
        # (b) blocks dominated by the equal edge of a length comparison
        len_eq_regions = []
        for blk in fn["blocks"]:
            t = blk.get("term")
            if not t or not t.get("cond") or len(blk["succs"]) != 2 or blk["id"] not in dom:
                continue
            r = _cmp_of(sa.effective_cond(t), lens)
            if r is None:
                continue
            eq = blk["succs"][0] if r else blk["succs"][1]
            if isinstance(eq, int) and len(preds.get(eq, ())) == 1:
                len_eq_regions.append(eq)
        for blk in fn["blocks"]:
            if blk["id"] not in dom:
                continue
            t = blk.get("term")
            branch = None
            if t and t.get("cond") and len(blk["succs"]) == 2:
                branch = _cmp_of(sa.effective_cond(t), (a, b))
            if branch is None:
                # a comparison whose value is stored / combined otherwise
                hit = []
                for el in blk["elems"]:
                    def f(n):
                        if n.get("k") == "call" and n is not el["e"]:
                            return False
                        if _cmp_of(n, (a, b)) is not None and n.get("k") == "binop":
                            hit.append(el["line"])
                    sa.walk(el["e"], f)
                # the comparison element of a branching block was handled as `branch`; here it is a plain value
                if hit and not (t and t.get("cond") and _cmp_of(sa.effective_cond(t), (a, b)) is not None):
                    # is it the operand of && / || that the CFG turned into this block's terminator?  then branch != None above.
                    stats["samesrc_value_uses"] += 1
                continue
            stats["samesrc_sites"] += 1
            eq = blk["succs"][0] if branch else blk["succs"][1]
            ok = False
            if any(r in dom.get(blk["id"], ()) for r in len_eq_regions):
                ok = True                                   # (b)
            if not ok and isinstance(eq, int):
                eb = blocks[eq]
                for el in eb["elems"]:
                    e = el["e"]
                    if _cmp_of(e, lens) is not None:
                        ok = True                           # (a)
                        break
                    if e.get("k") == "call" or (e.get("k") == "binop" and e["op"].endswith("=") and e["op"] not in ("==", "!=", "<=", ">=")) \
                            or e.get("k") == "decl":
                        break
                if not ok and eb.get("term") and eb["term"].get("cond") and _cmp_of(sa.effective_cond(eb["term"]), lens) is not None \
                        and not any(el["e"].get("k") == "call" for el in eb["elems"]):
                    ok = True
            if ok:
                stats["samesrc_proved"] += 1
            else:
                line = t.get("line") or (blk["elems"][-1]["line"] if blk["elems"] else fn["line"])
                F.append(Finding(prop, "R-SAMESRC", fn["file"], line, fn["name"],
                                 "ptr-eq-without-len:%s,%s" % (own[a][0]["name"], own[b][0]["name"]),
                                 "%s branches on %s == %s at line %d to treat the two source operands as one, but the operands have their own "
                                 "lengths %s and %s and nothing on that path requires them to be equal: {%s,%s} x {%s,%s} with the same "
                                 "pointer and different lengths is computed as if both operands were the same number"
                                 % (fn["name"], own[a][0]["name"], own[b][0]["name"], line, la["name"], lb["name"],
                                    own[a][0]["name"], la["name"], own[b][0]["name"], lb["name"])))


def run(prop="C01", tier="quick"):
    res = dict(findings=[], stats=collections.Counter(), samples=[], notes=[])
    ex = sa.export(sa.cfg_builtfx())
    sa.check_errors(ex)
    fx = []
    for path, fn in ex.functions():
        if path == FIXTURE:
            analyse(fn, prop, fx, collections.Counter())
            continue
        rel = relpath(path)
        if not rel.startswith(("mpn/", "fft/", "mpz/", "mpq/", "mpf/")):
            continue
        res["stats"]["functions"] += 1
        before = res["stats"]["samesrc_sites"]
        analyse(fn, prop, res["findings"], res["stats"])
        if res["stats"]["samesrc_sites"] > before:
            res["samples"].append(dict(rule="R-SAMESRC", function=fn["name"], file=rel, sites=res["stats"]["samesrc_sites"] - before))
    got = collections.Counter(f.function for f in fx)
    if not got.get("fix_samesrc_bad") or got.get("fix_samesrc_good") or got.get("fix_samesrc_good_outer") or got.get("fix_samesrc_one_len"):
        raise AnalysisBroken("R-SAMESRC fixtures: %r" % dict(got))
    if res["stats"]["samesrc_sites"] < 1:
        raise AnalysisBroken("R-SAMESRC: only %d pointer-equality dispatch sites with separate lengths found (floor 1; today 3: mpn_mul, "
                             "mpn_mul_trunc_sqrt2, mpn_mul_mfa_trunc_sqrt2)" % res["stats"]["samesrc_sites"])
    res["stats"] = dict(res["stats"])
    res["obligations"] = res["stats"]["samesrc_sites"]
    res["undecided"] = res["stats"].get("samesrc_value_uses", 0)
    res["notes"].append("fixtures: 1 positive fired, 3 negative silent")
    res["exhaustive"] = True
    return res
