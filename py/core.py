"""Shared plumbing: scratch dirs, tool builds, bitcode, findings, evidence."""
import atexit, concurrent.futures as cf, hashlib, json, os, shutil, subprocess, sys, tempfile, time

from compdb import REPO, AnalysisBroken, units, c_units

VERIF = os.path.dirname(os.path.dirname(os.path.abspath(__file__)))
BUILD = os.path.join(VERIF, "build")
LLVM = "/usr/lib/llvm-14"
JOBS = int(os.environ.get("VERIF_JOBS", "16"))

_scratch = None
_ir_cache = {}

# mutation overlay (selftests): virtual path -> replacement file; applied to every front end
OVERLAY = {}


def set_overlay(mapping):
    """Install a {repo path: replacement} overlay and drop every cache that depends on sources."""
    OVERLAY.clear()
    exp = {}
    for k, v in (mapping or {}).items():
        exp[k] = v
        rk = os.path.realpath(k)
        exp[rk] = v
        # configure-made symlinks (mpn/add_n.c -> mpn/generic/add_n.c) name the same file
        for d in (os.path.join(REPO, "mpn"), REPO):
            for f in os.listdir(d):
                fp = os.path.join(d, f)
                if os.path.islink(fp) and os.path.realpath(fp) == rk:
                    exp[fp] = v
    OVERLAY.update(exp)
    _ir_cache.clear()
    import sa
    sa._exports.clear()
    global _gen
    _gen += 1


_gen = 0


def unoverlay(path):
    """the repository path that a mutation-overlay replacement file stands for (identity for ordinary paths)"""
    for k, v in OVERLAY.items():
        if v == path:
            return k
    return path


def overlay_file():
    if not OVERLAY:
        return None
    p = os.path.join(scratch(), "mut-overlay-%d.yaml" % _gen)
    roots = [{"name": k, "type": "file", "external-contents": v} for k, v in sorted(OVERLAY.items())]
    json.dump({"version": 0, "case-sensitive": "true", "roots": roots}, open(p, "w"))
    return p


def scratch():
    global _scratch
    if _scratch is None:
        _scratch = tempfile.mkdtemp(prefix="mpir-verif-")
        atexit.register(lambda: shutil.rmtree(_scratch, ignore_errors=True))
    return _scratch


def sha(path):
    try:
        return hashlib.sha256(open(path, "rb").read()).hexdigest()[:16]
    except OSError:
        return None


def run(cmd, cwd=None, check=True, timeout=None, input=None):
    p = subprocess.run(cmd, cwd=cwd, capture_output=True, text=True, timeout=timeout, input=input)
    if check and p.returncode != 0:
        raise AnalysisBroken("command failed (%d): %s\n%s" % (p.returncode, " ".join(cmd)[:400], p.stderr[-2000:]))
    return p


def pmap(fn, items, jobs=None):
    with cf.ThreadPoolExecutor(max_workers=jobs or JOBS) as ex:
        return list(ex.map(fn, items))


# --------------------------------------------------------------------------
# tool builds
TOOLS = {
    "mpir-ir": dict(src=["ir/mpir-ir.cc"], libs=[LLVM + "/lib/libLLVM-14.so"]),
    "mpir-sa": dict(src=["sa/mpir-sa.cc"], libs=[LLVM + "/lib/libclang-cpp.so.14", LLVM + "/lib/libLLVM-14.so"]),
    "mpir-asm": dict(src=["asm/mpir-asm.cc"], libs=[LLVM + "/lib/libLLVM-14.so"]),
}


def tool(name, force=False):
    """Path of the built tool; (re)builds when its sources are newer."""
    spec = TOOLS[name]
    out = os.path.join(BUILD, name)
    srcs = [os.path.join(VERIF, s) for s in spec["src"]]
    deps = list(srcs)
    for s in srcs:
        d = os.path.dirname(s)
        deps += [os.path.join(d, f) for f in os.listdir(d) if f.endswith((".h", ".inc"))]
    for s in srcs:
        if not os.path.exists(s):
            raise AnalysisBroken("tool source missing: " + s)
    if not force and os.path.exists(out) and all(os.path.getmtime(out) >= os.path.getmtime(d) for d in deps):
        return out
    os.makedirs(BUILD, exist_ok=True)
    cxxflags = run(["llvm-config-14", "--cxxflags"]).stdout.split()
    cxxflags = [f for f in cxxflags if f != "-std=c++14"] + ["-std=c++17", "-fno-rtti", "-O1", "-w"]
    tmp = out + ".tmp.%d" % os.getpid()
    run(["clang++"] + cxxflags + srcs + ["-o", tmp] + spec["libs"] + ["-Wl,-rpath," + LLVM + "/lib"], timeout=900)
    os.replace(tmp, out)
    return out


# --------------------------------------------------------------------------
# bitcode of the whole library
def bitcode(extra_flags=(), units_=None, tag="built"):
    """Compile every C unit to bitcode in scratch, link, run function-attrs.
    Returns path of the linked+attributed module."""
    d = os.path.join(scratch(), "bc-%s-%d" % (tag, _gen))
    ov = overlay_file()
    if ov:
        extra_flags = list(extra_flags) + ["-ivfsoverlay", ov]
    if os.path.exists(os.path.join(d, "all.attrs.bc")):
        return os.path.join(d, "all.attrs.bc")
    os.makedirs(d, exist_ok=True)
    us = units_ if units_ is not None else c_units()

    def one(u):
        out = os.path.join(d, u.rel.replace("/", "__") + ".bc")
        cmd = ["clang", "-O0", "-Xclang", "-disable-O0-optnone", "-g", "-emit-llvm", "-c"] + \
            u.flags(extra_flags) + [u.path, "-o", out]
        p = subprocess.run(cmd, cwd=os.path.join(REPO, u.dir), capture_output=True, text=True)
        if p.returncode != 0:
            return (u, p.stderr[-1500:])
        return (u, None)

    res = pmap(one, us)
    bad = [(u, e) for u, e in res if e]
    if bad:
        raise AnalysisBroken("clang failed on %d units, first: %s\n%s" % (len(bad), bad[0][0].rel, bad[0][1]))
    bcs = [os.path.join(d, u.rel.replace("/", "__") + ".bc") for u in us]
    linked = os.path.join(d, "all.bc")
    rsp = os.path.join(d, "link.rsp")
    open(rsp, "w").write("\n".join(bcs))
    run(["llvm-link-14", "@" + rsp, "-o", linked])
    attrs = os.path.join(d, "all.attrs.bc")
    run(["opt-14", "-passes=function(sroa),cgscc(function-attrs)", linked, "-o", attrs])
    return attrs




def ir_facts(tag="built", extra_flags=(), units_=None):
    if tag in _ir_cache:
        return _ir_cache[tag]
    bc = bitcode(extra_flags, units_, tag)
    p = run([tool("mpir-ir"), bc, os.path.join(VERIF, "spec", "extern_readonly_args.tsv")])
    facts = json.loads(p.stdout)
    _ir_cache[tag] = facts
    return facts


# --------------------------------------------------------------------------
# findings / evidence
class Finding:
    def __init__(self, prop, rule, file, line, function, signature, what, detail=None):
        self.prop, self.rule, self.file, self.line = prop, rule, file, line
        self.function, self.signature, self.what, self.detail = function, signature, what, detail or {}

    def key(self):
        return (self.rule, relpath(self.file), self.function, self.signature)

    def to_json(self):
        return dict(property=self.prop, rule=self.rule, file=relpath(self.file), line=self.line,
                    function=self.function, signature=self.signature, what=self.what, detail=self.detail)


def relpath(p):
    if p and p.startswith(REPO + "/"):
        return p[len(REPO) + 1:]
    return p


def anchor_files(prop):
    """the files a property is anchored in (properties.jsonl)"""
    for l in open(os.path.join(VERIF, "properties.jsonl")):
        pj = json.loads(l)
        if pj["id"] == prop:
            return set(pj["anchors"]["files"])
    raise AnalysisBroken("property %s not found" % prop)


def scope_to_anchors(r, prop, floor=1):
    """Keep only the findings of a whole-tree rule that lie in the files the property is anchored in: the rule decides a clause of this
    property at those sites; what it finds elsewhere belongs to the property that owns the rule."""
    files = anchor_files(prop)
    present = [f for f in files if os.path.exists(os.path.join(REPO, f))]
    if len(present) < floor:
        raise AnalysisBroken("only %d of the %d anchor files of %s exist" % (len(present), len(files), prop))

    def inside(f):
        q = unoverlay(f.file)
        cands = {relpath(q), relpath(os.path.realpath(q)) if os.path.exists(q) else relpath(q)}
        return bool(cands & files)
    keep = [f for f in r["findings"] if inside(f)]
    r["notes"].append("scoped to the %d anchor files of %s (%d present); %d finding(s) in other files are not this property's"
                      % (len(files), prop, len(present), len(r["findings"]) - len(keep)))
    r["findings"] = keep
    return r


def load_known():
    p = os.path.join(VERIF, "known_findings.json")
    if not os.path.exists(p):
        return []
    return json.load(open(p)).get("findings", [])


def spec_tsv(name, mincols=2):
    """Read spec/<name>: tab-separated, '#' comments; last column is the reason."""
    rows = []
    p = os.path.join(VERIF, "spec", name)
    for ln in open(p):
        ln = ln.rstrip("\n")
        if not ln.strip() or ln.lstrip().startswith("#"):
            continue
        cols = ln.split("\t")
        if len(cols) < mincols:
            raise AnalysisBroken("spec/%s: malformed line: %r" % (name, ln))
        rows.append(cols)
    return rows
