"""R-ABI (C14): every x86-64 assembly kernel is a well-formed SysV leaf with respect to registers, flags and stack.
Kernels are assembled with the repository's own recipe into a scratch directory, decoded with LLVM MC (mpir-asm),
and checked by a forward abstract interpretation over the recovered control-flow graph."""
import collections, glob, json, re, subprocess

import sa, compdb
from core import *


def kernel_files(tier):
    if tier == "quick":
        return [(u.src, u.base) for u in compdb.asm_units()]
    fs = []
    for ext in ("as", "asm"):
        fs += glob.glob(os.path.join(REPO, "mpn/x86_64/**/*." + ext), recursive=True)
    out = []
    for f in sorted(fs):
        if "/fat/" in f:
            continue
        out.append((f, os.path.splitext(os.path.basename(f))[0]))
    return out


def assemble(files):
    """[(src, base)] -> {src: object path}; uses the Makefile's recipes (yasm for .as, m4 | gcc -c for .asm)"""
    d = os.path.join(scratch(), "asm-%d" % core_gen())
    os.makedirs(d, exist_ok=True)

    def one(item):
        src, base = item
        real = OVERLAY.get(src, src)
        out = os.path.join(d, re.sub(r"[^A-Za-z0-9_.]", "_", os.path.relpath(src, REPO)) + ".o")
        if src.endswith(".as"):
            p = subprocess.run(["yasm", "-I", REPO, "-f", "elf64", "-D", "PIC", "-o", out, real], capture_output=True, text=True)
        else:
            m = subprocess.run(["m4", "-DPIC", "-DOPERATION_" + base, real], cwd=os.path.join(REPO, "mpn"),
                               capture_output=True, text=True)
            if m.returncode != 0:
                return src, None, m.stderr[-300:]
            p = subprocess.run(["gcc", "-c", "-x", "assembler", "-", "-o", out], input=m.stdout, capture_output=True, text=True)
        if p.returncode != 0:
            return src, None, p.stderr[-300:]
        return src, out, None
    res = pmap(one, files)
    bad = [(s, e) for s, o, e in res if o is None]
    if bad:
        raise AnalysisBroken("%d kernels failed to assemble, first: %s: %s" % (len(bad), bad[0][0], bad[0][1]))
    return {s: o for s, o, e in res}


def core_gen():
    import core
    return core._gen


def decode(objs):
    exe = tool("mpir-asm")
    paths = list(objs.values())
    out = {}
    chunks = [paths[i::JOBS] for i in range(JOBS) if paths[i::JOBS]]

    def one(ch):
        p = subprocess.run([exe] + ch, capture_output=True, text=True)
        if p.returncode != 0:
            raise AnalysisBroken("mpir-asm failed: " + p.stderr[-300:])
        return json.loads(p.stdout)
    for lst in pmap(one, chunks):
        for o in lst:
            out[o["object"]] = o
    return out


# ---------------------------------------------------------------------------------------------------
CALLEE_SAVED = ("rbx", "rbp", "r12", "r13", "r14", "r15")
ARG_REGS = ("rdi", "rsi", "rdx", "rcx", "r8", "r9")
GPR = ("rax", "rbx", "rcx", "rdx", "rsi", "rdi", "rbp", "rsp", "r8", "r9", "r10", "r11", "r12", "r13", "r14", "r15")
U = ("U",)

# condition-code suffix -> flag groups read   (groups: C = CF, O = OF, Z = ZF/SF/PF/AF)
CC = {"o": "O", "no": "O", "b": "C", "ae": "C", "e": "Z", "ne": "Z", "be": "CZ", "a": "CZ", "s": "Z", "ns": "Z",
      "p": "Z", "np": "Z", "l": "ZO", "ge": "ZO", "le": "ZO", "g": "ZO", "c": "C", "nc": "C", "z": "Z", "nz": "Z",
      "nae": "C", "nb": "C", "na": "CZ", "nbe": "CZ"}


def flag_effects(ins):
    """(groups read, groups written) for an instruction that LLVM says touches EFLAGS"""
    mn = ins["t"].split()[0] if ins.get("t") else ""
    op = ins["op"]
    touches_r = any(x["top"] == "eflags" for x in ins["iuses"] + ins["uses"])
    touches_w = any(x["top"] == "eflags" for x in ins["idefs"] + ins["defs"])
    rd, wr = "", ""
    if touches_r:
        rd = "COZ"
        m = re.match(r"^(j|set|cmov)([a-z]+?)[lqwb]?$", mn)
        if mn.startswith("j") and mn[1:] in CC:
            rd = CC[mn[1:]]
        elif mn.startswith("set") and mn[3:] in CC:
            rd = CC[mn[3:]]
        elif mn.startswith("cmov"):
            cc = mn[4:]
            for suf in ("q", "l", "w", ""):
                if suf and cc.endswith(suf) and cc[:-len(suf)] in CC:
                    rd = CC[cc[:-len(suf)]]
                    break
                if not suf and cc in CC:
                    rd = CC[cc]
        elif re.match(r"^(adc|sbb|rcl|rcr)[bwlq]?$", mn) or mn.startswith("adcx"):
            rd = "C"
        elif mn.startswith("adox"):
            rd = "O"
        elif mn in ("cmc",):
            rd = "C"
    if touches_w:
        wr = "COZ"
        if re.match(r"^(inc|dec)[bwlq]?$", mn):
            wr = "OZ"
        elif mn.startswith("adcx"):
            wr = "C"
        elif mn.startswith("adox"):
            wr = "O"
        elif re.match(r"^(rol|ror|rcl|rcr)[bwlq]?$", mn):
            wr = "CO"
        elif re.match(r"^bt[scr]?[wlq]?$", mn) or mn in ("clc", "stc", "cmc"):
            wr = "C"
    return rd, wr


# same-register forms whose result does not depend on the register's previous contents; vpblendd $0,r,r,r is the
# "warm up the 256-bit unit" no-op at the top of the skylake kernels
ZERO_IDIOM = re.compile(r"^(xor|sub|pxor|vpxor|xorps|xorpd|vxorps|vxorpd|pcmpeq[bwdq]|vpcmpeq[bwdq]|psub[bwdq]|vpsub[bwdq]|vpblendd)[bwlq]?$")


class Kernel:
    _ar = None

    def address_regs(self):
        """registers that appear as base or index of a memory operand anywhere in the kernel"""
        if self._ar is None:
            self._ar = {m[k]["top"] for i in self.insts.values() for m in i.get("mem", []) for k in ("base", "index") if k in m}
        return self._ar

    def __init__(self, src, dec):
        self.src, self.dec = src, dec
        self.text = [s for s in dec["sections"] if s["text"] and s.get("insts")]
        self.insts = {}
        self.order = []
        for s in self.text[:1]:
            for i in s["insts"]:
                self.insts[i["a"]] = i
                self.order.append(i["a"])
            self.textsec = s
        self.next = {a: (self.order[k + 1] if k + 1 < len(self.order) else None) for k, a in enumerate(self.order)}
        # relocations inside .text: address range -> symbol
        self.textrel = {}
        for r in (self.textsec["relocs"] if self.text else []):
            self.textrel[r["offset"]] = r
        # jump tables: data-section relocations against .text, split at the offsets the code takes the address of
        self.table_targets = set()
        entries = collections.defaultdict(list)        # data section name -> [(offset in section, code target)]
        for s in dec["sections"]:
            if s["text"] or s["name"].startswith(".rela"):
                continue
            for r in s["relocs"]:
                if r.get("symsection") == ".text" or r.get("symbol") == ".text":
                    if r["typename"] == "R_X86_64_64":
                        entries[s["name"]].append((r["offset"], r.get("symaddr", 0) + r.get("addend", 0)))
                    elif r["typename"] == "R_X86_64_PC32":
                        entries[s["name"]].append((r["offset"], None))
        # references from the code to those sections (lea table(%rip), reg): text offset -> (section, start offset)
        self.table_refs = []
        for off, r in sorted(self.textrel.items()):
            sec = r.get("symsection")
            if sec in entries:
                start = r.get("symaddr", 0) + r.get("addend", 0) + (4 if r["typename"] in ("R_X86_64_PC32", "R_X86_64_PLT32") else 0)
                self.table_refs.append((off, sec, start))
        self.tables = {}
        for sec, ents in entries.items():
            starts = sorted({st for (_, s2, st) in self.table_refs if s2 == sec}) or [0]
            for i, st in enumerate(starts):
                end = starts[i + 1] if i + 1 < len(starts) else 1 << 60
                tg = set()
                for (o, t) in ents:
                    if st <= o < end:
                        if t is None:      # PC32 entry "label - table": target = addend - (offset - table start)
                            rr = [r for s in dec["sections"] if s["name"] == sec for r in s["relocs"] if r["offset"] == o][0]
                            t = rr.get("symaddr", 0) + rr.get("addend", 0) - (o - st)
                        tg.add(t)
                self.tables[(sec, st)] = tg
                self.table_targets |= tg
        self.entries = [(s["name"], s["addr"]) for s in dec["symbols"]
                        if s["global"] and not s["undefined"] and s.get("section") == ".text"]

    def targets_of_indirect(self, a):
        """successors of the indirect jump at address a: the table whose address the code took most recently"""
        best = None
        for off, sec, st in self.table_refs:
            if off < a:
                best = (sec, st)
        if best is None:
            return None
        return self.tables.get(best)

    def reloc_in(self, ins):
        for off in range(ins["a"], ins["a"] + ins["n"]):
            if off in self.textrel:
                return self.textrel[off]
        return None


MASK = ("D", 64, "M")


def join_val(a, b):
    if a == b:
        return a
    if a == U or b == U:
        return U
    if a[0] == "D" and b[0] == "D":
        return ("D", min(a[1], b[1]))
    if a[0] == "CODE" and b[0] == "CODE":
        return ("CODE", a[1] | b[1])
    return ("D", 64)


class AbiAnalysis:
    def __init__(self, k, name, addr, arity, ret_bits, report, stats):
        self.k, self.name, self.addr, self.arity, self.ret_bits = k, name, addr, arity, ret_bits
        self.report, self.stats = report, stats
        self.seen = set()
        self.args_read = set()
        self.same_ok = set()             # (dst arg, src arg) pairs that the C routine's overlap assertions allow to be identical
        self.dir_ok = {}                 # (dst arg, src arg) -> "above" / "below": the directional overlap the C routine also allows
        self.stored_through = set()      # pointer arguments some store address derives from
        self.ptr_args = set()            # indices of pointer parameters
        self.const_args = set()          # ... of those declared pointer-to-const

    def rep(self, a, sig, what):
        if (sig, a) in self.seen:
            return
        self.seen.add((sig, a))
        ins = self.k.insts.get(a, {})
        self.report(a, sig, "%s: %s   [%s+0x%x: %s]" % (self.name, what, self.name, a - self.addr, ins.get("t", "").replace("\t", " ")))

    def entry_state(self):
        regs = {r: U for r in GPR}
        for i, r in enumerate(ARG_REGS):
            if i < self.arity:
                regs[r] = ("D", 64)
        for r in CALLEE_SAVED:
            regs[r] = ("C", r)
        regs["rsp"] = ("SP", 0)
        return dict(regs=regs, vec={}, fl={"C": False, "O": False, "Z": False}, df=False, stack={}, bad_sp=False,
                    af=frozenset(ARG_REGS[:self.arity]),      # argument registers that may still hold the caller's argument
                    cfp=frozenset(),                          # instructions whose carry flag may be the current CF
                    pv={r: frozenset([i]) for i, r in enumerate(ARG_REGS[:self.arity]) if i in self.ptr_args},   # pointer-argument provenance
                    ps=frozenset())     # stores since the address registers last changed: (arg, base, index, scale, disp, addr)

    @staticmethod
    def copy(st):
        return dict(regs=dict(st["regs"]), vec=dict(st["vec"]), fl=dict(st["fl"]), df=st["df"], stack=dict(st["stack"]), bad_sp=st["bad_sp"],
                    af=st.get("af", frozenset()), cfp=st.get("cfp", frozenset()), pv=dict(st.get("pv", {})), ps=st.get("ps", frozenset()))

    def join(self, a, b, at):
        ch = False
        if not b.get("af", frozenset()) <= a.get("af", frozenset()):
            a["af"] = a.get("af", frozenset()) | b["af"]
            ch = True
        if not b.get("cfp", frozenset()) <= a.get("cfp", frozenset()):
            a["cfp"] = a.get("cfp", frozenset()) | b["cfp"]
            ch = True
        if a.get("ps", frozenset()) - b.get("ps", frozenset()):
            a["ps"] = a.get("ps", frozenset()) & b.get("ps", frozenset())       # must-information: stores seen on every path
            ch = True
        for r_, v_ in b.get("pv", {}).items():
            n_ = a.setdefault("pv", {}).get(r_, frozenset()) | v_
            if n_ != a["pv"].get(r_, frozenset()):
                a["pv"][r_] = n_
                ch = True
        for r in GPR:
            if r == "rsp":
                if a["regs"]["rsp"] != b["regs"]["rsp"]:
                    if a["regs"]["rsp"] != ("D", 64):
                        if a["regs"]["rsp"][0] == "SP" and b["regs"]["rsp"][0] == "SP":
                            self.rep(at, "stack-depth", "paths reach this instruction with different stack depths (%d vs %d bytes)"
                                     % (-a["regs"]["rsp"][1], -b["regs"]["rsp"][1]))
                        a["regs"]["rsp"] = ("D", 64)
                        ch = True
                continue
            n = join_val(a["regs"][r], b["regs"][r])
            if n != a["regs"][r]:
                a["regs"][r] = n
                ch = True
        for v in set(a["vec"]) | set(b["vec"]):
            n = join_val(a["vec"].get(v, U), b["vec"].get(v, U))
            if n != a["vec"].get(v, U):
                a["vec"][v] = n
                ch = True
        for f in "COZ":
            n = a["fl"][f] and b["fl"][f]
            if n != a["fl"][f]:
                a["fl"][f] = n
                ch = True
        if b["df"] and not a["df"]:
            a["df"] = True
            ch = True
        for off in list(a["stack"]):
            n = join_val(a["stack"][off], b["stack"].get(off, U)) if off in b["stack"] else None
            if n is None or n == U:
                del a["stack"][off]
                ch = True
            elif n != a["stack"][off]:
                a["stack"][off] = n
                ch = True
        return ch

    def width_ok(self, val, bits):
        if val == U:
            return False
        if val[0] == "D":
            return val[1] >= min(bits, 64)
        return True

    def use_reg(self, st, x, a, why="read"):
        top, bits = x["top"], x["bits"] or 64
        if top in GPR:
            v = st["regs"][top]
            if not self.width_ok(v, bits):
                self.rep(a, "undef-reg:%s" % top, "register %s is %s before it has been written on some path from the entry "
                         "(it is not one of the %d argument registers)" % (x["r"], why, self.arity))
        elif top.startswith(("ymm", "xmm", "zmm")):
            if st["vec"].get(top, U) == U:
                self.rep(a, "undef-reg:%s" % top, "vector register %s is %s before it has been written" % (x["r"], why))

    def def_reg(self, st, x, val=None):
        top, bits = x["top"], x["bits"] or 64
        if top in GPR:
            if val is not None:
                st["regs"][top] = val
            elif bits >= 32:
                st["regs"][top] = ("D", 64)
            else:
                old = st["regs"][top]
                ow = 0 if old == U else (old[1] if old[0] == "D" else 64)
                st["regs"][top] = ("D", max(ow, bits))
        elif top.startswith(("ymm", "xmm", "zmm")):
            st["vec"][top] = val if val is not None else ("D", 64)

    def sp_off(self, st, mem):
        """entry-relative byte offset addressed by a memory operand, if it is rsp/SP-based with no index"""
        b = mem.get("base")
        if not b or mem.get("index") or mem.get("disp_sym"):
            return None
        v = st["regs"].get(b["top"])
        if v and v[0] == "SP":
            return v[1] + mem.get("disp", 0)
        return None

    def step(self, st, ins):
        a = ins["a"]
        op, mn = ins["op"], (ins["t"].split()[0] if ins["t"] else "")
        uses = list(ins["uses"]) + [x for x in ins["iuses"] if x["top"] != "eflags"]
        defs = list(ins["defs"]) + [x for x in ins["idefs"] if x["top"] != "eflags"]
        mems = ins.get("mem", [])
        self.stats["instructions"] += 1
        if op.startswith("NOOP") or mn.startswith("nop"):
            return                        # multi-byte NOP: its memory operand is padding, nothing is read
        pre_vals = dict(st["regs"])
        # ---- provenance of pointer arguments; a store through an address built only from pointer-to-const arguments writes an input
        pv = st.setdefault("pv", {})
        if "store" in ins["f"]:
            for m in mems:
                srcs = frozenset()
                for key in ("base", "index"):
                    if key in m:
                        srcs |= pv.get(m[key]["top"], frozenset())
                self.stored_through |= srcs
                if srcs and srcs <= self.const_args:
                    self.rep(a, "store-through-const-arg:%s" % ",".join(ARG_REGS[i] for i in sorted(srcs)),
                             "this instruction stores to memory addressed only through argument %s, which the C prototype declares pointer-to-const: "
                             "the kernel writes into a source operand" % ", ".join("%d (%s)" % (i + 1, ARG_REGS[i]) for i in sorted(srcs)))
        # ---- a source limb is loaded before the destination limb at the same index is stored, whenever the C routine allows the two
        # operands to be the same block (kernels address all operands with one index register: same index, scale and displacement
        # is the same limb position)
        if mems and self.same_ok:
            m0 = mems[0]
            shape = (m0.get("base", {}).get("top"), m0.get("index", {}).get("top"), m0.get("scale"), m0.get("disp"))
            roots = pv.get(shape[0], frozenset()) if shape[0] else frozenset()
            # bytes moved: the widest data register of the instruction (movdqu: 16), a limb otherwise
            aregs = {shape[0], shape[1]}
            wid = max([x["bits"] // 8 for x in ins["uses"] + ins["defs"] if x.get("bits") and x["top"] not in aregs and x["top"] != "eflags"] or [8])
            if "load" in ins["f"] and not op.startswith("LEA") and len(roots) == 1 and shape[1]:
                (rj,) = roots
                for (ri, b_, i_, sc_, d_, sa_, w_) in st.get("ps", ()):
                    if ri == rj or i_ != shape[1] or sc_ != shape[2] or (ri, rj) not in self.same_ok:
                        continue
                    dl, ds = shape[3] or 0, d_ or 0
                    how = None
                    if dl < ds + w_ and ds < dl + wid:
                        how = "the same block"                                  # byte ranges meet at the same position
                    elif self.dir_ok.get((ri, rj)) == "above" and dl + wid > ds:
                        how = "a block that overlaps the source from above (destination at a higher address, the decrementing-copy case)"
                    elif self.dir_ok.get((ri, rj)) == "below" and dl < ds + w_:
                        how = "a block that overlaps the source from below (destination at a lower address, the incrementing-copy case)"
                    if how:
                        self.rep(a, "store-before-load:%s,%s" % (ARG_REGS[ri], ARG_REGS[rj]),
                                 "the limb(s) at displacement %d of argument %d (%s) are loaded after displacement %d of argument %d (%s) was stored "
                                 "at +0x%x with the same index register; the C routine allows the destination to be %s, and then the store has "
                                 "already replaced source limbs that this load reads" % (dl, rj + 1, ARG_REGS[rj], ds, ri + 1, ARG_REGS[ri],
                                                                                         sa_ - self.addr, how))
            if "store" in ins["f"] and len(roots) == 1 and shape[1] and not ("load" in ins["f"]):
                (ri,) = roots
                st["ps"] = st.get("ps", frozenset()) | {(ri, shape[0], shape[1], shape[2], shape[3], a, wid)}
        if defs and st.get("ps"):
            dd = {x["top"] for x in defs}
            st["ps"] = frozenset(t_ for t_ in st["ps"] if t_[1] not in dd and t_[2] not in dd)
        if op == "MOV64mr" and mems and ins["uses"]:
            o_ = self.sp_off(st, mems[0])
            if o_ is not None:
                srcreg = [x for x in ins["uses"] if x["top"] in GPR and x["top"] != "rsp"]
                v_ = pv.get(srcreg[-1]["top"], frozenset()) if srcreg else frozenset()
                if v_:
                    pv[("slot", o_)] = v_              # an argument pointer parked in the frame keeps its provenance
                else:
                    pv.pop(("slot", o_), None)
        if defs:
            load = "load" in ins["f"] and not op.startswith("LEA")
            inherited = frozenset()
            if op == "MOV64rm" and mems:
                o_ = self.sp_off(st, mems[0])
                if o_ is not None:
                    inherited = pv.get(("slot", o_), frozenset())
            if not load and not (ZERO_IDIOM.match(mn) and len({x["top"] for x in ins["uses"]}) == 1 and not mems):
                for x in uses:
                    inherited |= pv.get(x["top"], frozenset())
                if op.startswith("LEA"):
                    for m in mems:
                        for key in ("base", "index"):
                            if key in m:
                                inherited |= pv.get(m[key]["top"], frozenset())
            for x in defs:
                if (x["top"] in GPR and x["top"] != "rsp") or x["top"].startswith(("xmm", "ymm", "zmm")):
                    if inherited:
                        pv[x["top"]] = inherited            # also through a vector register used to park a pointer
                    else:
                        pv.pop(x["top"], None)
        # which arguments does the kernel look at?  (syntactic: any read of a register that may still hold the argument)
        af = st.get("af", frozenset())
        if af:
            for x in uses:
                if x["top"] in af:
                    self.args_read.add(x["top"])
            for m in mems:
                for key in ("base", "index"):
                    if key in m and m[key]["top"] in af:
                        self.args_read.add(m[key]["top"])
            killed = {x["top"] for x in defs} & af
            if killed:
                st["af"] = af - killed
        # ---- reads --------------------------------------------------------------------------
        regs_u = [x for x in ins["uses"]]
        same = ZERO_IDIOM.match(mn) and len({x["top"] for x in ins["uses"]}) == 1 and not mems \
            and {x["top"] for x in ins["uses"]} == {x["top"] for x in ins["defs"]}
        sbb_self = re.match(r"^sbb[lq]?$", mn) and not mems and len({x["top"] for x in ins["uses"]}) == 1 \
            and {x["top"] for x in ins["uses"]} == {x["top"] for x in ins["defs"]}
        if not same and not sbb_self:
            pushpop = op.startswith(("PUSH", "POP"))
            for x in uses:
                if x["top"] == "rsp" and pushpop:
                    continue
                self.use_reg(st, x, a)
        for m in mems:
            for key in ("base", "index"):
                if key in m and m[key]["top"] not in ("rip",):
                    self.use_reg(st, m[key], a, "used as an address")
        rd, wr = flag_effects(ins)
        for g in rd:
            if not st["fl"][g]:
                nm = {"C": "carry flag", "O": "overflow flag", "Z": "zero/sign flags"}[g]
                self.rep(a, "undef-flag:%s" % g, "the %s is read before any instruction on some path from the entry has set it" % nm)
        # ---- stack-pointer / value tracking -----------------------------------------------------
        handled = False
        sp = st["regs"]["rsp"]
        if op in ("PUSH64r", "PUSH64i8", "PUSH64i32", "PUSHF64"):
            if sp[0] == "SP":
                st["regs"]["rsp"] = ("SP", sp[1] - 8)
                src = st["regs"][ins["uses"][0]["top"]] if op == "PUSH64r" and ins["uses"] else ("D", 64)
                st["stack"][sp[1] - 8] = src
            handled = True
        elif op in ("POP64r", "POPF64"):
            if sp[0] == "SP":
                v = st["stack"].get(sp[1], ("D", 64))
                st["regs"]["rsp"] = ("SP", sp[1] + 8)
                if sp[1] >= 0:
                    self.rep(a, "pop-above-frame", "pop reads at or above the return address (stack depth is %d)" % -sp[1])
                if op == "POP64r":
                    tgt = [x for x in ins["defs"] if x["top"] != "rsp"]
                    if tgt:
                        st["regs"][tgt[0]["top"]] = v
                else:
                    for g in "COZ":
                        st["fl"][g] = True
            else:
                for x in ins["defs"]:
                    if x["top"] != "rsp":
                        self.def_reg(st, x)
            handled = True
        elif re.match(r"^V?MOV(64toPQI|PQIto64|SDto64|64toSD)rr$", op) and ins["uses"] and ins["defs"]:
            # movq between a 64-bit GPR and an XMM register: some kernels park callee-saved registers there
            s_, d_ = ins["uses"][0]["top"], ins["defs"][0]
            v = st["regs"][s_] if s_ in GPR else st["vec"].get(s_, U)
            if v == U:
                self.use_reg(st, ins["uses"][0], a)
                v = ("D", 64)
            self.def_reg(st, d_, v)
            handled = True
        elif op in ("MOV64rr", "MOV64rr_REV") and ins["uses"] and ins["defs"]:
            st["regs"][ins["defs"][0]["top"]] = st["regs"][ins["uses"][0]["top"]] if ins["uses"][0]["top"] in GPR else ("D", 64)
            handled = True
        elif op in ("ADD64ri8", "ADD64ri32", "SUB64ri8", "SUB64ri32") and ins["defs"] and ins["defs"][0]["top"] in GPR \
                and st["regs"][ins["defs"][0]["top"]][0] == "SP" and ins.get("imm"):
            d = ins["imm"][-1] * (1 if op.startswith("ADD") else -1)
            st["regs"][ins["defs"][0]["top"]] = ("SP", st["regs"][ins["defs"][0]["top"]][1] + d)
            handled = True
        elif op == "LEA64r" and mems and ins["defs"]:
            o = self.sp_off(st, mems[0])
            m0 = mems[0]
            if o is not None:
                st["regs"][ins["defs"][0]["top"]] = ("SP", o)
            elif m0.get("base", {}).get("top") == "rip" and not m0.get("index") and not m0.get("disp_sym") \
                    and self.k.reloc_in(ins) is None:
                # address of a code label kept in a register for a later  jmp *reg
                st["regs"][ins["defs"][0]["top"]] = ("CODE", frozenset([a + ins["n"] + m0.get("disp", 0)]))
            else:
                st["regs"][ins["defs"][0]["top"]] = ("D", 64)
            handled = True
        elif op == "MOV64mr" and mems and ins["uses"]:
            o = self.sp_off(st, mems[0])
            srcs = [x for x in ins["uses"] if x["top"] in GPR]
            if o is not None and srcs:
                self.store_slot(st, o, 8, st["regs"][srcs[-1]["top"]], a)
            handled = True
        elif op == "MOV64rm" and mems and ins["defs"]:
            o = self.sp_off(st, mems[0])
            st["regs"][ins["defs"][0]["top"]] = st["stack"].get(o, ("D", 64)) if o is not None else ("D", 64)
            handled = True
        elif op == "LEAVE64":
            bp = st["regs"]["rbp"]
            if bp[0] == "SP":
                st["regs"]["rsp"] = ("SP", bp[1] + 8)
                st["regs"]["rbp"] = st["stack"].get(bp[1], ("D", 64))
            else:
                st["regs"]["rsp"] = ("D", 64)
            handled = True
        if not handled:
            if "store" in ins["f"]:
                for m in mems:
                    o = self.sp_off(st, m)
                    if o is not None:
                        vec = [x for x in ins["uses"] + ins["defs"] if x["top"].startswith(("ymm", "xmm", "zmm"))]
                        size = max([x["bits"] // 8 for x in vec] or [8])
                        self.store_slot(st, o, size, ("D", 64), a)
            for x in defs:
                if x["top"] == "rsp" and st["regs"]["rsp"][0] == "SP":
                    st["regs"]["rsp"] = ("D", 64)      # arithmetic on rsp we do not model (and $-32,%rsp ...)
                    self.stats["unmodelled_rsp_updates"] += 1
                else:
                    self.def_reg(st, x)
        if "C" in rd and (re.match(r"^(adc|sbb|rcl|rcr)[bwlq]?$", mn) or mn.startswith("adcx")) and not sbb_self:
            for (pa, sus) in st.get("cfp", ()):
                if sus:
                    pi = self.k.insts.get(pa, {})
                    self.rep(a, "carry-from-address-arithmetic:%s" % sus,
                             "the carry consumed here may come from `%s` at +0x%x, which adds a constant to %s - a loop counter, index or pointer, "
                             "not a saved carry (sbb r,r mask or setc byte): the limb carry chain is broken (inc / dec / lea leave CF alone)" % (pi.get("t", "").replace("\t", " "), pa - self.addr, sus))
        for g in wr:
            st["fl"][g] = True
        if "C" in wr:
            sus = None
            if re.match(r"^(add|sub)[bwlq]?$", mn) and ins.get("imm") is not None and ins["defs"] and not mems:
                dst = ins["defs"][0]["top"]
                if dst in GPR and pre_vals.get(dst, U) != MASK:
                    sus = dst
            st["cfp"] = frozenset([(a, sus)])
        # sbb r,r / xor r,r leave a saved-carry mask (0 or -1; 0 is the mask of "no carry"): add $1,r / neg r / shr r turn it back into CF
        if (same or sbb_self) and ins["defs"] and ins["defs"][0]["top"] in GPR:
            st["regs"][ins["defs"][0]["top"]] = MASK
        # setc / setb / setnc ... r8: a saved flag (0 or 1); add $-1,r / neg r / shr r / bt turn it back into CF
        if re.match(r"^set[a-z]+$", mn) and not mems and ins["defs"] and ins["defs"][0]["top"] in GPR:
            st["regs"][ins["defs"][0]["top"]] = MASK
        if mn == "std":
            st["df"] = True
        elif mn == "cld":
            st["df"] = False

    def store_slot(self, st, off, size, val, a):
        sp = st["regs"]["rsp"]
        if off >= 0:
            self.rep(a, "store-above-frame", "store to the caller's frame / return address (entry rsp%+d)" % off)
        elif sp[0] == "SP" and off < sp[1] - 128:
            self.rep(a, "store-below-redzone", "store %d bytes below the stack pointer, outside the 128-byte red zone" % (sp[1] - off))
        for o in list(st["stack"]):
            if off - 8 < o < off + size:
                del st["stack"][o]
        if size == 8:
            st["stack"][off] = val

    def check_exit(self, st, ins, kind):
        a = ins["a"]
        self.stats["exits"] += 1
        sp = st["regs"]["rsp"]
        if sp != ("SP", 0):
            if sp[0] == "SP":
                self.rep(a, "stack-imbalance", "%s with the stack pointer %d bytes %s its value at entry" %
                         (kind, abs(sp[1]), "below" if sp[1] < 0 else "above"))
            else:
                self.rep(a, "stack-unknown", "%s with a stack pointer the analysis could not relate to its entry value" % kind)
        for r in CALLEE_SAVED:
            if st["regs"][r] != ("C", r):
                self.rep(a, "callee-saved:%s" % r, "%s reached with callee-saved register %s not holding the caller's value "
                         "(clobbered and not restored on this path)" % (kind, r))
        if st["df"]:
            self.rep(a, "direction-flag", "%s with the direction flag set" % kind)
        if kind == "ret" and self.ret_bits:
            if not self.width_ok(st["regs"]["rax"], self.ret_bits):
                self.rep(a, "return-undef", "ret with the %d-bit return value in rax not written on some path" % self.ret_bits)

    def run(self):
        k = self.k
        IN = {self.addr: self.entry_state()}
        work = [self.addr]
        visited = set()
        ood = []
        it = 0
        while work:
            it += 1
            if it > 200000:
                raise AnalysisBroken("R-ABI: budget exceeded in %s" % self.name)
            a = work.pop()
            ins = k.insts.get(a)
            if ins is None or ins.get("bad"):
                self.rep(a, "flow-off-code", "control reaches bytes that are not a decodable instruction")
                continue
            visited.add(a)
            st = self.copy(IN[a])
            self.step(st, ins)
            f = ins["f"]
            succ = []
            rel = k.reloc_in(ins) if ("branch" in f or "call" in f) else None
            if "ret" in f:
                self.check_exit(st, ins, "ret")
                continue
            if "call" in f:
                ood.append((a, "call"))
                continue
            if "indirect" in f:
                tg = None
                jr = [x for x in ins["uses"] if x["top"] in GPR]
                if jr and not ins.get("mem") and IN[a]["regs"][jr[0]["top"]][0] == "CODE":
                    tg = IN[a]["regs"][jr[0]["top"]][1]
                else:
                    tg = k.targets_of_indirect(a)
                if tg:
                    succ = sorted(tg)
                else:
                    ood.append((a, "computed jump without a table"))
                    continue
            elif "branch" in f:
                if rel is not None and rel.get("symsection") != ".text":
                    self.check_exit(st, ins, "tail jump to %s" % rel.get("symbol"))
                    if "cond" in f and k.next[a] is not None:
                        succ.append(k.next[a])
                else:
                    t = ins.get("target")
                    if rel is not None:
                        t = rel.get("symaddr", 0) + rel.get("addend", 0) + 4
                    if t is None:
                        ood.append((a, "branch with unknown target"))
                    else:
                        succ.append(t)
                    if "cond" in f and k.next[a] is not None:
                        succ.append(k.next[a])
            else:
                if k.next[a] is None:
                    self.rep(a, "fall-off-end", "execution falls off the end of the code section")
                else:
                    succ.append(k.next[a])
            mn_ = ins["t"].split()[0] if ins.get("t") else ""
            cf0 = None          # the successor on which a branch on CF alone leaves CF = 0: there the flag is a cleared carry, whatever set it
            if "cond" in f and len(succ) == 2 and mn_ in ("jb", "jc", "jnae", "jae", "jnc", "jnb"):
                cf0 = succ[1] if mn_ in ("jb", "jc", "jnae") else succ[0]
            for s in succ:
                st_s = st
                if s == cf0 and st.get("cfp"):
                    st_s = self.copy(st)
                    st_s["cfp"] = frozenset()
                if s not in IN:
                    IN[s] = self.copy(st_s)
                    work.append(s)
                elif self.join(IN[s], st_s, s):
                    work.append(s)
        self.stats["instructions_reached"] += len(visited)
        return ood


def prototypes():
    d = os.path.join(scratch(), "protos")
    os.makedirs(d, exist_ok=True)
    src = os.path.join(d, "protos.c")
    open(src, "w").write('#include <stdio.h>\n#include "mpir.h"\n#include "gmp-impl.h"\n')
    cfg = sa.Config("protos", units=[], extra_files=[src], all_headers=True)
    ex = sa.export(cfg)
    u = ex.load(src)
    out = {}
    for p in u.get("protos", []):
        out[p["name"]] = p
    for f in u.get("functions", []):
        out.setdefault(f["name"], dict(name=f["name"], params=f["params"], ret=f["ret"]))
    if len(out) < 300:
        raise AnalysisBroken("only %d prototypes extracted from mpir.h / gmp-impl.h" % len(out))
    return out


def c_twin_overlap_contracts():
    """{function: {(dst arg, src arg): (kinds, text)}} from the overlap assertions of the C implementations (mpn/generic/*.c)"""
    import r_ovcontract, compdb
    cfg = sa.cfg_assert()
    cfg.name = "assert-generic-all"
    cfg.extra_files = compdb.generic_all_extra()
    ex = sa.export(cfg)
    out = {}
    for path, fn in ex.functions():
        c = r_ovcontract.contracts_of(fn, copy_macros=fn["name"] in ("__gmpn_copyi", "__gmpn_copyd"))
        if c:
            out.setdefault(fn["name"], c)
    return out


def ret_bits(t):
    t = t.strip()
    if t == "void":
        return 0
    if t in ("int", "unsigned int", "unsigned"):
        return 32
    return 64


UNUSED_ARGS = []
NOSTORE = []


C03_FAMILY = ("add_n", "sub_n", "add_err1_n", "add_err2_n", "sub_err1_n", "sub_err2_n", "lshift", "rshift", "copyi", "copyd", "com_n",
              "addadd_n", "addsub_n", "subadd_n", "sumdiff_n", "nsumdiff_n")


def run_c03(prop="C03", tier="quick"):
    """C03 view of R-ABI: every assembly implementation (all CPU directories, both tiers) of the add / subtract / shift / copy / complement
    family the property names.  The clauses that are necessary conditions of 'the exact limb-vector function including the returned carry,
    for every length and every permitted overlap': the carry flag consumed by adc / sbb / rcl / rcr comes from the carry chain (or a saved
    copy of it) on every path through the unrolled loop and its tails, never from loop-control arithmetic; no limb is stored before a limb
    of a source that may be the same vector (at the same or a higher address) has been loaded; every argument is read, every output
    operand is written, the returned register is defined on every path to every ret."""
    files = [(f, b) for f, b in kernel_files("thorough") if b in C03_FAMILY]
    return run(prop, tier, files=files, floor=60)


def run(prop="C14", tier="quick", files=None, floor=None):
    res = dict(findings=[], stats=collections.Counter(), samples=[], notes=[])
    del UNUSED_ARGS[:]
    files = kernel_files(tier) if files is None else files
    fixture = os.path.join(VERIF, "selftest", "fixtures", "abi_fix.as")
    objs = assemble(files + [(fixture, "abi_fix")])
    dec = decode(objs)
    protos = prototypes()
    twins = c_twin_overlap_contracts()
    ood_ok = {}
    for cols in spec_tsv("abi_out_of_domain.tsv", 3):
        ood_ok[(cols[0], cols[1])] = cols[2]
    fx = []
    for src, obj in sorted(objs.items()):
        d = dec.get(obj)
        if d is None or d.get("error"):
            raise AnalysisBroken("cannot decode %s: %s" % (src, d and d.get("error")))
        if d["decode_failures"]:
            raise AnalysisBroken("%d undecodable instructions in %s" % (d["decode_failures"], src))
        k = Kernel(src, d)
        if not k.text:
            raise AnalysisBroken("no code in %s" % src)
        res["stats"]["kernels"] += 1
        seen_addr = {}
        for name, addr in sorted(k.entries, key=lambda x: (not x[0].startswith("__g"), x[0])):
            pn = name if name.startswith("__g") else "__g" + name
            res["stats"]["entry_symbols"] += 1
            if addr in seen_addr:
                continue          # alias of an entry already analysed
            seen_addr[addr] = name
            p = protos.get(pn)
            if src == fixture:
                p = dict(params=[0, 0, 0], ret="mp_limb_t")
            if p is None:
                arity, rb = 6, None
                res["stats"]["entries_without_prototype"] += 1
            else:
                arity, rb = min(len(p["params"]), 6), ret_bits(p["ret"])
            found = []
            an = AbiAnalysis(k, name, addr, arity, rb, lambda a, sig, what: found.append((a, sig, what)), res["stats"])
            if p is not None and src != fixture:
                for (ci, cj), (kinds, _t) in twins.get(pn, {}).items():
                    if "same" in kinds:
                        an.same_ok.add((ci, cj))
                        if "above" in kinds or "below" in kinds:
                            an.dir_ok[(ci, cj)] = "above" if "above" in kinds else "below"
                for i, q in enumerate(p["params"][:6]):
                    ct = q.get("ct", "") if isinstance(q, dict) else ""
                    if "*" in ct:
                        an.ptr_args.add(i)
                        if ct.strip().startswith("const"):
                            an.const_args.add(i)
            ood = an.run()
            res["stats"]["entries_analysed"] += 1
            if p is not None and src != fixture:
                res["stats"]["argument_registers"] += arity
                for i in sorted(an.ptr_args - an.const_args):
                    res["stats"]["output_pointer_args"] += 1
                    if i not in an.stored_through:
                        NOSTORE.append((relpath(src), name, i))
                        found.append((addr, "output-arg-never-written:%s" % ARG_REGS[i],
                                      "%s: no store in the kernel uses an address derived from argument %d (%s), which the C prototype declares as "
                                      "a pointer to non-const limbs: that output operand is never written (every kernel of the library stores "
                                      "through each of its output pointers)" % (name, i + 1, ARG_REGS[i])))
                for i in range(arity):
                    if ARG_REGS[i] not in an.args_read:
                        UNUSED_ARGS.append((relpath(src), name, i, ARG_REGS[i]))
                        found.append((addr, "arg-ignored:%s" % ARG_REGS[i],
                                      "%s: no path from the entry reads %s while it still holds argument %d of the C prototype (%s): the kernel "
                                      "cannot compute a function of that argument (every one of the library's kernels reads all its arguments)"
                                      % (name, ARG_REGS[i], i + 1, ", ".join((x.get("t", "?") if isinstance(x, dict) else str(x)) for x in p["params"])[:80])))
            rel = relpath(src)
            for a, why in ood:
                key = (rel, why)
                if key in ood_ok or src == fixture:
                    res["stats"]["out_of_domain_paths"] += 1
                else:
                    found.append((a, "out-of-domain", "%s: %s at +0x%x is outside what the rule models and is not listed in "
                                  "spec/abi_out_of_domain.tsv" % (name, why, a - addr)))
            for a, sig, what in found:
                f = Finding(prop, "R-ABI", src, 0, name, sig, what)
                (fx if src == fixture else res["findings"]).append(f)
            if len(res["samples"]) < 10 and src != fixture:
                res["samples"].append(dict(rule="R-ABI", kernel=rel, entry=name, arity=arity, instructions=len(k.order),
                                           verdict="ok" if not found else "REFUTED"))
    exp = {"__gfix_abi_clobber": "callee-saved:rbx", "__gfix_abi_carry": "undef-flag:C", "__gfix_abi_stack": "stack-imbalance",
           "__gfix_abi_undef": "undef-reg:r8", "__gfix_abi_good": None,
           "__gfix_abi_counter_carry": "carry-from-address-arithmetic:r9", "__gfix_abi_saved_carry": None, "__gfix_abi_cf0": None}
    for fname, sig in exp.items():
        got = [f.signature for f in fx if f.function == fname]
        if sig is None and got:
            raise AnalysisBroken("R-ABI fires on its negative fixture %s: %s" % (fname, got))
        if sig is not None and sig not in got:
            raise AnalysisBroken("R-ABI no longer fires on its positive fixture %s (expected %s, got %s)" % (fname, sig, got))
    res["stats"]["kernels"] -= 1
    if floor is None:
        floor = 13 if tier == "quick" else 340
    if res["stats"]["kernels"] < floor:
        raise AnalysisBroken("R-ABI analysed only %d kernels (floor %d)" % (res["stats"]["kernels"], floor))
    res["stats"] = dict(res["stats"])
    res["obligations"] = res["stats"].get("instructions_reached", 0)
    res["notes"].append("fixtures: 5 positive fired, 3 negative silent; %d paths end at constructs listed out-of-domain"
                        % res["stats"].get("out_of_domain_paths", 0))
    res["exhaustive"] = True
    return res


def run_state(prop="C15", tier="quick"):
    """Assembly kernels hold no state of their own: the assembled object has no writable data section (.data, .bss, .tdata, ...) and no
    instruction stores through a RIP-relative or absolute (symbol) address.  The whole-program who-writes-what analysis of the C units
    (R-GLOBAL) cannot see a memo or counter that lives only in an .asm / .as file; this closes that gap for the 13 built kernels (quick)
    and all 351 (thorough).  Jump tables live in .data.rel.ro.local / .rodata, which are read-only at run time."""
    res = dict(findings=[], stats=collections.Counter(), samples=[], notes=[])
    files = kernel_files(tier)
    objs = assemble(files)
    dec = decode(objs)
    RO = (".rodata", ".data.rel.ro", ".note", ".comment", ".eh_frame", ".symtab", ".strtab", ".shstrtab", ".rela", ".rel", ".debug", ".group", ".text")
    for src, obj in sorted(objs.items()):
        d = dec.get(obj)
        if d is None or d.get("error"):
            raise AnalysisBroken("cannot decode %s" % src)
        res["stats"]["kernels"] += 1
        for sec in d["sections"]:
            if sec["size"] > 0 and not sec.get("text") and not sec["name"].startswith(RO):
                res["findings"].append(Finding(prop, "R-ABI.state", src, 0, os.path.basename(src), "mutable-section:%s" % sec["name"],
                                               "the assembled kernel has a %d-byte writable section %s: state shared by every thread that calls the "
                                               "routine, outside anything the manual documents" % (sec["size"], sec["name"])))
            for ins in sec.get("insts", []):
                res["stats"]["instructions"] += 1
                if "store" in ins.get("f", []):
                    for m in ins.get("mem", []):
                        if m.get("disp_sym") or m.get("base", {}).get("top") == "rip" or (not m.get("base") and not m.get("index")):
                            res["findings"].append(Finding(prop, "R-ABI.state", src, 0, os.path.basename(src), "global-store:+0x%x" % ins["a"],
                                                           "`%s` stores to a fixed (RIP-relative / absolute) address: a kernel writes only through its "
                                                           "pointer arguments and its own stack frame" % ins["t"].replace("\t", " ")))
    floor = 13 if tier == "quick" else 340
    if res["stats"]["kernels"] < floor:
        raise AnalysisBroken("R-ABI.state analysed only %d kernels (floor %d)" % (res["stats"]["kernels"], floor))
    res["stats"] = dict(res["stats"])
    res["obligations"] = res["stats"]["kernels"]
    res["samples"].append(dict(rule="R-ABI.state", kernels=res["stats"]["kernels"]))
    res["exhaustive"] = True
    return res
