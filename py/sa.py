"""Run mpir-sa over a configuration and load its per-unit exports."""
import json, os, re, subprocess

import core
from core import REPO, VERIF, AnalysisBroken, scratch, tool, pmap, JOBS
import compdb

RESOURCE_DIR = "/usr/lib/llvm-14/lib/clang/14.0.6"


def overlay_yaml(mapping, path):
    roots = [{"name": k, "type": "file", "external-contents": v} for k, v in sorted(mapping.items())]
    with open(path, "w") as f:
        json.dump({"version": 0, "case-sensitive": "true", "roots": roots}, f)
    return path


def config_h_variant(tmp_mode):
    """Copy of the current /repo/config.h with only the WANT_TMP_* lines rewritten."""
    src = open(os.path.join(REPO, "config.h")).read()
    want = {"alloca": "WANT_TMP_ALLOCA", "reentrant": "WANT_TMP_REENTRANT",
            "notreentrant": "WANT_TMP_NOTREENTRANT", "debug": "WANT_TMP_DEBUG"}[tmp_mode]
    n = 0
    out = []
    for ln in src.split("\n"):
        m = re.match(r"\s*(?:/\*\s*)?#\s*(?:define|undef)\s+(WANT_TMP_[A-Z]+)", ln)
        if m:
            n += 1
            out.append("#define %s 1" % m.group(1) if m.group(1) == want else "/* #undef %s */" % m.group(1))
        else:
            out.append(ln)
    if n < 4:
        raise AnalysisBroken("config.h: expected 4 WANT_TMP_* lines, found %d" % n)
    p = os.path.join(scratch(), "config-%s.h" % tmp_mode)
    open(p, "w").write("\n".join(out))
    return p


class Config:
    def __init__(self, name, flags=(), overlay=None, units=None, extra_files=(), all_headers=False):
        self.name, self.flags, self.overlay = name, list(flags), dict(overlay or {})
        self.units = units
        self.extra_files = list(extra_files)   # absolute paths compiled like an mpn unit
        self.all_headers = all_headers


def _mangle(p):
    return p.replace("/", "_") + ".json"


class Export:
    def __init__(self, outdir, files, cfg):
        self.outdir, self.files, self.cfg = outdir, files, cfg
        self._cache = {}

    def load(self, path):
        if path not in self._cache:
            fn = os.path.join(self.outdir, _mangle(path))
            try:
                self._cache[path] = json.load(open(fn))
            except Exception as e:
                raise AnalysisBroken("no export for %s in config %s (%s)" % (path, self.cfg.name, e))
            # a switch with one case label and a default has two successors like an `if`, but its condition is not a truth value: keep it
            # under another key so that no rule reads it as the condition of a two-way branch
            for f in self._cache[path].get("functions", ()):
                for b in f.get("blocks", ()):
                    t = b.get("term")
                    if t and t.get("kind") == "SwitchStmt" and "cond" in t:
                        t["switch_cond"] = t.pop("cond")
        return self._cache[path]

    def units(self):
        for p in self.files:
            yield p, self.load(p)

    def functions(self, pred=None):
        for p, u in self.units():
            if pred and not pred(p):
                continue
            for f in u["functions"]:
                yield p, f


_exports = {}


def export(cfg):
    key = (cfg.name, tuple(cfg.extra_files), tuple(cfg.flags), None if cfg.units is None else tuple(u.path for u in cfg.units),
           tuple(sorted(cfg.overlay.items())), bool(cfg.all_headers), bool(getattr(cfg, "cxx", False)))
    if key in _exports:
        return _exports[key]
    out = os.path.join(scratch(), "sa-%s-%d-%d" % (cfg.name, core._gen, len(_exports)))
    os.makedirs(out, exist_ok=True)
    us = cfg.units if cfg.units is not None else compdb.c_units()
    files = [u.path for u in us] + cfg.extra_files
    args = []
    ov = dict(cfg.overlay)
    ov.update(core.OVERLAY)
    if ov:
        y = overlay_yaml(ov, os.path.join(out, "overlay.yaml"))
        args += ["--overlay", y]
    if cfg.all_headers:
        args += ["--all-headers"]
    flags = ["-DHAVE_CONFIG_H", "-I{DIR}", "-I" + REPO, "-D__GMP_WITHIN_GMP", "-DOPERATION_{BASE}", "-w",
             "-resource-dir", RESOURCE_DIR, "-ferror-limit=0"] + cfg.flags
    if getattr(cfg, "cxx", False):
        args += ["--cxx"]
        flags = ["-x", "c++", "-std=gnu++17", "-I" + REPO, "-w", "-resource-dir", RESOURCE_DIR, "-ferror-limit=0"] + cfg.flags
    exe = tool("mpir-sa")
    nb = max(1, min(JOBS, len(files)))
    batches = [files[i::nb] for i in range(nb)]

    def one(batch):
        p = subprocess.run([exe, "--out", out] + args + batch + ["--"] + flags, capture_output=True, text=True)
        return p.returncode, p.stderr[-800:]

    res = pmap(one, batches)
    ex = Export(out, files, cfg)
    bad = []
    for p in files:
        fn = os.path.join(out, _mangle(p))
        if not os.path.exists(fn):
            bad.append(p + " (no output)")
    if bad:
        raise AnalysisBroken("mpir-sa produced no export for %d units in config %s: %s; %s"
                             % (len(bad), cfg.name, bad[:3], [r[1] for r in res if r[0]][:1]))
    _exports[key] = ex
    return ex


def check_errors(ex):
    """A unit that no longer parses is an analysis failure, never a pass."""
    bad = [(p, u["errors"]) for p, u in ex.units() if u.get("errors")]
    if bad:
        raise AnalysisBroken("clang reported errors in %d units (config %s), e.g. %s" % (len(bad), ex.cfg.name, bad[:3]))


# standard configurations ----------------------------------------------------
def cfg_built():
    return Config("built")


BUILT_FIXTURES = ("alias_fix.c", "alloc_fix.c", "constsrc_fix.c", "divzero_fix.c", "extent_fix.c", "samesrc_fix.c", "stream_fix.c")


def cfg_builtfx():
    """the built configuration plus every rule's fixture file (one export shared by all rules of a run); a rule looks only at
    its own fixture and must ignore the others (is_foreign_fixture)"""
    return Config("built-fx", extra_files=[os.path.join(VERIF, "selftest", "fixtures", f) for f in BUILT_FIXTURES])


def is_foreign_fixture(path, own):
    owns = [own] if isinstance(own, str) else list(own or ())
    return path.startswith(os.path.join(VERIF, "selftest", "fixtures") + os.sep) and path not in owns


def cfg_assert():
    return Config("assert", flags=["-DWANT_ASSERT=1"])


def cfg_tmp(mode, with_assert=False):
    return Config("tmp-" + mode + ("-assert" if with_assert else ""),
                  flags=["-DWANT_ASSERT=1"] if with_assert else [],
                  overlay={os.path.join(REPO, "config.h"): config_h_variant(mode)})


# ---------------------------------------------------------------------------
# helpers over the exported expression trees
def walk(e, f, skip_nested_calls=False, top=True):
    """Pre-order walk over an expression tree. f(node) may return False to stop descending."""
    if not isinstance(e, dict):
        return
    if f(e) is False:
        return
    k = e.get("k")
    for key in ("l", "r", "e", "base", "idx", "c", "a", "b", "fn", "init"):
        if key in e and isinstance(e[key], dict):
            walk(e[key], f, skip_nested_calls, False)
    for key in ("args", "elems", "kids", "outs", "ins"):
        for x in e.get(key, ()):
            walk(x, f, skip_nested_calls, False)
    for d in e.get("decls", ()):
        if "init" in d:
            walk(d["init"], f, skip_nested_calls, False)
        if "vla" in d:
            walk(d["vla"], f, skip_nested_calls, False)


def calls_in(e):
    out = []
    walk(e, lambda n: out.append(n) if n.get("k") == "call" else None)
    return out


def blocks_by_id(fn):
    return {b["id"]: b for b in fn["blocks"]}


def succ_ids(b):
    return [s for s in b["succs"] if isinstance(s, int)]


def strip_expect(e):
    """__builtin_expect((x) != 0, c) -> x ;  also strips !=0 wrappers"""
    while isinstance(e, dict):
        if e.get("k") == "call" and e.get("callee") == "__builtin_expect" and e.get("args"):
            e = e["args"][0]
            continue
        if e.get("k") == "binop" and e["op"] == "!=" and isinstance(e.get("r"), dict) and e["r"].get("k") == "int" \
                and e["r"].get("v") == 0 and isinstance(e.get("l"), dict) and e["l"].get("k") in ("binop", "unop", "call"):
            if e["l"].get("k") == "binop" and e["l"]["op"] in ("<", ">", "<=", ">=", "==", "!=", "&&", "||") \
                    or e["l"].get("k") == "unop" and e["l"]["op"] == "!" \
                    or e["l"].get("k") == "call" and e["l"].get("callee") == "__builtin_expect":
                e = e["l"]
                continue
        if e.get("k") == "cast":
            e = e["e"]
            continue
        break
    return e


def effective_cond(term):
    """The condition a 2-way block actually branches on.  For `if (a || b)` Clang reports the whole `a || b` as the
    terminator condition of the block that evaluates only `b` (a was decided by the preceding `||` block), so the
    effective condition is the rightmost operand of the logical operators; a `!` around the logical expression
    (BELOW_THRESHOLD is `! ABOVE_THRESHOLD`, itself `t == 0 || (t != MAX && n >= t)`) is carried onto that operand."""
    if term and term.get("kind") == "SwitchStmt":
        return None                 # a switch with one case and a default has two successors too: its condition is not a truth value
    c = term.get("cond") if term else None
    neg = False
    while isinstance(c, dict):
        c2 = strip_expect(c)
        if isinstance(c2, dict) and c2.get("k") == "unop" and c2["op"] == "!":
            inner = strip_expect(c2["e"])
            if isinstance(inner, dict) and inner.get("k") == "binop" and inner["op"] in ("&&", "||"):
                neg = not neg
                c = inner
                continue
            break
        if isinstance(c2, dict) and c2.get("k") == "binop" and c2["op"] in ("&&", "||"):
            c = c2["r"]
            continue
        break
    if neg and isinstance(c, dict):
        return {"k": "unop", "op": "!", "e": c}
    return c
