"""R-GLOBAL (C15): the only mutable shared state is what the manual lists.
   R-ALLOC.1 (C04): who may call the C allocator.
Both run on the facts mpir-ir extracts from the linked, SROA'd, attribute-inferred IR."""
import collections
from core import *


def _kinds(g):
    d = collections.defaultdict(list)
    for u in g["uses"]:
        d[u["kind"]].append(u)
    return d


def callgraph(facts):
    cg = collections.defaultdict(set)
    for f in facts["functions"]:
        for c in f["callees"]:
            if c["name"]:
                cg[f["name"]].add(c["name"])
    return cg


def reachers(cg, targets):
    """all functions from which some target is reachable through direct calls (targets included)"""
    rev = collections.defaultdict(set)
    for a, bs in cg.items():
        for b in bs:
            rev[b].add(a)
    seen, todo = set(targets), list(targets)
    while todo:
        x = todo.pop()
        for y in rev[x]:
            if y not in seen:
                seen.add(y)
                todo.append(y)
    return seen


def config_variants(tier):
    """(tag, extra clang flags, extra units): the build-option dimension of C15 - code under #if WANT_TMP_REENTRANT /
    WANT_TMP_DEBUG / WANT_ASSERT is part of the library although the pinned build never compiles it"""
    import sa, compdb
    out = [("built", [], None)]
    y = sa.overlay_yaml({os.path.join(REPO, "config.h"): sa.config_h_variant("reentrant")},
                        os.path.join(scratch(), "ov-reent.yaml"))
    out.append(("tmp-reentrant", ["-ivfsoverlay", y], None))
    if tier == "thorough":
        y2 = sa.overlay_yaml({os.path.join(REPO, "config.h"): sa.config_h_variant("debug")},
                             os.path.join(scratch(), "ov-debug.yaml"))
        # configure links tal-debug.o INSTEAD of tal-reent.o in this mode
        us = [u for u in compdb.c_units() if u.rel != "tal-reent.c"]
        for extra in ("tal-debug.c",):
            if not os.path.exists(os.path.join(REPO, extra)):
                raise AnalysisBroken("R-GLOBAL: %s vanished" % extra)
            us = us + [compdb.Unit(extra, "c")]
        out.append(("tmp-debug", ["-ivfsoverlay", y2], us))
        out.append(("assert", ["-DWANT_ASSERT=1"], None))
    return out


def run_global(prop="C15", tier="quick"):
    res = dict(findings=[], stats={}, samples=[], notes=[], obligations=0)
    for tag, flags, us in config_variants(tier):
        r = run_global_one(prop, ir_facts(tag=tag, extra_flags=flags, units_=us), tag)
        res["findings"] += r["findings"]
        res["samples"] += r["samples"] if tag == "built" else []
        res["notes"] += ["[%s] %s" % (tag, n) for n in r["notes"]]
        res["stats"][tag] = r["stats"]
        res["obligations"] += r["obligations"]
    res["exhaustive"] = True
    return res


def run_global_one(prop, facts, tag):
    res = dict(findings=[], stats={}, samples=[], notes=[])
    F = res["findings"]
    doc = {}
    for cols in spec_tsv("documented_globals.tsv", 4):
        doc[cols[0]] = (set(x.strip() for x in cols[1].split(",") if x.strip()), cols[3], cols[2].strip() == "check")
    allowed_api = collections.defaultdict(set)
    for cols in spec_tsv("nonreentrant_api.tsv", 3):
        for g in cols[1].split(","):
            allowed_api[g.strip()].add(cols[0])
    unsafe = {}
    for ln in open(os.path.join(VERIF, "spec", "posix_unsafe.txt")):
        ln = ln.rstrip("\n")
        if not ln or ln.startswith("#"):
            continue
        c = ln.split("\t")
        unsafe[c[0].strip()] = c[1] if len(c) > 1 else None

    fn = {f["name"]: f for f in facts["functions"]}
    defined = {n for n, f in fn.items() if f["defined"]}
    cg = callgraph(facts)

    # anchors
    for g in ("__gmp_allocate_func", "__gmp_reallocate_func", "__gmp_free_func",
              "__gmp_default_fp_limb_precision", "__gmp_rands", "__gmp_rands_initialized"):
        if g not in {x["name"] for x in facts["globals"]}:
            raise AnalysisBroken("R-GLOBAL anchor global %s not found in the linked module" % g)

    n_classified = collections.Counter()
    for g in facts["globals"]:
        if g["declaration"]:
            n_classified["external-declaration"] += 1
            continue
        k = _kinds(g)
        writes = k["store"]
        maywrite = [u for u in k["callarg"] if not u["via"].endswith(":readonly")
                    and ":readonly" not in u["via"]]
        escapes = k["escape"]
        name, loc = g["name"], g["loc"]
        file, _, line = loc.rpartition(":")
        line = int(line) if line.isdigit() else 0
        if g["constant"]:
            n_classified["constant"] += 1
            if writes:   # store into .rodata would fault; still a shared-write in the source
                for u in writes:
                    F.append(Finding(prop, "R-GLOBAL", file, line, u["fn"], "store-const:%s:%s" % (name, u["fn"]),
                                     "function %s stores into constant global %s (line %d)" % (u["fn"], name, u["line"])))
            continue
        if g["thread_local"]:
            n_classified["thread-local"] += 1
            continue
        if not writes and not maywrite and not escapes:
            n_classified["effectively-immutable"] += 1
            res["samples"].append(dict(kind="effectively-immutable", rule="R-GLOBAL: no store, no escape, not passed to a writing callee", **{"global": name}, loc=relpath(loc)))
            continue
        if name in doc:
            n_classified["documented-mutable"] += 1
            allowed_writers, reason, reach = doc[name]
            wf = sorted({u["fn"] for u in writes} | {u["fn"] for u in maywrite})
            res["samples"].append(dict(kind="documented-mutable", **{"global": name}, writers=wf, reason=reason))
            for w in wf:
                if w not in allowed_writers:
                    F.append(Finding(prop, "R-GLOBAL", file, line, w, "writer:%s:%s" % (name, w),
                                     "documented global %s is written by %s, which is not one of its documented writers (%s)"
                                     % (name, w, ", ".join(sorted(allowed_writers)))))
            # exported functions that reach a writer
            api = {x for x in reachers(cg, wf) if x in defined and not fn[x]["internal"]} if reach else set()
            for a in sorted(api - allowed_api[name] - allowed_writers):
                F.append(Finding(prop, "R-GLOBAL", fn[a]["loc"].rpartition(":")[0], 0, a, "reach:%s:%s" % (name, a),
                                 "exported function %s reaches a write of shared global %s but is not listed as non-reentrant" % (a, name)))
            continue
        n_classified["UNDOCUMENTED-mutable"] += 1
        for u in writes:
            F.append(Finding(prop, "R-GLOBAL", file, line, u["fn"], "store:%s:%s" % (name, u["fn"]),
                             "function %s writes global/static %s (%s line %d%s): mutable shared state that the manual does not list"
                             % (u["fn"], name, relpath(loc), u["line"], ", " + u["via"] if u["via"] else "")))
        for u in maywrite:
            F.append(Finding(prop, "R-GLOBAL", file, line, u["fn"], "maywrite:%s:%s" % (name, u["fn"]),
                             "function %s passes global/static %s to %s, which may write it" % (u["fn"], name, u["via"])))
        if not writes and not maywrite:
            for u in escapes:
                F.append(Finding(prop, "R-GLOBAL", file, line, u["fn"], "escape:%s:%s" % (name, u["fn"]),
                                 "address of writable global/static %s escapes in %s (%s); writers can no longer be enumerated"
                                 % (name, u["fn"], u["via"])))

    # external callees on the POSIX not-thread-safe list
    ext_calls = collections.defaultdict(set)
    for f in facts["functions"]:
        if not f["defined"]:
            continue
        for c in f["callees"]:
            if c["name"] and c["name"] not in defined:
                ext_calls[c["name"]].add(f["name"])
    for callee, callers in sorted(ext_calls.items()):
        base = callee.replace("__isoc99_", "")
        if base in unsafe:
            if unsafe[base]:
                res["notes"].append("reviewed use of %s by %s: %s" % (base, ", ".join(sorted(callers)), unsafe[base]))
                continue
            for c in sorted(callers):
                F.append(Finding(prop, "R-GLOBAL", fn[c]["loc"].rpartition(":")[0], 0, c, "unsafe-callee:%s:%s" % (base, c),
                                 "%s calls %s, which POSIX does not require to be thread-safe" % (c, base)))
    n_glob = sum(n_classified.values())
    if n_glob < 100:
        raise AnalysisBroken("R-GLOBAL classified only %d globals (floor 100)" % n_glob)
    res["stats"] = dict(globals_classified=n_glob, by_class=dict(n_classified),
                        defined_functions=len(defined), external_callees=sorted(ext_calls),
                        call_edges=sum(len(v) for v in cg.values()))
    res["obligations"] = n_glob + len(ext_calls)
    res["exhaustive"] = True
    return res


# ---------------------------------------------------------------------------
ALLOCATORS = ["malloc", "calloc", "realloc", "free", "strdup", "strndup", "asprintf", "vasprintf",
              "posix_memalign", "aligned_alloc", "memalign", "valloc", "reallocarray", "mmap", "sbrk", "brk",
              "open_memstream", "getline", "getdelim"]


def run_alloc_who(prop="C04", tier="quick"):
    facts = ir_facts()
    res = dict(findings=[], stats={}, samples=[], notes=[])
    allowed = {}
    for cols in spec_tsv("allocator_callers.tsv", 3):
        allowed.setdefault(cols[0], set()).add(cols[1])
    fn = {f["name"]: f for f in facts["functions"]}
    for need in ("__gmp_default_allocate", "__gmp_default_reallocate", "__gmp_default_free", "__gmp_set_memory_functions"):
        if need not in fn or not fn[need]["defined"]:
            raise AnalysisBroken("R-ALLOC anchor %s vanished" % need)
    sites = 0
    seen_callers = collections.defaultdict(set)
    for f in facts["functions"]:
        if not f["defined"]:
            continue
        for c in f["callees"]:
            if c["name"] in ALLOCATORS or c["name"] in allowed:
                sites += 1
                seen_callers[c["name"]].add(f["name"])
                if f["name"] not in allowed.get(c["name"], ()):
                    res["findings"].append(Finding(prop, "R-ALLOC.who", f["loc"].rpartition(":")[0], c["line"], f["name"],
                                                   "who:%s:%s" % (c["name"], f["name"]),
                                                   "%s calls %s directly (line %d); heap memory must come through the functions installed with mp_set_memory_functions"
                                                   % (f["name"], c["name"], c["line"])))
        # taking the address of an allocator (e.g. to stash it in a table) is a call in disguise
        for a in f.get("fnaddr_taken", []):
            if a in ALLOCATORS and f["name"] not in allowed.get(a, ()):
                res["findings"].append(Finding(prop, "R-ALLOC.who", f["loc"].rpartition(":")[0], 0, f["name"],
                                               "addr:%s:%s" % (a, f["name"]), "%s takes the address of %s" % (f["name"], a)))
    # the allocator triple is stored only by mp_set_memory_functions
    for g in facts["globals"]:
        if g["name"] in ("__gmp_allocate_func", "__gmp_reallocate_func", "__gmp_free_func"):
            for u in g["uses"]:
                if u["kind"] in ("store", "escape") or (u["kind"] == "callarg" and ":readonly" not in u["via"]):
                    if u["fn"] != "__gmp_set_memory_functions":
                        res["findings"].append(Finding(prop, "R-ALLOC.who", g["loc"].rpartition(":")[0], u["line"], u["fn"],
                                                       "ptrstore:%s:%s" % (g["name"], u["fn"]),
                                                       "%s %s the allocator pointer %s" % (u["fn"], u["kind"], g["name"])))
    for a in ("malloc", "realloc", "free"):
        if not seen_callers.get(a):
            raise AnalysisBroken("R-ALLOC.who: no caller of %s found; the default allocator anchors moved" % a)
    res["stats"] = dict(allocator_call_sites=sites, callers={k: sorted(v) for k, v in seen_callers.items()})
    for k, v in seen_callers.items():
        res["samples"].append(dict(rule="R-ALLOC.who", callee=k, callers=sorted(v)))
    res["obligations"] = sites + 3
    res["exhaustive"] = True
    return res
