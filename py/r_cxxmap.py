"""R-CXXMAP (C20, clause "with the corresponding C function"): an operator functor of mpirxx.h never reaches a C function whose semantics
conflict with the operator's.

The expression templates hand every operation to a functor (__gmp_binary_divides::eval (z, w, v), __gmp_unary_com::eval, ...).  The manual
fixes what each operator means: / and % truncate (mpz_tdiv_q / mpz_tdiv_r), >> on integers floors (mpz_fdiv_q_2exp), << multiplies, the
bitwise operators are and / ior / xor / com, floor / ceil / trunc, gcd / lcm, ++ / --.  For every functor F and operand kind (mpz, mpq, mpf by
the destination parameter; comparisons by their first object parameter) the set of mp?_ functions reachable from its eval overloads -
including through other functors it delegates to - is computed on the instantiation-independent bodies Clang type-checks in the driver TU, and
compared with a table of CONFLICTS: function families that implement a different operator or a different rounding of the same operator.
Each functor must also reach at least one function of its own family (REQUIRED), so an overload cannot silently stop computing.

Only conflicts are judged - helper calls (set, neg, init, clear, fits, get, cmpabs, swap ...) are free, and so is any function of the
functor's own family, so restructuring an overload (temporaries, sign handling, ui / si variants) does not trip the rule.  Operand order,
sign handling and the comparisons' use of the cmp result are values and are not decided."""
import collections, re

import sa, r_cxx
from core import *

# functor -> (required family prefixes, conflicting family prefixes) per kind; prefixes match the C name after mpz_/mpq_/mpf_
ROUND_Z = ("fdiv_", "cdiv_", "mod")
SEM = {
    "divides":    {"mpz": (("tdiv_q", "divexact"), ROUND_Z + ("tdiv_r", "mul")),
                   "mpq": (("div",), ("mul", "add", "sub")), "mpf": (("div", "ui_div"), ("mul", "add", "sub"))},
    "modulus":    {"mpz": (("tdiv_r",), ROUND_Z + ("tdiv_q", "mul"))},
    "multiplies": {"mpz": (("mul",), ("tdiv_", "fdiv_", "cdiv_", "divexact")), "mpq": (("mul",), ("div",)), "mpf": (("mul",), ("div", "ui_div"))},
    "rshift":     {"mpz": (("fdiv_q_2exp",), ("tdiv_", "cdiv_", "mul_2exp", "fdiv_r")), "mpq": (("div_2exp",), ("mul_2exp",)), "mpf": (("div_2exp",), ("mul_2exp",))},
    "lshift":     {"mpz": (("mul_2exp",), ("tdiv_", "cdiv_", "fdiv_")), "mpq": (("mul_2exp",), ("div_2exp",)), "mpf": (("mul_2exp",), ("div_2exp",))},
    "and":        {"mpz": (("and",), ("ior", "xor", "com"))},
    "ior":        {"mpz": (("ior",), ("and", "xor", "com"))},
    "xor":        {"mpz": (("xor",), ("and", "ior", "com"))},
    "com":        {"mpz": (("com",), ("and", "ior", "xor", "neg"))},
    "minus1":     {"mpz": (("neg",), ("com", "abs")), "mpq": (("neg",), ("abs", "inv")), "mpf": (("neg",), ("abs",))},
    "abs":        {"mpz": (("abs",), ("neg", "com")), "mpq": (("abs",), ("neg", "inv")), "mpf": (("abs",), ("neg",))},
    "sqrt":       {"mpz": (("sqrt",), ("root", "pow")), "mpf": (("sqrt",), ())},
    "floor":      {"mpf": (("floor",), ("ceil", "trunc"))},
    "ceil":       {"mpf": (("ceil",), ("floor", "trunc"))},
    "trunc":      {"mpf": (("trunc",), ("floor", "ceil"))},
    "gcd":        {"mpz": (("gcd",), ("lcm",))},
    "lcm":        {"mpz": (("lcm",), ("gcd",))},
    "increment":  {"mpz": (("add",), ("sub",)), "mpq": (("add",), ("sub",)), "mpf": (("add",), ("sub",))},
    "decrement":  {"mpz": (("sub",), ("add",)), "mpq": (("sub",), ("add",)), "mpf": (("sub",), ("add",))},
    "plus":       {"mpz": (("add", "sub_ui"), ("tdiv_", "fdiv_", "cdiv_")), "mpq": (("add",), ("div",)), "mpf": (("add", "sub_ui"), ("div",))},
    "minus":      {"mpz": (("sub", "add_ui"), ("tdiv_", "fdiv_", "cdiv_")), "mpq": (("sub",), ("div",)), "mpf": (("sub", "add_ui"), ("div",))},
}
CLASSES = {"__gmp_binary_divides": "divides", "__gmp_binary_modulus": "modulus", "__gmp_binary_multiplies": "multiplies",
           "__gmp_binary_rshift": "rshift", "__gmp_binary_lshift": "lshift", "__gmp_binary_and": "and", "__gmp_binary_ior": "ior",
           "__gmp_binary_xor": "xor", "__gmp_unary_com": "com", "__gmp_unary_minus": "minus1", "__gmp_abs_function": "abs",
           "__gmp_sqrt_function": "sqrt", "__gmp_floor_function": "floor", "__gmp_ceil_function": "ceil", "__gmp_trunc_function": "trunc",
           "__gmp_gcd_function": "gcd", "__gmp_lcm_function": "lcm", "__gmp_unary_increment": "increment", "__gmp_unary_decrement": "decrement",
           "__gmp_binary_plus": "plus", "__gmp_binary_minus": "minus",
           # fixtures
           "__gmp_fix_divides_floor": "divides", "__gmp_fix_divides_good": "divides", "__gmp_fix_divides_via_shift": "divides"}


def kind_of(fn):
    ct = fn["params"][0].get("ct", "") if fn["params"] else ""
    for k in ("mpz", "mpq", "mpf"):
        if "__%s_struct" % k in ct:
            return k
    return None


def run(prop="C20", tier="quick"):
    res = dict(findings=[], stats=collections.Counter(), samples=[], notes=[])
    cfg = sa.Config("cxx", units=[], extra_files=[r_cxx.DRIVER, os.path.join(VERIF, "selftest", "fixtures", "cxx_bad_driver.cc")], all_headers=True)
    cfg.cxx = True
    ex = sa.export(cfg)
    bodies = collections.defaultdict(list)          # (class, kind) -> [fn]
    for unit in (r_cxx.DRIVER, os.path.join(VERIF, "selftest", "fixtures", "cxx_bad_driver.cc")):
        u = ex.load(unit)
        if u.get("errors"):
            raise AnalysisBroken("the C++ driver TU no longer parses against mpirxx.h (%d errors)" % u["errors"])
        for f in u["functions"]:
            if f["name"] == "eval" and f.get("cls", "").startswith("__gmp_") and "__gmp_expr" not in f.get("cls", ""):
                k = kind_of(f)
                if k and not any(g["line"] == f["line"] and g["file"] == f["file"] for g in bodies[(f["cls"], k)]):
                    bodies[(f["cls"], k)].append(f)
    direct = {}
    for key, fns in bodies.items():
        cs, nested = {}, set()
        for f in fns:
            for b in f["blocks"]:
                for el in b["elems"]:
                    def g(n, f=f, el=el):
                        if n.get("k") == "call" and n.get("callee"):
                            c = n["callee"]
                            m = re.match(r"^__gmp([zqf])_(.+)$", c)
                            if m:
                                cs.setdefault(m.group(2), (f["file"], el["line"], c))
                            q = n.get("qual", "")
                            if c == "eval" and q.startswith("__gmp_") and "::" in q:
                                nested.add(q.split("::")[0])
                    sa.walk(el["e"], g)
        direct[key] = (cs, nested)

    def closure(key, seen=None):
        seen = seen or set()
        if key in seen or key not in direct:
            return {}
        seen.add(key)
        cs, nested = direct[key]
        out = dict(cs)
        for cls in nested:
            for name, where in closure((cls, key[1]), seen).items():
                out.setdefault(name, where + ("via %s" % cls,))
        return out
    fx = collections.Counter()
    for (cls, kind), fns in sorted(bodies.items()):
        sem = CLASSES.get(cls)
        if sem is None or kind not in SEM[sem]:
            continue
        req, conflicts = SEM[sem][kind]
        reach = closure((cls, kind))
        fixture = cls.startswith("__gmp_fix_")
        if not fixture:
            res["stats"]["functor_kinds"] += 1
            res["stats"]["functions_reached"] += len(reach)
            res["samples"].append(dict(rule="R-CXXMAP", functor=cls, kind=kind, reaches=sorted(reach)[:12]))
        for name, where in sorted(reach.items()):
            if any(name.startswith(cp) for cp in conflicts) and not any(name.startswith(rp) for rp in req):
                f_ = Finding(prop, "R-CXXMAP", where[0], where[1], "%s::eval" % cls, "conflicting-function:%s:%s:%s" % (cls, kind, where[2]),
                             "%s::eval for %s operands reaches %s%s (line %d): the operator's meaning in the manual is %s, and %s implements a "
                             "different operation or rounding" % (cls, kind, where[2], " " + where[3] if len(where) > 3 else "", where[1],
                                                                 "/".join(req), where[2]))
                if fixture:
                    fx[cls] += 1
                else:
                    res["findings"].append(f_)
        if not any(any(name.startswith(rp) for rp in req) for name in reach):
            f_ = Finding(prop, "R-CXXMAP", fns[0]["file"], fns[0]["line"], "%s::eval" % cls, "no-corresponding-function:%s:%s" % (cls, kind),
                         "no overload of %s::eval for %s operands reaches a function of the operator's own family (%s)" % (cls, kind, "/".join(req)))
            if fixture:
                fx[cls] += 1
            else:
                res["findings"].append(f_)
    if not fx.get("__gmp_fix_divides_floor") or not fx.get("__gmp_fix_divides_via_shift") or fx.get("__gmp_fix_divides_good"):
        raise AnalysisBroken("R-CXXMAP fixtures: %r" % dict(fx))
    if res["stats"]["functor_kinds"] < 40:
        raise AnalysisBroken("R-CXXMAP: only %d (functor, operand kind) pairs judged (floor 40)" % res["stats"]["functor_kinds"])
    res["stats"] = dict(res["stats"])
    res["obligations"] = res["stats"]["functions_reached"]
    res["notes"].append("fixtures: 2 positive fired (direct, through another functor), 1 negative silent")
    res["exhaustive"] = True
    return res
