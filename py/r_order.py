"""R-ORDER (C11): the small comparison and range predicates that look at an integer only through its size field and its lowest limb -
_mpz_cmp_ui, _mpz_cmp_si, mpz_cmpabs_ui, mpz_fits_{sshort,sint,slong,ushort,uint,ulong}_p - return the sign of the exact difference /
the exact range answer for EVERY input.

These functions touch their operands only through comparisons, so the input space falls into finitely many *cells* on which the exact
answer is constant: the size n of u in {<= -2, -1, 0, 1, >= 2}, the scalar v in {< 0, 0, > 0}, and - where both matter - the order of the
low limb l against |v| in {<, =, >} (for the fits predicates: l against the two limits of the C type).  For each cell the function's CFG is
executed abstractly (intervals over mathematical integers plus the symbols 'this value is l', 'is v', 'is -v'); every branch condition
is decided by the cell, or - when an exactly known quantity is compared with a constant that cuts the cell - both arms are followed and
both are attained.  Loop-free functions only (anything else is analysis-broken, not a pass).  Verdict per cell: proved when every
reachable return has the right sign; refuted when a return that is attained has a definitely wrong sign; undecided otherwise.

Static: no library code runs; the cells and the exact answers are arithmetic facts about well-formed integers (n != 0 implies l >= 1 for
|n| = 1) and the LP64 limits of the C types named by the functions."""
import collections

import sa
from core import *

FIXTURE = os.path.join(VERIF, "selftest", "fixtures", "order_fix.c")
B64 = 1 << 64
LMAX = B64 - 1
NBIG = (1 << 31) - 1


class LoopFound(Exception):
    pass


class V:
    __slots__ = ("lo", "hi", "sym", "exact")

    def __init__(self, lo, hi, sym=None, exact=False):
        self.lo, self.hi, self.sym, self.exact = lo, hi, sym, exact or lo == hi

    def __repr__(self):
        return "V(%s..%s,%s,%s)" % (self.lo, self.hi, self.sym, "x" if self.exact else "~")


TOPV = V(-(1 << 70), 1 << 70)
PTR_L = "ptr-to-limbs"
OBJ_U = "the-number"


def const(c):
    return V(c, c, None, True)


def is_uns(t):
    t = t or ""
    return "unsigned" in t or t in ("mp_limb_t", "mpir_ui", "size_t", "mp_bitcnt_t")


def _strip(e):
    while isinstance(e, dict) and e.get("k") == "paren":
        e = e["e"]
    return e


class Cell:
    def __init__(self, n, v=None, rel=None, l=None, label="", e=None):
        self.n, self.v, self.rel, self.l, self.label, self.e = n, v, rel, l, label, e       # e: exponent interval (mpf predicates)


class Exec:
    """abstract execution of one function on one cell"""

    def __init__(self, fn, cell, uparam, vparam, unit=None, depth=0):
        self.fn, self.cell = fn, cell
        self.blocks = sa.blocks_by_id(fn)
        self.uid = uparam["id"] if uparam else None
        self.vid = vparam["id"] if vparam else None
        self.results = []          # (value, quality, line)
        self.steps = 0
        self.unit = unit or {}     # functions of the same unit, by name: calls to them are executed in place
        self.depth = depth

    # -- values
    def atom_n(self):
        return V(self.cell.n[0], self.cell.n[1], ("N", 1), True)

    def is_abs_n(self, v):
        """the value equals |n| in this cell (n of definite sign)"""
        if not v.sym or v.sym[0] != "N":
            return False
        lo, hi = self.cell.n
        return (lo > 0 and v.sym[1] == 1) or (hi < 0 and v.sym[1] == -1)

    def atom_l(self):
        lo, hi = self.cell.l if self.cell.l else (1, LMAX)
        if self.cell.n == (0, 0):
            return V(0, LMAX)                    # the limb of a zero is not part of its value
        return V(lo, hi, ("L",), True)

    def eval(self, e, env):
        e = _strip(e)
        if not isinstance(e, dict):
            return TOPV
        k = e.get("k")
        if k == "int":
            return const(e["v"])
        if k == "var":
            if e["id"] == self.uid and e["id"] not in env:
                return OBJ_U
            return env.get(e["id"], TOPV)
        if k == "member":
            b = _strip(e.get("base"))
            while isinstance(b, dict) and b.get("k") in ("cast", "unop"):
                b = _strip(b["e"])
            if isinstance(b, dict) and b.get("k") == "var" and (env.get(b["id"]) is OBJ_U or (b["id"] == self.uid and b["id"] not in env)):
                if e["field"] == "_mp_size":
                    return self.atom_n()
                if e["field"] == "_mp_exp" and self.cell.e is not None:
                    return V(self.cell.e[0], self.cell.e[1], ("E",), True)
                if e["field"] == "_mp_d":
                    return PTR_L
            return TOPV
        if k == "index" or (k == "unop" and e["op"] == "*"):
            base = self.eval(e["base"] if k == "index" else e["e"], env)
            idx = self.eval(e["idx"], env) if k == "index" else const(0)
            if base is PTR_L and isinstance(idx, V) and idx.lo == idx.hi == 0 and self.cell.e is None:
                return self.atom_l()
            if base is PTR_L and isinstance(idx, V) and idx.sym == ("TOPIDX",) and self.cell.e is not None:
                return self.atom_l()                 # the most significant limb of a float: non-zero by the format rules
            return V(0, LMAX) if base is PTR_L else TOPV
        if k == "cast":
            v = self.eval(e["e"], env)
            if v is PTR_L:
                return v
            if not isinstance(v, V):
                return TOPV
            t = e.get("ct") or e.get("t") or ""
            if "*" in t:
                return v
            if is_uns(t):
                bits = 64 if "long" in t or t in ("mp_limb_t", "mpir_ui", "size_t") else 16 if "short" in t else 8 if "char" in t else 32
                m = 1 << bits
                if v.lo >= 0 and v.hi < m:
                    return v
                if v.hi < 0 and v.lo >= -m:
                    return V(v.lo + m, v.hi + m, None, v.exact)
                return V(0, m - 1)
            bits = 64 if "long" in t else 16 if "short" in t else 8 if "char" in t else 32
            if -(1 << (bits - 1)) <= v.lo and v.hi < (1 << (bits - 1)):
                return v
            if bits == 64 and v.lo >= 0 and v.hi == 1 << 63:
                return v                      # -LONG_MIN: kept as the mathematical value; its unsigned image is what the code uses
            return V(-(1 << (bits - 1)), (1 << (bits - 1)) - 1)
        if k == "unop":
            if e["op"] == "-":
                v = self.eval(e["e"], env)
                if not isinstance(v, V):
                    return TOPV
                sym = (v.sym[0], -v.sym[1]) if v.sym and v.sym[0] in ("V", "N") else None
                inner = _strip(e["e"])
                if is_uns(inner.get("ct") or inner.get("t")) and v.hi > 0:
                    # negation in an unsigned type wraps
                    if v.lo == v.hi:
                        return const((-v.lo) % B64)
                    if v.lo == 0 and v.hi == 1:
                        return V(0, LMAX)      # 0 or all ones: callers only test the sign after a conversion we do not follow
                    return V(0, LMAX)
                return V(-v.hi, -v.lo, sym, v.exact)
            if e["op"] == "+":
                return self.eval(e["e"], env)
            if e["op"] == "!":
                c = self.truth(e["e"], env)
                return self.boolval(None if c[0] is None else not c[0], c[1])
            if e["op"] == "&":
                return TOPV
        if k == "binop":
            op = e["op"]
            if op in ("==", "!=", "<", ">", "<=", ">=", "&&", "||"):
                c = self.truth(e, env)
                return self.boolval(c[0], c[1])
            if op in ("+", "-"):
                a, b = self.eval(e["l"], env), self.eval(e["r"], env)
                if not isinstance(a, V) or not isinstance(b, V):
                    return TOPV
                if op == "+":
                    return V(a.lo + b.lo, a.hi + b.hi, None, a.exact and b.lo == b.hi or b.exact and a.lo == a.hi)
                sym = ("TOPIDX",) if self.is_abs_n(a) and b.lo == b.hi == 1 else None
                return V(a.lo - b.hi, a.hi - b.lo, sym, a.exact and b.lo == b.hi or b.exact and a.lo == a.hi)
            if op == "=":
                return self.eval(e["r"], env)
        if k == "cond":
            c = self.truth(e["c"], env)
            if c[0] is True:
                return self.eval(e["a"], env)
            if c[0] is False:
                return self.eval(e["b"], env)
            a, b = self.eval(e["a"], env), self.eval(e["b"], env)
            if isinstance(a, V) and isinstance(b, V):
                return V(min(a.lo, b.lo), max(a.hi, b.hi))
            if a is PTR_L and b is PTR_L:
                return PTR_L
            return TOPV
        if k == "call" and e.get("callee") == "__builtin_expect" and e.get("args"):
            return self.eval(e["args"][0], env)
        if k == "call" and e.get("callee") in self.unit and self.depth < 2:
            # a helper of the same unit: executed in place on the same cell (its own branches may split; the results are merged)
            g = self.unit[e["callee"]]
            args = [self.eval(a, env) for a in e.get("args", [])]
            if len(args) == len(g["params"]):
                sub = Exec(g, self.cell, None, None, self.unit, self.depth + 1)
                try:
                    sub.walk(g["entry"], {p_["id"]: a for p_, a in zip(g["params"], args)}, "exact", set())
                except LoopFound:
                    return TOPV
                vals = [r[0] for r in sub.results]
                if vals and all(isinstance(x, V) for x in vals):
                    if len(vals) == 1 and sub.results[0][1] == "exact":
                        return vals[0]
                    return V(min(x.lo for x in vals), max(x.hi for x in vals))
            return TOPV
        return TOPV

    def boolval(self, b, q):
        if b is True:
            return const(1)
        if b is False:
            return const(0)
        return V(0, 1, None, q == "split")

    def is_abs_v(self, v):
        """the value equals |v| in this cell"""
        if not v.sym or v.sym[0] != "V" or self.cell.v is None:
            return False
        lo, hi = self.cell.v
        return (lo > 0 and v.sym[1] == 1) or (hi < 0 and v.sym[1] == -1)

    def truth(self, c, env):
        """-> (True / False / None, quality) where quality for None is 'split' (both outcomes are attained inside the cell) or 'unk'"""
        c = sa.strip_expect(c)
        c = _strip(c)
        if not isinstance(c, dict):
            return (None, "unk")
        if c.get("k") == "unop" and c["op"] == "!":
            t = self.truth(c["e"], env)
            return (None if t[0] is None else not t[0], t[1])
        if c.get("k") == "binop" and c["op"] in ("&&", "||"):
            a = self.truth(c["l"], env)
            b = self.truth(c["r"], env)
            if c["op"] == "&&":
                if a[0] is False or b[0] is False:
                    return (False, None)
                if a[0] is True and b[0] is True:
                    return (True, None)
            else:
                if a[0] is True or b[0] is True:
                    return (True, None)
                if a[0] is False and b[0] is False:
                    return (False, None)
            qs = [x[1] for x in (a, b) if x[0] is None]
            return (None, "split" if len(qs) == 1 and qs[0] == "split" else "unk")
        if c.get("k") == "binop" and c["op"] in ("==", "!=", "<", ">", "<=", ">="):
            a, b = self.eval(c["l"], env), self.eval(c["r"], env)
            if not isinstance(a, V) or not isinstance(b, V):
                return (None, "unk")
            return self.compare(a, c["op"], b)
        v = self.eval(c, env)
        if not isinstance(v, V):
            return (None, "unk")
        return self.compare(v, "!=", const(0))

    def compare(self, a, op, b):
        rel = None                  # sign of a - b when known
        if a.hi < b.lo:
            rel = -1
        elif a.lo > b.hi:
            rel = 1
        elif a.lo == a.hi == b.lo == b.hi:
            rel = 0
        elif a.sym and a.sym == b.sym:
            rel = 0
        elif self.cell.rel is not None and a.sym == ("L",) and self.is_abs_v(b):
            rel = self.cell.rel
        elif self.cell.rel is not None and b.sym == ("L",) and self.is_abs_v(a):
            rel = -self.cell.rel
        if rel is not None:
            return ({"==": rel == 0, "!=": rel != 0, "<": rel < 0, ">": rel > 0, "<=": rel <= 0, ">=": rel >= 0}[op], None)
        # one-sided knowledge
        if a.hi <= b.lo and op in ("<=", ">"):
            return (op == "<=", None)
        if a.lo >= b.hi and op in (">=", "<"):
            return (op == ">=", None)
        if (a.exact and b.lo == b.hi and (a.sym is None or a.sym[0] in "LNE")) or (b.exact and a.lo == a.hi and (b.sym is None or b.sym[0] in "LNE")):
            return (None, "split")
        return (None, "unk")

    # -- refinement of an exactly known variable by a comparison with a constant (after a split)
    def refine(self, c, truth, env):
        c = _strip(sa.strip_expect(c))
        if not isinstance(c, dict):
            return
        if c.get("k") == "unop" and c["op"] == "!":
            return self.refine(c["e"], not truth, env)
        if c.get("k") != "binop" or c["op"] not in ("==", "!=", "<", ">", "<=", ">="):
            return
        l, r = _strip(c["l"]), _strip(c["r"])
        while isinstance(l, dict) and l.get("k") == "cast":
            l = _strip(l["e"])
        op = c["op"]
        if not (isinstance(l, dict) and l.get("k") == "var"):
            return
        a, b = env.get(l["id"]), self.eval(r, env)
        if not isinstance(a, V) or not isinstance(b, V) or b.lo != b.hi:
            return
        if not truth:
            op = {"<": ">=", ">": "<=", "<=": ">", ">=": "<", "==": "!=", "!=": "=="}[op]
        k = b.lo
        lo, hi = a.lo, a.hi
        if op == "<":
            hi = min(hi, k - 1)
        elif op == "<=":
            hi = min(hi, k)
        elif op == ">":
            lo = max(lo, k + 1)
        elif op == ">=":
            lo = max(lo, k)
        elif op == "==":
            lo, hi = k, k
        elif op == "!=":
            if lo == k:
                lo += 1
            elif hi == k:
                hi -= 1
        if lo <= hi:
            env[l["id"]] = V(lo, hi, a.sym, a.exact)

    # -- statements and control flow
    def stmt(self, e, env):
        k = e.get("k")
        if k == "decl":
            for d in e["decls"]:
                if "init" in d:
                    env[d["var"]["id"]] = self.eval(d["init"], env)
        elif k == "binop" and e["op"] == "=":
            l = _strip(e["l"])
            if isinstance(l, dict) and l.get("k") == "var":
                env[l["id"]] = self.eval(e["r"], env)
        elif k == "binop" and e["op"].endswith("=") and e["op"] not in ("==", "!=", "<=", ">="):
            l = _strip(e["l"])
            if isinstance(l, dict) and l.get("k") == "var":
                env[l["id"]] = TOPV
        elif k == "unop" and e["op"] in ("post++", "pre++", "post--", "pre--"):
            l = _strip(e["e"])
            if isinstance(l, dict) and l.get("k") == "var":
                env[l["id"]] = TOPV

    def run(self):
        env = {}
        if self.vid is not None and self.cell.v is not None:
            env[self.vid] = V(self.cell.v[0], self.cell.v[1], ("V", 1), True)
        self.walk(self.fn["entry"], env, "exact", set())
        return self.results

    def walk(self, bid, env, quality, onpath):
        self.steps += 1
        if self.steps > 4000:
            raise AnalysisBroken("R-ORDER: path budget exceeded in %s" % self.fn["name"])
        if bid in onpath:
            raise LoopFound()
        b = self.blocks[bid]
        env = dict(env)
        for el in b["elems"]:
            e = el["e"]
            if e.get("k") == "return":
                v = self.eval(e["e"], env) if isinstance(e.get("e"), dict) else None
                self.results.append((v, quality, el["line"]))
                return
            self.stmt(e, env)
        if b.get("noreturn"):
            return
        succs = b["succs"]
        t = b.get("term")
        if t and len(succs) == 2 and t.get("kind") != "SwitchStmt":
            cond = sa.effective_cond(t)
            c = self.truth(cond, env) if cond is not None else (None, "unk")
            for si, s in enumerate(succs):
                if not isinstance(s, int):
                    continue
                want = si == 0
                if c[0] is not None and c[0] != want:
                    continue
                e2 = dict(env)
                q = quality
                if c[0] is None:
                    if c[1] == "split":
                        self.refine(cond, want, e2)
                    else:
                        q = "imprecise"
                self.walk(s, e2, q, onpath | {bid})
            return
        if t and t.get("kind") == "SwitchStmt" and isinstance(t.get("switch_cond"), dict):
            v = self.eval(t["switch_cond"], env)
            cv = _strip(t["switch_cond"])
            while isinstance(cv, dict) and cv.get("k") == "cast":
                cv = _strip(cv["e"])
            var = cv["id"] if isinstance(cv, dict) and cv.get("k") == "var" else None
            cases, default = [], None
            for s in succs:
                if not isinstance(s, int):
                    continue
                blk = self.blocks[s]
                if isinstance(blk.get("case"), dict) and "case_hi" not in blk:
                    kv = self.eval(blk["case"], env)
                    cases.append((s, kv))
                else:
                    default = s
            if isinstance(v, V) and all(isinstance(kv, V) and kv.lo == kv.hi for _s, kv in cases):
                res = [(s_, kv, self.compare(v, "==", kv)) for s_, kv in cases]
                hit = [r for r in res if r[2][0] is True]
                if hit:
                    self.walk(hit[0][0], env, quality, onpath | {bid})
                    return
                q_def = quality
                e_def = dict(env)
                for s_, kv, c in res:
                    if c[0] is False:
                        continue
                    e2 = dict(env)
                    q = quality if c[1] == "split" else "imprecise"
                    if c[1] != "split":
                        q_def = "imprecise"
                    if var is not None and isinstance(env.get(var), V):
                        a = env[var]
                        e2[var] = V(kv.lo, kv.lo, a.sym, a.exact)
                        d = e_def.get(var)
                        if isinstance(d, V):
                            if d.lo == kv.lo and d.lo < d.hi:
                                e_def[var] = V(d.lo + 1, d.hi, d.sym, d.exact)
                            elif d.hi == kv.lo and d.lo < d.hi:
                                e_def[var] = V(d.lo, d.hi - 1, d.sym, d.exact)
                    self.walk(s_, e2, q, onpath | {bid})
                if default is not None:
                    # the default arm is taken by the values no case names; whether any such value exists is known only for an exact
                    # quantity whose interval is wider than the set of cases
                    wide = isinstance(v, V) and v.exact and (v.hi - v.lo + 1) > len([r for r in res if r[2][0] is not False])
                    self.walk(default, e_def, q_def if wide else "imprecise", onpath | {bid})
                return
        for s in succs:
            if isinstance(s, int) and s != self.fn["exit"]:
                self.walk(s, env, quality if len(succs) == 1 else "imprecise", onpath | {bid})


# ---- cells and exact answers ------------------------------------------------------------------------------------------------
NCLASSES = [((-NBIG, -2), "n <= -2"), ((-1, -1), "n = -1"), ((0, 0), "n = 0"), ((1, 1), "n = 1"), ((2, NBIG), "n >= 2")]


def sgn(x):
    return (x > 0) - (x < 0)


def cmp_cells(signed_v, absu):
    """cells and exact sign of (u - v), or of (|u| - v) for cmpabs"""
    vclasses = [((0, 0), "v = 0"), ((1, (1 << 63) - 1 if signed_v else LMAX), "v > 0")]
    if signed_v:
        vclasses.insert(0, ((-(1 << 63), -1), "v < 0"))
    for n, nl in NCLASSES:
        for v, vl in vclasses:
            vs = sgn(v[0]) if v[0] else sgn(v[1])
            need_rel = abs(n[0]) == 1 and n[0] == n[1] and vs != 0
            for rel in ((-1, 0, 1) if need_rel else (None,)):
                ns = sgn(n[0])
                if absu:
                    ns = abs(ns)
                if abs(n[0]) >= 2 or (n[0] != n[1]):
                    want = ns                               # two limbs or more outweigh any scalar
                elif ns == 0:
                    want = -vs
                elif vs == 0 or vs != ns:
                    want = ns
                else:
                    want = rel * ns                          # same sign, one limb: the order of l and |v| (reversed for negatives)
                yield Cell(n, v, rel, None, "%s, %s%s" % (nl, vl, "" if rel is None else ", l %s |v|" % "<=>"[rel + 1])), want


def fits_cells(lo_t, hi_t):
    """cells and exact answer of  lo_t <= u <= hi_t  (lo_t <= 0 <= hi_t)"""
    cuts = sorted({1, hi_t + 1, -lo_t + 1, LMAX + 1} - {0})
    lcl = []
    prev = 1
    for c in cuts[1:]:
        if c - 1 >= prev:
            lcl.append((prev, c - 1))
        prev = c
    for n, nl in NCLASSES:
        if abs(n[0]) == 1 and n[0] == n[1]:
            for l in lcl:
                u_lo = l[0] * n[0]
                want = lo_t <= u_lo <= hi_t
                yield Cell(n, None, None, l, "%s, l in [%d, %d]" % (nl, l[0], l[1])), want
        else:
            yield Cell(n, None, None, None, nl), (n == (0, 0))


def mpf_fits_cells(lo_t, hi_t):
    """cells and exact answer of  lo_t <= trunc (f) <= hi_t  for a well-formed float: size n (sign), exponent e, most significant limb l;
    with e = 1 the integer part is l, with e <= 0 it is 0, with e >= 2 it is at least 2^64"""
    BIGE = 1 << 40
    cuts = sorted({1, hi_t + 1, -lo_t + 1, LMAX + 1} - {0})
    lcl, prev = [], 1
    for c in cuts[1:]:
        if c - 1 >= prev:
            lcl.append((prev, c - 1))
        prev = c
    yield Cell((0, 0), None, None, None, "f = 0", e=(0, 0)), True
    for n, nl in (((-NBIG, -1), "f < 0"), ((1, NBIG), "f > 0")):
        yield Cell(n, None, None, None, "%s, exponent <= 0" % nl, e=(-BIGE, 0)), True
        yield Cell(n, None, None, None, "%s, exponent >= 2" % nl, e=(2, BIGE)), False
        for l in lcl:
            val = l[0] if n[0] > 0 else -l[0]
            yield Cell(n, None, None, l, "%s, exponent 1, top limb in [%d, %d]" % (nl, l[0], l[1]), e=(1, 1)), lo_t <= val <= hi_t


TARGETS = [
    # (file, function, kind, arguments)
    ("mpz/cmp_ui.c", "__gmpz_cmp_ui", "cmp", dict(signed_v=False, absu=False)),
    ("mpz/cmp_si.c", "__gmpz_cmp_si", "cmp", dict(signed_v=True, absu=False)),
    ("mpz/cmpabs_ui.c", "__gmpz_cmpabs_ui", "cmp", dict(signed_v=False, absu=True)),
    ("mpz/fits_sshort.c", "__gmpz_fits_sshort_p", "fits", dict(lo_t=-(1 << 15), hi_t=(1 << 15) - 1)),
    ("mpz/fits_sint.c", "__gmpz_fits_sint_p", "fits", dict(lo_t=-(1 << 31), hi_t=(1 << 31) - 1)),
    ("mpz/fits_slong.c", "__gmpz_fits_slong_p", "fits", dict(lo_t=-(1 << 63), hi_t=(1 << 63) - 1)),
    ("mpz/fits_ushort.c", "__gmpz_fits_ushort_p", "fits", dict(lo_t=0, hi_t=(1 << 16) - 1)),
    ("mpz/fits_uint.c", "__gmpz_fits_uint_p", "fits", dict(lo_t=0, hi_t=(1 << 32) - 1)),
    ("mpz/fits_ulong.c", "__gmpz_fits_ulong_p", "fits", dict(lo_t=0, hi_t=LMAX)),
    ("mpf/fits_sshort.c", "__gmpf_fits_sshort_p", "mpf_fits", dict(lo_t=-(1 << 15), hi_t=(1 << 15) - 1)),
    ("mpf/fits_sint.c", "__gmpf_fits_sint_p", "mpf_fits", dict(lo_t=-(1 << 31), hi_t=(1 << 31) - 1)),
    ("mpf/fits_slong.c", "__gmpf_fits_slong_p", "mpf_fits", dict(lo_t=-(1 << 63), hi_t=(1 << 63) - 1)),
    ("mpf/fits_si.c", "__gmpf_fits_si_p", "mpf_fits", dict(lo_t=-(1 << 63), hi_t=(1 << 63) - 1)),
    ("mpf/fits_ushort.c", "__gmpf_fits_ushort_p", "mpf_fits", dict(lo_t=0, hi_t=(1 << 16) - 1)),
    ("mpf/fits_uint.c", "__gmpf_fits_uint_p", "mpf_fits", dict(lo_t=0, hi_t=(1 << 32) - 1)),
    ("mpf/fits_ulong.c", "__gmpf_fits_ulong_p", "mpf_fits", dict(lo_t=0, hi_t=LMAX)),
    ("mpf/fits_ui.c", "__gmpf_fits_ui_p", "mpf_fits", dict(lo_t=0, hi_t=LMAX)),
]


def judge(fn, kind, args, unit=None):
    """-> (cells, proved, undecided, [refutations])"""
    ps = fn["params"]
    if not ps or ("__mpz_struct" not in ps[0].get("ct", "") and "__mpf_struct" not in ps[0].get("ct", "")):
        raise AnalysisBroken("R-ORDER: %s no longer takes a number first" % fn["name"])
    vparam = ps[1] if len(ps) > 1 else None
    cells = list(cmp_cells(**args)) if kind == "cmp" else list(fits_cells(**args)) if kind == "fits" else list(mpf_fits_cells(**args))
    proved = undecided = 0
    bad = []
    for cell, want in cells:
        try:
            res = Exec(fn, cell, ps[0], vparam, unit).run()
        except LoopFound:
            res = []                                  # loop-free predicates only: a rewritten function with a loop is undecided
        ok, wrong = True, None
        if not res:
            ok = False
        for v, q, line in res:
            if not isinstance(v, V):
                ok = False
                continue
            if kind == "cmp":
                good = (v.lo > 0 and want > 0) or (v.hi < 0 and want < 0) or (v.lo == v.hi == 0 and want == 0)
                definite_wrong = not good and (v.lo > 0 or v.hi < 0 or v.lo == v.hi == 0)
                split_wrong = False
            else:
                good = (v.lo > 0 or v.hi < 0) if want else (v.lo == v.hi == 0)
                definite_wrong = not good and (v.lo > 0 or v.hi < 0 or v.lo == v.hi == 0)
                split_wrong = not good and v.lo == 0 and v.hi == 1 and v.exact      # both answers attained where the exact answer is one
            if good:
                continue
            ok = False
            if q == "exact" and (definite_wrong or split_wrong) and wrong is None:
                wrong = (line, v)
        if ok:
            proved += 1
        elif wrong:
            bad.append((cell, want, wrong))
        else:
            undecided += 1
    return len(cells), proved, undecided, bad


def run(prop="C11", tier="quick"):
    res = dict(findings=[], stats=collections.Counter(), samples=[], notes=[])
    cfg = sa.cfg_built()
    cfg = sa.Config("built-order", units=cfg.units, flags=list(cfg.flags), extra_files=[FIXTURE])
    ex = sa.export(cfg)
    sa.check_errors(ex)
    byname = {}
    units = collections.defaultdict(dict)
    for path, fn in ex.functions():
        byname[(relpath(path) if path != FIXTURE else "FIXTURE", fn["name"])] = (path, fn)
        units[path][fn["name"]] = fn
    # the unsigned predicates are defined in mpir.h and emitted by their units through __GMP_FORCE_...: export those units with headers
    import compdb
    hu = [u for u in compdb.c_units() if relpath(u.path) in ("mpz/fits_ushort.c", "mpz/fits_uint.c", "mpz/fits_ulong.c")]
    exh = sa.export(sa.Config("built-order-h", units=hu, all_headers=True))
    for path, fn in exh.functions():
        if fn["name"].startswith("__gmpz_fits_u") and relpath(path)[len("mpz/"):-len(".c")] == fn["name"][len("__gmpz_"):-len("_p")]:
            byname[(relpath(path), fn["name"])] = (path, fn)
    # fixtures: a correct and three broken predicates
    fx = {}
    for name, kind, args in (("fix_order_good_cmp_ui", "cmp", dict(signed_v=False, absu=False)),
                             ("fix_order_bad_cmp_ui", "cmp", dict(signed_v=False, absu=False)),
                             ("fix_order_bad_cmp_si", "cmp", dict(signed_v=True, absu=False)),
                             ("fix_order_good_fits", "fits", dict(lo_t=-(1 << 31), hi_t=(1 << 31) - 1)),
                             ("fix_order_bad_fits", "fits", dict(lo_t=-(1 << 31), hi_t=(1 << 31) - 1)),
                             ("fix_order_good_helper", "cmp", dict(signed_v=False, absu=False)),
                             ("fix_order_good_switch", "fits", dict(lo_t=-(1 << 31), hi_t=(1 << 31) - 1)),
                             ("fix_order_bad_switch", "fits", dict(lo_t=-(1 << 31), hi_t=(1 << 31) - 1))):
        if ("FIXTURE", name) not in byname:
            raise AnalysisBroken("R-ORDER fixture %s missing" % name)
        n, p, u, bad = judge(byname[("FIXTURE", name)][1], kind, args, units[FIXTURE])
        fx[name] = "refuted" if bad else ("proved" if p == n else "undecided")
    want = {"fix_order_good_cmp_ui": "proved", "fix_order_bad_cmp_ui": "refuted", "fix_order_bad_cmp_si": "refuted",
            "fix_order_good_fits": "proved", "fix_order_bad_fits": "refuted", "fix_order_good_switch": "proved",
            "fix_order_bad_switch": "refuted", "fix_order_good_helper": "proved"}
    if fx != want:
        raise AnalysisBroken("R-ORDER fixtures: got %r, want %r" % (fx, want))
    for rel, name, kind, args in TARGETS:
        if (rel, name) not in byname:
            raise AnalysisBroken("R-ORDER: anchor %s in %s not found" % (name, rel))
        path, fn = byname[(rel, name)]
        n, p, u, bad = judge(fn, kind, args, units.get(path))
        res["stats"]["cells"] += n
        res["stats"]["proved"] += p
        res["stats"]["undecided"] += u
        res["stats"]["refuted"] += len(bad)
        res["samples"].append(dict(rule="R-ORDER", function=name, file=rel, cells=n, proved=p, undecided=u, refuted=len(bad)))
        for cell, w, (line, v) in bad[:3]:
            exp = ("a %s value" % {1: "positive", 0: "zero", -1: "negative"}[w]) if kind == "cmp" else ("non-zero" if w else "zero")
            got = "%d" % v.lo if v.lo == v.hi else ("either answer" if (v.lo, v.hi) == (0, 1) else "a value in [%d, %d]" % (v.lo, v.hi))
            res["findings"].append(Finding(
                prop, "R-ORDER", path, line, name, "wrong-answer:%s" % cell.label.replace(" ", ""),
                "%s returns %s at line %d for well-formed inputs with %s, where exact arithmetic gives %s"
                % (name, got, line, cell.label, exp)))
    st = res["stats"]
    if st["proved"] < 20:
        raise AnalysisBroken("R-ORDER: only %d of %d cells proved (floor 20; today all 97): the evaluator no longer understands these functions"
                             % (st["proved"], st["cells"]))
    res["stats"] = dict(st)
    res["obligations"] = st["cells"]
    res["undecided"] = st.get("undecided", 0)
    res["notes"].append("fixtures: 4 correct predicates proved (one written as a switch, one through a helper), 4 broken ones refuted")
    res["exhaustive"] = True
    return res
