"""R-OVERLAP.contract (C05, mpn clause): a routine never hands two of its own pointer parameters to a callee whose overlap assertion
is stricter than its own.

Every mpn routine states the overlap it tolerates between a destination and a source in its entry assertions:
    ASSERT (! MPN_OVERLAP_P (..))            separate only
    ASSERT (MPN_SAME_OR_SEPARATE_P (..))     identical or separate
    ASSERT (MPN_SAME_OR_INCR_P (dst, src,..))  identical, separate, or overlapping with dst BELOW src (incrementing loops)
    ASSERT (MPN_SAME_OR_DECR_P (dst, src,..))  identical, separate, or overlapping with dst ABOVE src (decrementing loops)
(the manual's "overlap allowed" rules in code form).  When F passes its unmodified parameters (p, q) on to G as (dst, src), every
relation F admits for (p, q) must be admitted by G - otherwise a caller using an overlap that F documents gets G's undefined
behaviour (mpn_mul_1 admits dst <= src; a shortcut through mpn_lshift, which needs dst >= src, breaks that).

Contracts are re-extracted on every run from the -DWANT_ASSERT=1 export of all built units plus every mpn/generic/*.c (the C twins
of the assembly kernels).  Only call sites whose two arguments are parameters not modified on any path from F's entry to the call are judged."""
import collections

import sa, compdb, r_assert
from core import *

KIND = {"sep": "separate", "same": "identical", "below": "overlapping with the destination below the source",
        "above": "overlapping with the destination above the source"}


def contracts_of(fn, copy_macros=False):
    pidx = {p["id"]: i for i, p in enumerate(fn["params"]) if "*" in p.get("ct", "")}
    out = {}
    if len(pidx) < 2:
        return out
    for b, t in r_assert.assert_sites(fn):
        txt = t.get("txt", "")
        if not txt.lstrip().startswith("ASSERT"):
            # an overlap assertion inside another macro (mpn_copyd is MPN_COPY_DECR (rp, sp, n), which asserts MPN_SAME_OR_DECR_P itself):
            # read the relation off the expanded condition  !((dst) >= (src) || ! MPN_OVERLAP_P (...))
            # (only for the routines whose whole body is that macro - asked for by the caller; an MPN_COPY in the middle of a function is not
            # an entry contract)
            if copy_macros and "ASSERT" in (t.get("m") or []) and any(x in (t.get("m") or []) for x in ("MPN_COPY_DECR", "MPN_COPY_INCR")):
                c = t.get("cond")
                while isinstance(c, dict) and c.get("k") in ("unop", "cast", "paren") and (c.get("k") != "unop" or c["op"] == "!"):
                    c = c["e"]
                if isinstance(c, dict) and c.get("k") == "binop" and c["op"] == "||":
                    l = c["l"]
                    while isinstance(l, dict) and l.get("k") in ("cast", "paren"):
                        l = l["e"]
                    if isinstance(l, dict) and l.get("k") == "binop" and l["op"] in (">=", "<=") and l["l"].get("k") == "var" and l["r"].get("k") == "var" \
                            and l["l"]["id"] in pidx and l["r"]["id"] in pidx:
                        kind = {"same", "sep", "above"} if l["op"] == ">=" else {"same", "sep", "below"}
                        out[(pidx[l["l"]["id"]], pidx[l["r"]["id"]])] = (frozenset(kind), " ".join(txt.split())[:70])
            continue
        if "MPN_SAME_OR_SEPARATE2" in txt or "MPN_SAME_OR_INCR2" in txt or "MPN_SAME_OR_DECR2" in txt:
            continue
        if "MPN_SAME_OR_SEPARATE" in txt:
            kind = {"same", "sep"}
        elif "MPN_SAME_OR_INCR" in txt:
            kind = {"same", "sep", "below"}
        elif "MPN_SAME_OR_DECR" in txt:
            kind = {"same", "sep", "above"}
        elif "MPN_OVERLAP_P" in txt and "!" in txt.split("MPN_OVERLAP_P")[0]:
            kind = {"sep"}
        else:
            continue
        ids = []
        sa.walk(t["cond"], lambda n: ids.append(n["id"]) if n.get("k") == "var" and n["id"] in pidx and n["id"] not in ids else None)
        if len(ids) == 2:
            out[(pidx[ids[0]], pidx[ids[1]])] = (frozenset(kind), " ".join(txt.split())[:70])
    return out


def run(prop="C05", tier="quick"):
    res = dict(findings=[], stats=collections.Counter(), samples=[], notes=[])
    cfg = sa.cfg_assert()
    cfg.name = "assert-generic-all"
    cfg.extra_files = compdb.generic_all_extra()
    ex = sa.export(cfg)
    C, fns = {}, {}
    for path, fn in ex.functions():
        c = contracts_of(fn)
        if c and fn["name"] not in C:
            C[fn["name"]] = c
            fns[fn["name"]] = (path, fn)
    res["stats"]["functions_with_overlap_contract"] = len(C)
    if len(C) < 40:
        raise AnalysisBroken("R-OVERLAP.contract: only %d functions with overlap assertions found (floor 40)" % len(C))
    for name, (path, fn) in fns.items():
        pid = {p["id"]: i for i, p in enumerate(fn["params"])}
        # where each parameter is modified: (block id, position)
        mods = collections.defaultdict(list)
        preds = collections.defaultdict(set)
        for b in fn["blocks"]:
            for s_ in b["succs"]:
                if isinstance(s_, int):
                    preds[s_].add(b["id"])
            for pos, el in enumerate(b["elems"]):
                def g(n, b=b, pos=pos):
                    k = n.get("k")
                    if k == "binop" and n["op"].endswith("=") and n["op"] not in ("==", "!=", "<=", ">=") and n["l"].get("k") == "var":
                        mods[n["l"]["id"]].append((b["id"], pos))
                    if k == "unop" and n["op"] in ("post++", "pre++", "post--", "pre--", "&") and n["e"].get("k") == "var":
                        mods[n["e"]["id"]].append((b["id"], pos))
                sa.walk(el["e"], g)

        def before(bid):
            """blocks from which bid is reachable (excluding bid itself unless it lies on a cycle)"""
            seen, work = set(), list(preds[bid])
            while work:
                x = work.pop()
                if x not in seen:
                    seen.add(x)
                    work += list(preds[x])
            return seen
        assigned = set()

        def pv(x):
            while isinstance(x, dict) and x.get("k") == "cast":
                x = x["e"]
            if isinstance(x, dict) and x.get("k") == "var" and x["id"] in pid and x["id"] not in assigned:
                return pid[x["id"]]
            return None
        for b in fn["blocks"]:
            for pos_call, el in enumerate(b["elems"]):
                e = el["e"]
                if e.get("k") != "call" or e.get("callee") not in C or e["callee"] == name:
                    continue
                up = before(b["id"])
                assigned = {v for v, ms in mods.items() if any(mb in up or (mb == b["id"] and (mp < pos_call or b["id"] in up)) for mb, mp in ms)}
                for (ci, cj), (kb, tb) in C[e["callee"]].items():
                    if ci >= len(e["args"]) or cj >= len(e["args"]):
                        continue
                    pa, pb = pv(e["args"][ci]), pv(e["args"][cj])
                    if pa is None or pb is None or pa == pb:
                        continue
                    ka, rev = C[name].get((pa, pb)), False
                    if ka is None and (pb, pa) in C[name]:
                        ka, rev = C[name][(pb, pa)], True
                    if ka is None:
                        continue
                    A = set(ka[0])
                    if rev:
                        A = {{"below": "above", "above": "below"}.get(x, x) for x in A}
                    res["stats"]["call_sites"] += 1
                    extra = A - kb
                    if extra:
                        res["findings"].append(Finding(prop, "R-OVERLAP.contract", path, el["line"], name,
                                                       "overlap-contract:%s:%s" % (e["callee"], ",".join(sorted(extra))),
                                                       "%s admits its operands %s and %s %s (%s), and passes them unchanged to %s at line %d, which "
                                                       "only tolerates %s (%s)" % (name, fn["params"][pa]["name"], fn["params"][pb]["name"],
                                                                                  " / ".join(KIND[x] for x in sorted(extra)), ka[1], e["callee"], el["line"],
                                                                                  ", ".join(KIND[x] for x in sorted(kb)), tb)))
    if res["stats"]["call_sites"] < 100:
        raise AnalysisBroken("R-OVERLAP.contract: only %d judged call sites (floor 100)" % res["stats"]["call_sites"])
    res["stats"] = dict(res["stats"])
    res["obligations"] = res["stats"]["call_sites"]
    res["samples"].append(dict(rule="R-OVERLAP.contract", functions=len(C), call_sites=res["stats"]["call_sites"]))
    res["exhaustive"] = True
    return res
