"""R-PURE (C14): code that exists only in --enable-assert builds has no effect on program state.
   R-CONSTASSERT (C01, C14, C16): every assertion whose condition is a compile-time constant is
   true, under the built tuning table (quick) and every shipped gmp-mparam.h (thorough)."""
import collections, glob, re

import sa
from core import *

# macros whose expansion vanishes when WANT_ASSERT is off
VANISHING = {"ASSERT", "ASSERT_LIMB", "ASSERT_MPN", "ASSERT_MPN_ZERO_P", "ASSERT_MPN_NONZERO_P",
             "ASSERT_MPQ_CANONICAL", "ASSERT_CODE"}
ASSIGN_OPS = {"=", "+=", "-=", "*=", "/=", "%=", "|=", "&=", "^=", "<<=", ">>="}
INCDEC = {"post++", "post--", "pre++", "pre--"}
FIXTURE = os.path.join(VERIF, "selftest", "fixtures", "assert_fix.c")


def _stack(el, node=None):
    m = (node or {}).get("m") or el.get("m") or []
    return m


def assert_sites(fn):
    """(block, terminator) of every expanded assertion:  if (!(expr)) __gmp_assert_fail"""
    for b in fn["blocks"]:
        t = b.get("term")
        if t and t["kind"] == "IfStmt" and t.get("m") and t["m"][0] == "ASSERT_ALWAYS":
            yield b, t


def reachable(fn):
    blocks = sa.blocks_by_id(fn)
    seen, todo = {fn["entry"]}, [fn["entry"]]
    while todo:
        b = blocks[todo.pop()]
        if b.get("noreturn"):
            continue
        for s in sa.succ_ids(b):
            if s not in seen:
                seen.add(s)
                todo.append(s)
    return seen


def pure_set():
    """functions proved read-only by function-attrs; statics are renamed name.N when linked, so a
    static name counts as pure only if every variant is"""
    facts = ir_facts(tag="assert", extra_flags=["-DWANT_ASSERT=1"])   # some helpers exist only #if WANT_ASSERT
    by = collections.defaultdict(list)
    for f in facts["functions"]:
        if not f["defined"]:
            continue
        nm = f["name"].split(".")[0] if f["internal"] else f["name"]
        by[nm].append("readnone" in f["attrs"] or "readonly" in f["attrs"])
    return {n for n, v in by.items() if all(v)}


def _key_of(tgt):
    """(var id, field, name) of an lvalue rooted at a local object / variable; None for stores through pointers"""
    from r_tmp import base_var
    if tgt.get("k") == "var":
        return (tgt["id"], None, tgt["name"], tgt)
    if tgt.get("k") == "member":
        v = base_var(tgt)
        if v is None:
            return None
        ct = v.get("ct", "")
        # x->f of a local mpz_t (array of one struct) or s.f of a local struct; not p->f of a pointer
        if tgt["base"].get("k") in ("var", "index") and ("[1]" in ct or "*" not in ct):
            return (v["id"], tgt["field"], v["name"] + "." + tgt["field"], v)
    return None


def dirty_flow(fn, aonly, report):
    """A location written inside vanishing assertion code is 'dirty' until normal code rewrites it; a read of a
    dirty location by normal code means the two builds compute with different values."""
    blocks = sa.blocks_by_id(fn)

    def is_assert(el, e):
        m = (e.get("m") if e.get("k") == "call" else None) or el.get("m") or []
        return bool(set(m) & VANISHING)

    def writes_of(e):
        out = []

        def f(n):
            if n is not e and n.get("k") == "call":
                return False
            if n.get("k") == "binop" and n["op"] in ASSIGN_OPS:
                k = _key_of(n["l"])
                if k:
                    out.append((k, n["op"] == "="))
            elif n.get("k") == "unop" and n["op"] in INCDEC:
                k = _key_of(n["e"])
                if k:
                    out.append((k, False))
            elif n.get("k") == "decl":
                for d in n["decls"]:
                    if "init" in d:
                        out.append(((d["var"]["id"], None, d["var"]["name"], d["var"]), True))
        if e.get("k") == "call":
            for a in e["args"]:
                sa.walk(a, f)
        else:
            sa.walk(e, f)
        return out

    def reads_of(e, dirty):
        """dirty keys read by element e (normal code)"""
        hit = []

        def scan(n, lhs=False):
            k = n.get("k")
            if k == "call" and n is not e:
                return
            if k == "binop" and n["op"] == "=":
                kk = _key_of(n["l"])
                if kk is None:
                    scan(n["l"])
                elif n["l"].get("k") == "member":
                    pass
                scan(n["r"])
                return
            if k == "var":
                if (n["id"], None) in dirty:
                    hit.append((n["id"], None))
                return
            if k == "member":
                kk = _key_of(n)
                if kk and (kk[0], kk[1]) in dirty:
                    hit.append((kk[0], kk[1]))
                if kk:
                    return
            for key in ("l", "r", "e", "base", "idx", "c", "a", "b"):
                if isinstance(n.get(key), dict):
                    scan(n[key])
            for x in n.get("args", ()) if k != "call" else ():
                scan(x)
            for d in n.get("decls", ()):
                if "init" in d:
                    scan(d["init"])
            if k == "return" and isinstance(n.get("e"), dict):
                pass
        if e.get("k") == "call":
            ps = e.get("params", [])
            for i, a in enumerate(e["args"]):
                # object handed to a callee through a non-const pointer: every dirty field counts as read
                from r_tmp import base_var
                v = base_var(a)
                pc = ps[i].get("pc") if i < len(ps) else 0
                if v is not None and not pc and (a.get("k") == "var" and "[" in v.get("ct", "") or a.get("k") == "unop" and a["op"] == "&"):
                    for (vid, fld) in dirty:
                        if vid == v["id"] and fld is not None:
                            hit.append((vid, fld))
                scan(a)
        else:
            scan(e)
        return hit

    IN = collections.defaultdict(dict)   # block -> {key: (name, line)}
    work = [fn["entry"]]
    seen = {fn["entry"]}
    it = 0
    while work:
        it += 1
        if it > 20000:
            raise AnalysisBroken("R-PURE dirty-flow budget exceeded in " + fn["name"])
        bid = work.pop()
        b = blocks[bid]
        dirty = dict(IN[bid])
        elems = list(b["elems"])
        t = b.get("term")
        if t and t.get("cond"):
            elems = elems + [dict(line=t["line"], m=t.get("m"), e=t["cond"], _term=1)]
        for el in elems:
            e = el["e"]
            a = is_assert(el, e)
            if not a and dirty:
                for key in reads_of(e, dirty):
                    nm, ln = dirty[key]
                    report(el["line"], nm, ln)
            if el.get("_term"):
                continue
            for (vid, fld, nm, v), strong in writes_of(e):
                if vid in aonly:
                    continue
                if a:
                    dirty[(vid, fld)] = (nm, el["line"])
                elif strong:
                    dirty.pop((vid, fld), None)
        if b.get("noreturn"):
            continue
        for s2 in sa.succ_ids(b):
            cur = IN[s2]
            new = dict(cur)
            new.update({k: v for k, v in dirty.items() if k not in cur})
            if s2 not in seen or len(new) != len(cur):
                seen.add(s2)
                IN[s2] = new
                work.append(s2)


def run_pure(prop="C14", tier="quick"):
    res = dict(findings=[], stats=collections.Counter(), samples=[], notes=[])
    cfg = sa.cfg_assert()
    cfg.extra_files = [FIXTURE]
    ex = sa.export(cfg)
    sa.check_errors(ex)
    pure = pure_set()
    allowed_callee = {}
    for cols in spec_tsv("assert_callees.tsv", 2):
        allowed_callee[cols[0]] = cols[-1]
    exc_assign = {(c[0], c[1], c[2]) for c in spec_tsv("assert_assign_exceptions.tsv", 4)}
    F = []
    for path, fn in ex.functions():
        # variables that exist only in assert builds
        aonly = set()
        for b in fn["blocks"]:
            for el in b["elems"]:
                if el["e"].get("k") == "decl" and set(_stack(el)) & VANISHING:
                    for d in el["e"]["decls"]:
                        aonly.add(d["var"]["id"])
        nsites = 0
        need_flow = False
        for b in fn["blocks"]:
            t = b.get("term")
            conds = []
            if t and t.get("m") and set(t["m"]) & VANISHING and t.get("cond"):
                conds.append((t["line"], t["m"], t["cond"]))
                if t["m"][0] == "ASSERT_ALWAYS" and t["kind"] == "IfStmt":
                    nsites += 1
            items = [(el["line"], _stack(el, el["e"] if el["e"].get("k") == "call" else None), el["e"]) for el in b["elems"]]
            for line, m, e in items + conds:
                if not (set(m) & VANISHING):
                    continue
                res["stats"]["assert_only_elements"] += 1
                which = sorted(set(m) & VANISHING)[0]
                if e.get("k") == "call":
                    c = e.get("callee")
                    res["stats"]["assert_only_calls"] += 1
                    if c is None:
                        F.append(Finding(prop, "R-PURE", fn["file"], line, fn["name"], "indirect-call",
                                         "indirect call inside %s (...) at line %d runs only in --enable-assert builds" % (which, line)))
                    elif c == "__gmp_assert_fail" or e.get("builtin") or c in pure or c in allowed_callee:
                        pass
                    else:
                        F.append(Finding(prop, "R-PURE", fn["file"], line, fn["name"], "impure-call:%s" % c,
                                         "%s is called inside %s (...) at line %d: it is executed only in --enable-assert builds, and it is not "
                                         "side-effect free (use ASSERT_NOCARRY/ASSERT_CARRY to evaluate it in every build)" % (c, which, line)))
                    args = e.get("args", [])
                else:
                    args = [e]

                def f(n, e=e, line=line, which=which):
                    nonlocal need_flow
                    if n is not e and n.get("k") == "call":
                        return False
                    tgt = None
                    if n.get("k") == "binop" and n["op"] in ASSIGN_OPS:
                        tgt = n["l"]
                    elif n.get("k") == "unop" and n["op"] in INCDEC:
                        tgt = n["e"]
                    if tgt is not None:
                        res["stats"]["assert_only_writes"] += 1
                        k = _key_of(tgt)
                        if k is not None and k[0] in aonly:
                            return
                        if k is not None and k[3].get("param") is None and not k[3].get("global") and not k[3].get("static_local"):
                            need_flow = True       # local location: decided by the dirty-flow analysis
                            return
                        from r_tmp import base_var
                        v = base_var(tgt)
                        nm = v["name"] if v else "?"
                        F.append(Finding(prop, "R-PURE", fn["file"], line, fn["name"], "assert-only-write:%s" % nm,
                                         "memory reached through %s is modified inside %s (...) at line %d: the update happens only in "
                                         "--enable-assert builds" % (nm, which, line)))
                for a in args:
                    sa.walk(a, f)
        if need_flow:
            res["stats"]["dirty_flow_functions"] += 1

            def rep(line, nm, wline, fn=fn):
                if (relpath(fn["file"]), fn["name"], nm.split(".")[0]) in exc_assign:
                    res["stats"]["reviewed_exceptions"] += 1
                    return
                F.append(Finding(prop, "R-PURE", fn["file"], line, fn["name"], "assert-only-write:%s" % nm.split(".")[0],
                                 "%s is written only in --enable-assert builds (line %d) and then read by normal code at line %d: "
                                 "the two builds compute with different values" % (nm, wline, line)))
            dirty_flow(fn, aonly, rep)
        res["stats"]["assertion_sites"] += nsites
        if nsites and len(res["samples"]) < 6 and fn["file"] != FIXTURE:
            res["samples"].append(dict(rule="R-PURE", function=fn["name"], file=relpath(fn["file"]), assertion_sites=nsites))
    fx = [f for f in F if f.file == FIXTURE]
    res["findings"] = [f for f in F if f.file != FIXTURE]
    exp = {"fix_impure_call": "impure-call:__gmpn_sub_n", "fix_assert_write": "assert-only-write:n", "fix_pure_ok": None}
    for fname, sig in exp.items():
        got = [f.signature for f in fx if f.function == fname]
        if sig is None and got:
            raise AnalysisBroken("R-PURE fires on its negative fixture %s: %s" % (fname, got))
        if sig is not None and sig not in got:
            raise AnalysisBroken("R-PURE no longer fires on its positive fixture %s (expected %s, got %s)" % (fname, sig, got))
    if res["stats"]["assertion_sites"] < 1500:
        raise AnalysisBroken("R-PURE saw only %d assertion sites (floor 1500)" % res["stats"]["assertion_sites"])
    res["stats"] = dict(res["stats"])
    res["obligations"] = res["stats"]["assert_only_elements"]
    res["notes"].append("fixtures: 2 positive fired, 1 negative silent; %d callees pure by function-attrs" % len(pure))
    res["exhaustive"] = True
    return res


# ---------------------------------------------------------------------------
def mparam_tables():
    ts = sorted(glob.glob(os.path.join(REPO, "mpn/x86_64/**/gmp-mparam.h"), recursive=True))
    if len(ts) < 15:
        raise AnalysisBroken("only %d shipped gmp-mparam.h tables found (floor 15)" % len(ts))
    return ts


def tuned_units():
    """units whose text mentions a tuned macro: only those can change with the table"""
    import compdb
    pat = re.compile(r"_THRESHOLD|_LIMIT\b|FFT_TABLE|MULMOD_TAB|USE_PREINV|_TAB\b")
    us = []
    for u in compdb.c_units():
        try:
            if pat.search(open(u.src, errors="replace").read()):
                us.append(u)
        except OSError:
            raise AnalysisBroken("cannot read " + u.src)
    return us


LITERAL0 = re.compile(r"^\s*ASSERT(_ALWAYS)?\s*\(\s*0\s*\)\s*;?\s*$")


def constassert_in(ex, prop, res, table):
    F = res["findings"]
    for path, fn in ex.functions():
        reach = None
        for b, t in assert_sites(fn):
            res["stats"]["assertion_sites"] += 1
            c = t.get("cond")
            if not c or c.get("k") != "int":
                continue
            res["stats"]["foldable"] += 1
            if reach is None:
                reach = reachable(fn)
            if b["id"] not in reach:
                res["stats"]["foldable_in_pruned_code"] += 1
                continue
            if c["v"] == 0:        # !(expr) == 0  <=>  assertion true
                res["stats"]["foldable_true"] += 1
                if len(res["samples"]) < 10:
                    res["samples"].append(dict(rule="R-CONSTASSERT", table=relpath(table), function=fn["name"], line=t["line"],
                                               assertion=t.get("txt", "")[:100], verdict="true"))
                continue
            if LITERAL0.match(t.get("txt", "")):
                res["stats"]["literal_unreachable_markers"] += 1
                continue
            F.append(Finding(prop, "R-CONSTASSERT", fn["file"], t["line"], fn["name"],
                             "const-false:%s:%s" % (os.path.relpath(table, REPO), re.sub(r"\s+", "", t.get("txt", ""))[:80]),
                             "assertion %s at line %d is a compile-time constant and FALSE under tuning table %s"
                             % (t.get("txt", "")[:120], t["line"], os.path.relpath(table, REPO))))


def run_constassert(prop="C14", tier="quick"):
    res = dict(findings=[], stats=collections.Counter(), samples=[], notes=[])
    built = os.path.realpath(os.path.join(REPO, "gmp-mparam.h"))
    cfg = sa.cfg_assert()
    ex = sa.export(cfg)
    sa.check_errors(ex)
    constassert_in(ex, prop, res, built)
    ntab = 1
    if res["stats"]["assertion_sites"] < 1500:
        raise AnalysisBroken("R-CONSTASSERT saw only %d assertion sites (floor 1500)" % res["stats"]["assertion_sites"])
    if tier == "thorough":
        us = tuned_units()
        for t in mparam_tables():
            if os.path.realpath(t) == built:
                continue
            tag = os.path.relpath(os.path.dirname(t), os.path.join(REPO, "mpn/x86_64")).replace("/", "-")
            c = sa.Config("assert-mparam-" + tag, flags=["-DWANT_ASSERT=1"],
                          overlay={os.path.join(REPO, "gmp-mparam.h"): OVERLAY.get(t, t)}, units=us)
            e2 = sa.export(c)
            sa.check_errors(e2)
            constassert_in(e2, prop, res, t)
            ntab += 1
        res["notes"].append("%d units mention tuned macros and were re-parsed under each of %d tables" % (len(us), ntab))
    res["stats"]["tuning_tables"] = ntab
    res["stats"] = dict(res["stats"])
    res["obligations"] = res["stats"]["foldable"]
    res["exhaustive"] = True
    return res
