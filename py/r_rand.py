"""R-RANDCOV (C19): the generator function tables are complete, gmp_randinit_set copies every field of the generator's
private state, and clear releases what init / iset obtained (same struct size, every mpz_t member cleared).
Structural part of 'a state and its gmp_randinit_set copy produce the same sequence'; ranges, uniformity and the
sequences themselves are value properties and are not decided."""
import collections, json

import sa
from core import *
import r_alloc


def run(prop="C19", tier="quick"):
    res = dict(findings=[], stats=collections.Counter(), samples=[], notes=[])
    F = res["findings"]
    facts = ir_facts()
    tables = [g for g in facts["globals"] if "struct.gmp_randfnptr_t" in g["type"] and g["constant"] and "init" in g]
    if len(tables) < 3:
        raise AnalysisBroken("R-RANDCOV: only %d generator function tables found (floor 3)" % len(tables))
    slots = ("randseed_fn", "randget_fn", "randclear_fn", "randiset_fn")
    fns = {}
    for g in tables:
        init = g["init"]
        file = g["loc"].rpartition(":")[0]
        res["stats"]["tables"] += 1
        for i, s in enumerate(slots):
            v = init[i] if i < len(init) else None
            res["stats"]["table_slots"] += 1
            null = v is None or not isinstance(v, dict) or "ref" not in v
            if null and not (i == 0 and "noseed" in g["name"].lower()):
                F.append(Finding(prop, "R-RANDCOV", file, 0, g["name"], "null-slot:%s:%s" % (g["name"], s),
                                 "generator table %s has no %s: every caller invokes it unconditionally" % (g["name"], s)))
            if not null:
                fns.setdefault(g["name"], {})[s] = v["ref"]
        res["samples"].append(dict(rule="R-RANDCOV", table=g["name"], slots={s: (init[i].get("ref") if isinstance(init[i], dict) else None)
                                                                              for i, s in enumerate(slots) if i < len(init)}))
    ex = sa.export(sa.cfg_built())
    byname = {}
    records = {}
    for path, u in ex.units():
        if os.path.basename(path).startswith("rand"):
            for f in u["functions"]:
                byname[f["name"]] = f
            for r in u["records"]:
                records[r["name"]] = r

    def base(n):
        return n.split(".")[0]

    def alloc_sizes(fn, kinds):
        out = []
        for b in fn["blocks"]:
            for el in b["elems"]:
                e = el["e"]
                if e.get("k") == "call" and e.get("callee") is None and r_alloc.akind(e) in kinds:
                    a = e["args"][0 if r_alloc.akind(e) == "alloc" else 1]
                    out.append((el["line"], a.get("v") if a.get("k") == "int" else None))
        return out

    for tname, d in fns.items():
        iset, clr = byname.get(base(d.get("randiset_fn", ""))), byname.get(base(d.get("randclear_fn", "")))
        if iset is None or clr is None:
            raise AnalysisBroken("R-RANDCOV: iset / clear function of %s not found in rand*.c" % tname)
        # the private state struct: type of the pointer that receives the allocation in iset - or in a unit-local helper that iset
        # calls to obtain the new state (one level: `dstp = mt_state_new (srcp->mt, srcp->mti)`)
        def find_alloc(fn):
            hit = None
            for b in fn["blocks"]:
                for el in b["elems"]:
                    def f(n):
                        nonlocal hit
                        if n.get("k") == "binop" and n["op"] == "=" and n["l"].get("k") == "var" and "struct" in n["l"].get("t", "") + n["l"].get("ct", ""):
                            r = n["r"]
                            while isinstance(r, dict) and r.get("k") == "cast":
                                r = r["e"]
                            if isinstance(r, dict) and r.get("k") == "call" and r.get("callee") is None and r_alloc.akind(r) == "alloc":
                                hit = n["l"]
                    sa.walk(el["e"], f)
            return hit
        views = []                      # (function, variable that names the new state there)
        dstp = find_alloc(iset)
        if dstp is not None:
            views.append((iset, dstp))
        else:
            for b in iset["blocks"]:
                for el in b["elems"]:
                    def f2(n):
                        if n.get("k") == "binop" and n["op"] == "=" and n["l"].get("k") == "var" and "struct" in n["l"].get("t", "") + n["l"].get("ct", ""):
                            r = n["r"]
                            while isinstance(r, dict) and r.get("k") == "cast":
                                r = r["e"]
                            if isinstance(r, dict) and r.get("k") == "call" and r.get("callee") in byname and byname[r["callee"]].get("static"):
                                h = byname[r["callee"]]
                                hv = find_alloc(h)
                                if hv is not None and not views:
                                    views.append((iset, n["l"]))
                                    views.append((h, hv))
                    sa.walk(el["e"], f2)
        stype = views[0][1]["t"].replace("*", "").strip() if views else None
        if stype is None or stype not in records:
            raise AnalysisBroken("R-RANDCOV: cannot identify the state struct copied by %s (got %r)" % (iset["name"], stype))
        dstp = views[0][1]
        rec = records[stype]
        written = collections.defaultdict(list)      # field -> [(line, index expr or None, rhs)]
        import r_assert
        for vfn, vvar in views:
            live = r_assert.reachable(vfn)              # `if (LIMBS_PER_UI > 1)` arms are pruned by Clang when constant-false
            walkers = {}                                # local pointer -> array field it was pointed at (dp = p->mt)
            for b in vfn["blocks"]:                     # first pass: the walkers (block order is not execution order)
                for el in b["elems"]:
                    def g0(n, vvar=vvar):
                        pairs = []
                        if n.get("k") == "binop" and n["op"] == "=" and n["l"].get("k") == "var":
                            pairs.append((n["l"]["id"], n["r"]))
                        if n.get("k") == "decl":
                            pairs += [(d_["var"]["id"], d_.get("init")) for d_ in n["decls"]]
                        for vid_, r in pairs:
                            while isinstance(r, dict) and r.get("k") == "cast":
                                r = r["e"]
                            if isinstance(r, dict) and r.get("k") == "member" and r["base"].get("k") == "var" and r["base"]["id"] == vvar["id"]:
                                walkers[vid_] = r["field"]
                    sa.walk(el["e"], g0)
            for b in vfn["blocks"]:
                if b["id"] not in live:
                    continue
                for el in b["elems"]:
                    e = el["e"]

                    def g(n, el=el, vvar=vvar):
                        if n.get("k") == "binop" and n["op"] == "=":
                            l = n["l"]
                            idx = None
                            if l.get("k") == "index":
                                idx, l = l["idx"], l["base"]
                            if l.get("k") == "member" and l["base"].get("k") == "var" and l["base"]["id"] == vvar["id"]:
                                written[l["field"]].append((el["line"], idx, n["r"]))
                            # dp = p->mt  /  *dp++ = x  /  dp[i] = x : written through a walking pointer, coverage not decided
                            r = n["r"]
                            while isinstance(r, dict) and r.get("k") == "cast":
                                r = r["e"]
                            if n["l"].get("k") == "var" and isinstance(r, dict) and r.get("k") == "member" and r["base"].get("k") == "var" \
                                    and r["base"]["id"] == vvar["id"]:
                                walkers[n["l"]["id"]] = r["field"]
                            tgt = n["l"]
                            if tgt.get("k") == "unop" and tgt["op"] == "*":
                                tgt = tgt["e"]
                                while isinstance(tgt, dict) and tgt.get("k") in ("cast", "unop"):
                                    tgt = tgt["e"]
                            elif tgt.get("k") == "index":
                                tgt = tgt["base"]
                            if isinstance(tgt, dict) and tgt.get("k") == "var" and tgt["id"] in walkers and n["l"].get("k") != "var":
                                written[walkers[tgt["id"]]].append((el["line"], "walk", n["r"]))
                        if n.get("k") == "decl":
                            for d_ in n["decls"]:
                                r = d_.get("init")
                                while isinstance(r, dict) and r.get("k") == "cast":
                                    r = r["e"]
                                if isinstance(r, dict) and r.get("k") == "member" and r["base"].get("k") == "var" and r["base"]["id"] == vvar["id"]:
                                    walkers[d_["var"]["id"]] = r["field"]
                    sa.walk(e, g)
                    if e.get("k") == "call" and e.get("args"):
                        a0 = e["args"][0]
                        while isinstance(a0, dict) and a0.get("k") in ("cast",):
                            a0 = a0["e"]
                        if isinstance(a0, dict) and a0.get("k") == "binop":
                            a0 = a0["l"]
                        if isinstance(a0, dict) and a0.get("k") == "member" and a0["base"].get("k") == "var" and a0["base"]["id"] == vvar["id"] \
                                and e["params"] and not e["params"][0].get("pc"):
                            written[a0["field"]].append((el["line"], "call", e))
        iset_views = [v[0] for v in views]
        conds = []
        for vfn in iset_views:
            for b in vfn["blocks"]:
                t = b.get("term")
                if t and t.get("cond"):
                    conds.append(sa.strip_expect(sa.effective_cond(t)))
        for fld in rec["fields"]:
            res["stats"]["state_fields"] += 1
            ws = written.get(fld["name"])
            if not ws:
                F.append(Finding(prop, "R-RANDCOV", iset["file"], iset["line"], iset["name"], "field-not-copied:%s.%s" % (stype, fld["name"]),
                                 "%s does not set field %s of %s: the copy of a generator would continue from different state than the original"
                                 % (iset["name"], fld["name"], stype)))
                continue
            if "array" in fld:
                n = fld["array"]
                lits = {w[1]["v"] for w in ws if isinstance(w[1], dict) and w[1].get("k") == "int"}
                loops = [w for w in ws if isinstance(w[1], dict) and w[1].get("k") == "var"]
                calls = [w for w in ws if w[1] in ("call", "walk")]
                if any(w[1] == "walk" for w in ws):
                    res["stats"]["array_coverage_undecided"] += 1
                covered = set(lits)
                bound_ok = False
                for w in loops:
                    vid = w[1]["id"]
                    # the index must start at 0: every plain assignment to it is the literal 0
                    starts = []
                    for b2 in [bb for vfn in iset_views for bb in vfn["blocks"]]:
                        for el2 in b2["elems"]:
                            def h(n):
                                if n.get("k") == "binop" and n["op"] == "=" and n["l"].get("k") == "var" and n["l"]["id"] == vid:
                                    starts.append(n["r"])
                            sa.walk(el2["e"], h)
                    if not starts or any(not (x.get("k") == "int" and x["v"] == 0) for x in starts):
                        F.append(Finding(prop, "R-RANDCOV", iset["file"], w[0], iset["name"], "array-start:%s.%s" % (stype, fld["name"]),
                                         "%s copies %s[i] in a loop that does not start at index 0: part of the generator state is not copied"
                                         % (iset["name"], fld["name"])))
                    for c in conds:
                        if isinstance(c, dict) and c.get("k") == "binop" and c["op"] == "<" and c["l"].get("k") == "var" and c["l"]["id"] == vid \
                                and c["r"].get("k") == "int":
                            if c["r"]["v"] == n:
                                bound_ok = True
                            else:
                                F.append(Finding(prop, "R-RANDCOV", iset["file"], w[0], iset["name"], "array-bound:%s.%s" % (stype, fld["name"]),
                                                 "%s copies %s[i] for i < %d but the array has %d elements" % (iset["name"], fld["name"], c["r"]["v"], n)))
                                bound_ok = True
                if not bound_ok and not calls and not set(range(n)) <= covered:
                    F.append(Finding(prop, "R-RANDCOV", iset["file"], ws[0][0], iset["name"], "array-partial:%s.%s" % (stype, fld["name"]),
                                     "%s sets only elements %s of %s[%d]" % (iset["name"], sorted(covered), fld["name"], n)))
        # function table and state pointer installed in dst
        txt = json.dumps(iset["blocks"])
        for need, why in (("_mp_lc", "RNG_FNPTR (dst)"), ("_mp_seed", "RNG_STATE (dst)")):
            res["stats"]["state_fields"] += 1
            if ('"field": "%s"' % need) not in txt:
                F.append(Finding(prop, "R-RANDCOV", iset["file"], iset["line"], iset["name"], "dst-not-set:%s" % need,
                                 "%s never stores %s" % (iset["name"], why)))
        # sizes: iset allocates what clear frees
        a_sizes = {v for vfn in iset_views for _, v in alloc_sizes(vfn, ("alloc",))}
        f_sizes = {v for _, v in alloc_sizes(clr, ("free",))}
        res["stats"]["size_pairs"] += 1
        if not a_sizes or not f_sizes or a_sizes != f_sizes or None in a_sizes:
            F.append(Finding(prop, "R-RANDCOV", clr["file"], clr["line"], clr["name"], "state-size:%s" % stype,
                             "%s allocates the generator state with size %s but %s frees it with size %s"
                             % (iset["name"], sorted(map(str, a_sizes)), clr["name"], sorted(map(str, f_sizes)))))
        # mpz_t members are cleared
        cleared = set()
        for b in clr["blocks"]:
            for el in b["elems"]:
                e = el["e"]
                if e.get("k") == "call" and e.get("callee") == "__gmpz_clear" and e.get("args"):
                    a0 = e["args"][0]
                    while isinstance(a0, dict) and a0.get("k") == "cast":
                        a0 = a0["e"]
                    if isinstance(a0, dict) and a0.get("k") == "member" and a0["base"].get("k") == "var":
                        cleared.add(a0["field"])
        for fld in rec["fields"]:
            if "__mpz_struct" in fld.get("ct", "") and "*" not in fld.get("ct", ""):
                res["stats"]["mpz_members"] += 1
                if fld["name"] not in cleared:
                    F.append(Finding(prop, "R-RANDCOV", clr["file"], clr["line"], clr["name"], "member-not-cleared:%s.%s" % (stype, fld["name"]),
                                     "%s does not mpz_clear member %s of %s" % (clr["name"], fld["name"], stype)))
        res["samples"].append(dict(rule="R-RANDCOV", iset=iset["name"], state_struct=stype, fields=[f["name"] for f in rec["fields"]],
                                   fields_written=sorted(written)))
    lc_schemes(prop, facts, res)
    res["stats"] = dict(res["stats"])
    res["obligations"] = sum(v for v in res["stats"].values())
    res["exhaustive"] = True
    return res


def lc_schemes(prop, facts, res):
    """gmp_randinit_lc_2exp_size picks the first entry of __gmp_rand_lc_scheme with m2exp / 2 >= size: the table must be ascending
    and zero-terminated, and every entry must be a full-period generator modulo 2^m2exp (Hull-Dobell: c odd, a = 1 mod 4; the file
    promises a = 5 mod 8 and 0.01 m <= a <= 0.99 m) - otherwise some supported size gets a generator whose low-quality or
    short-period stream reaches the caller ("for every supported size ... not grossly non-uniform")."""
    F = res["findings"]
    gs = {g["name"]: g for g in facts["globals"]}
    tab = [g for g in facts["globals"] if g["name"].split(".")[0] == "__gmp_rand_lc_scheme" and "init" in g]
    if len(tab) != 1:
        raise AnalysisBroken("R-RANDCOV: __gmp_rand_lc_scheme not found in the linked IR")
    g = tab[0]
    file = g["loc"].rpartition(":")[0]
    line = int(g["loc"].rpartition(":")[2] or 0)

    def sval(ref):
        s_ = gs.get(ref.get("ref")) if isinstance(ref, dict) else None
        if not s_ or "init" not in s_ or not isinstance(s_["init"], list):
            return None
        return bytes(int(x) for x in s_["init"]).split(b"\0")[0].decode("latin1")
    rows = g["init"]
    if len(rows) < 10:
        raise AnalysisBroken("R-RANDCOV: __gmp_rand_lc_scheme has only %d rows" % len(rows))
    last = rows[-1]
    if int(last[0]) != 0 or last[1] is not None and last[1] != 0 and not (isinstance(last[1], dict) and "ref" not in last[1]):
        F.append(Finding(prop, "R-RANDCOV", file, line, "__gmp_rand_lc_scheme", "lc-scheme:unterminated",
                         "the scheme table does not end with the all-zero entry the selection loop stops at"))
    prev = 0
    for i, row in enumerate(rows[:-1]):
        m, a_s, c = int(row[0]), sval(row[1]), int(row[2])
        res["stats"]["lc_scheme_entries"] += 1
        why = None
        try:
            a = int(a_s, 16) if a_s else None
        except ValueError:
            a = None
        if a is None:
            why = "multiplier string %r is not hexadecimal" % a_s
        elif m <= prev:
            why = "m2exp %d does not exceed the previous entry's %d: the first-fit selection never reaches it or picks a smaller modulus than promised" % (m, prev)
        elif c % 2 == 0:
            why = "addend c = %d is even: the generator modulo 2^%d does not have full period" % (c, m)
        elif a % 8 != 5:
            why = "multiplier is %d mod 8, not 5: not a full-period / maximal-potency multiplier modulo 2^%d" % (a % 8, m)
        elif not (a * 100 >= (1 << m) and a * 100 <= 99 * (1 << m)):
            why = "multiplier is outside [0.01 m, 0.99 m] for m = 2^%d" % m
        if why:
            F.append(Finding(prop, "R-RANDCOV", file, line, "__gmp_rand_lc_scheme", "lc-scheme:%d" % i,
                             "__gmp_rand_lc_scheme[%d] (m2exp %d): %s" % (i, m, why)))
        prev = m
    res["samples"].append(dict(rule="R-RANDCOV.lcscheme", entries=len(rows) - 1, largest_m2exp=prev))
