"""R-CXXALIAS (C20): expression-template evaluation never reads an operand after the destination, which may be the
same variable, has been written.

mpirxx.h is not built by the pinned configuration, so nothing in `make check` ever looks at it.  A driver TU
(selftest/fixtures/cxx_driver.cc) instantiates every expression shape; Clang resolves the templates, and each
*instantiated*  __gmp_expr<...>::eval (p)  body is analysed on its CFG:

  W   an event that writes the destination p:  __gmp_set_expr (p, x),  sub.eval (p),  Op::eval (p, ...)
  R   a read of an operand  expr.valN  (leaf  valN.__get_mp (), or a sub-expression handed to __gmp_set_expr /
      __gmp_temp / .eval ())
  NE  the edge of  `p != expr.valN.__get_mp ()`  on which the leaf is known not to be the destination

On every path, after a W no R of an operand that could be the destination object (a leaf of the destination's own
type) or that is a sub-expression (it may mention the destination anywhere inside) is allowed, unless NE holds for
that leaf.  Reads that are arguments of the *same* call that writes p are evaluated before the callee runs and are
fine (the C functions handle overlap themselves).

Coverage floor: every partial specialisation of __gmp_expr that defines eval() has an analysed instantiation."""
import collections, json

import sa
from core import *

DRIVER = os.path.join(VERIF, "selftest", "fixtures", "cxx_driver.cc")
FIXTURE_HDR = os.path.join(VERIF, "selftest", "fixtures", "cxx_bad_eval.h")


def operand_of(e):
    """'val1' / 'val2' / 'val' if e is (a use of) this->expr.valN, with the kind: leaf via __get_mp() or whole"""
    n = e
    while isinstance(n, dict) and n.get("k") == "cast":
        n = n["e"]
    if not isinstance(n, dict):
        return None
    if n.get("k") == "call" and n.get("callee") == "__get_mp":
        b = n.get("fn", {}).get("base")
        r = operand_of(b) if b else None
        return (r[0], "leaf", r[2]) if r else None
    if n.get("k") == "member" and n["field"] in ("val", "val1", "val2"):
        b = n["base"]
        if isinstance(b, dict) and b.get("k") == "member" and b["field"] == "expr":
            return (n["field"], "whole", n.get("t", ""))
    return None


def is_p(e, pid):
    while isinstance(e, dict) and e.get("k") == "cast":
        e = e["e"]
    return isinstance(e, dict) and e.get("k") == "var" and e["id"] == pid


def leaf_type(t):
    """'mpz' / 'mpq' / 'mpf' if the member type is a leaf object __gmp_expr<T, T>"""
    t = t.replace("const ", "").replace("struct ", "").replace("class ", "")
    for k, names in (("mpz", ("__mpz_struct[1]", "mpz_t")), ("mpq", ("__mpq_struct[1]", "mpq_t")), ("mpf", ("__mpf_struct[1]", "mpf_t"))):
        for a in names:
            for b in names:
                if t.strip() == "__gmp_expr<%s, %s>" % (a, b):
                    return k
    return None


def dest_type(fn):
    ct = fn["params"][0].get("ct", "") if fn["params"] else ""
    for k in ("mpz", "mpq", "mpf"):
        if "__%s_struct" % k in ct:
            return k
    return None


def analyse(fn, prop, res):
    if not fn["params"]:
        return
    pid = fn["params"][0]["id"]
    dt = dest_type(fn)
    blocks = sa.blocks_by_id(fn)
    F = res["findings"]
    sig = fn.get("partial_sig") or fn.get("cls", "")[:80]

    # state: (written: bool, ne: frozenset of operand names known != p)
    IN = collections.defaultdict(set)
    IN[fn["entry"]].add((False, frozenset()))
    work = [fn["entry"]]
    reported = set()
    while work:
        bid = work.pop()
        b = blocks[bid]
        states = set(IN[bid])
        for el in b["elems"]:
            e = el["e"]
            calls = []
            if e.get("k") == "call":
                calls = [e]
            elif e.get("k") == "decl":
                for d in e["decls"]:
                    if isinstance(d.get("init"), dict) and d["init"].get("k") == "construct":
                        calls = [d["init"]]
            elif e.get("k") == "construct":
                continue      # the DeclStmt element carries it
            for c in calls:
                args = list(c.get("args", []))
                callee = c.get("callee") or c.get("cls")
                if callee == "__get_mp":
                    continue                  # evaluated as part of the call that uses it
                # member call  expr.valN.eval (p): the object is an operand too
                recv = c.get("fn", {}).get("base") if c.get("k") == "call" and c.get("fn", {}).get("k") == "method" else None
                reads = []
                for a in args + ([recv] if recv else []):
                    o = operand_of(a) if a else None
                    if o:
                        reads.append(o)
                writes = c.get("k") == "call" and args and is_p(args[0], pid) and callee in ("eval", "__gmp_set_expr")
                res["stats"]["events"] += 1
                new = set()
                for written, ne in states:
                    if written:
                        for name, kind, t in reads:
                            lt = leaf_type(t)
                            if "__gmp_expr" not in t:
                                risky = False                      # a built-in number cannot be the destination
                            elif lt is None:
                                risky = True                       # a sub-expression may mention the destination anywhere inside
                            else:
                                risky = (lt == dt)                 # a leaf object of the destination's own type
                            if risky and name not in ne:
                                key = (name, el["line"])
                                if key not in reported:
                                    reported.add(key)
                                    F.append(Finding(prop, "R-CXXALIAS", fn["file"], el["line"], "eval",
                                                     "read-after-write:%s:%s" % (name, sig[:140]),
                                                     "in %s::eval, operand %s is read at line %d after the destination p has been written on this path and "
                                                     "nothing establishes p != %s: if the assigned variable also appears in the expression it has "
                                                     "already been overwritten" % (fn.get("cls", "")[:160], name, el["line"], name)))
                    new.add((written or bool(writes), ne))
                states = new
        if b.get("noreturn"):
            continue
        t = b.get("term")
        cond = sa.effective_cond(t) if t and t.get("cond") and len(b["succs"]) == 2 else None
        for si, s in enumerate(b["succs"]):
            if not isinstance(s, int) or s == fn["exit"]:
                continue
            out = set()
            for written, ne in states:
                ne2 = ne
                if cond is not None:
                    c = sa.strip_expect(cond)
                    neg = False
                    while isinstance(c, dict) and c.get("k") == "unop" and c["op"] == "!":
                        c = sa.strip_expect(c["e"])
                        neg = not neg
                    if isinstance(c, dict) and c.get("k") == "binop" and c["op"] in ("!=", "=="):
                        for a_, b_ in ((c["l"], c["r"]), (c["r"], c["l"])):
                            o = operand_of(b_)
                            if is_p(a_, pid) and o and o[1] == "leaf":
                                differ = ((c["op"] == "!=") == ((si == 0) != neg))
                                if differ:
                                    ne2 = ne | {o[0]}
                out.add((written, ne2))
            if not out <= IN[s]:
                IN[s] |= out
                work.append(s)


def run(prop="C20", tier="quick"):
    res = dict(findings=[], stats=collections.Counter(), samples=[], notes=[])
    if not os.path.exists(os.path.join(REPO, "mpirxx.h")):
        raise AnalysisBroken("mpirxx.h vanished")
    cfg = sa.Config("cxx", units=[], extra_files=[DRIVER, os.path.join(VERIF, "selftest", "fixtures", "cxx_bad_driver.cc")], all_headers=True)
    cfg.cxx = True
    ex = sa.export(cfg)
    u = ex.load(DRIVER)
    if u.get("errors"):
        raise AnalysisBroken("the C++ driver TU no longer parses against mpirxx.h (%d errors)" % u["errors"])
    hdr = os.path.realpath(os.path.join(REPO, "mpirxx.h"))
    evals = [f for f in u["functions"] if f["name"] == "eval" and "__gmp_expr" in f.get("cls", "")
             and os.path.basename(f["file"]) in ("mpirxx.h",) or (f["name"] == "eval" and "__gmp_expr" in f.get("cls", "") and OVERLAY and "mut-" in f["file"])]
    partials = [p for p in u.get("partials", []) if p["name"] == "__gmp_expr" and p["has_eval"]]
    if len(partials) < 20:
        raise AnalysisBroken("only %d partial specialisations of __gmp_expr with eval() found (floor 20)" % len(partials))
    covered = {f.get("partial_sig") for f in evals}
    missing = [p for p in partials if p["sig"] not in covered]
    if missing:
        raise AnalysisBroken("no instantiation analysed for %d partial specialisation(s) of __gmp_expr, first at mpirxx.h:%d: %s - extend "
                             "selftest/fixtures/cxx_driver.cc" % (len(missing), missing[0]["line"], missing[0]["sig"][:120]))
    for f in evals:
        res["stats"]["eval_bodies"] += 1
        analyse(f, prop, res)
    # positive / negative fixture: a deliberately wrong and a right eval() in a tiny stand-alone template
    ub = ex.load(os.path.join(VERIF, "selftest", "fixtures", "cxx_bad_driver.cc"))
    fxres = dict(findings=[], stats=collections.Counter())
    for f in ub["functions"]:
        if f["name"] == "eval" and "fix_expr" in f.get("cls", ""):
            analyse(f, prop, fxres)
    got = {f.signature.split(":")[1] + "@" + ("bad" if "fix_bad" in f.what else "good") for f in fxres["findings"]}
    if not any("fix_bad" in f.what for f in fxres["findings"]):
        raise AnalysisBroken("R-CXXALIAS no longer fires on its positive fixture (fix_bad)")
    if any("fix_good" in f.what for f in fxres["findings"]):
        raise AnalysisBroken("R-CXXALIAS fires on its negative fixture (fix_good)")
    # ---- the operator functors (__gmp_binary_plus::eval (z, w, v) ...) are ordinary functions with an output and const
    # inputs: the expression templates call them with the destination also as a source (Op::eval (p, l, p)), so they
    # are held to the C layer's aliasing rules (aliasflow: R-CLOBBER / R-STALE)
    import aliasflow
    functors = [f for f in u["functions"] if f["name"] == "eval" and f.get("cls", "").startswith("__gmp_")
                and "__gmp_expr" not in f.get("cls", "") and os.path.basename(f["file"]).endswith("mpirxx.h")]
    for f in functors:
        if not any(aliasflow.objkind(p.get("ct", "")) for p in f["params"]):
            continue
        found = []
        a = aliasflow.Analysis(f, prop, found.append, res["stats"])
        if not any(not v[2] for v in a.pinfo.values()):
            continue
        a.reset_reports = lambda found=found: found.clear()
        a.run()
        res["stats"]["functor_bodies"] += 1
        for x in found:
            if x.rule in ("R-CLOBBER", "R-STALE"):
                x.rule = "R-CXXALIAS"
                x.function = "%s::eval" % f.get("cls", "")[:60]
                x.signature = "functor:%s:%s" % (f.get("cls", "")[:50], x.signature)
                x.what = "in %s::eval (mpirxx.h:%d): %s" % (f.get("cls", "")[:60], x.line, x.what)
                res["findings"].append(x)
    if res["stats"]["functor_bodies"] < 60:
        raise AnalysisBroken("R-CXXALIAS: only %d operator-functor bodies analysed (floor 60)" % res["stats"]["functor_bodies"])
    res["stats"]["partial_specialisations"] = len(partials)
    res["stats"] = dict(res["stats"])
    res["obligations"] = res["stats"].get("events", 0) + res["stats"].get("input_reads", 0) + res["stats"].get("limb_pointer_uses", 0)
    res["samples"].append(dict(rule="R-CXXALIAS", eval_bodies=res["stats"].get("eval_bodies"), partial_specialisations=len(partials),
                               example=evals[0].get("cls", "")[:160] if evals else ""))
    res["notes"].append("fixtures: 1 positive fired, 1 negative silent; all %d partial specialisations covered" % len(partials))
    res["exhaustive"] = True
    return res
