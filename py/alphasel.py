"""Which digit alphabet does an output function use for a given base?

The base dispatch at the head of mpz_get_str / mpz_out_str / mpf_get_str only tests and rewrites an int `base` and selects a
string (a literal, a file-scope const string, possibly through a unit-local helper).  It is evaluated for one concrete base at a
time by a small interpreter over the exported CFGs:

  values   int | bytes (a string constant) | ("ref", frame id, var id) | None (unknown)
  frames   one per function activation; unit-local callees that occur while the alphabet is still undecided are interpreted
           (depth <= 3), with `&x` arguments as references into the caller's frame;
  branches a condition that evaluates is followed, one that does not is explored both ways;
  end      the first call to a function outside the unit (the conversion itself), or a return of the outermost function.

Result per base: the set of alphabets (bytes) that can be current when the conversion starts, plus "reject" if a path returns
first.  Anything the interpreter does not understand before an alphabet is chosen makes the result None (undecided)."""
import sa

MAXSTEPS = 400


def _strip(e):
    while isinstance(e, dict) and e.get("k") in ("cast", "paren"):
        e = e["e"]
    return e


class Frame:
    _n = 0

    def __init__(self, fn):
        Frame._n += 1
        self.id = Frame._n
        self.fn = fn
        self.env = {}


class Interp:
    def __init__(self, unit_fns, global_strings):
        self.fns = {f["name"]: f for f in unit_fns}
        self.gstr = global_strings          # global variable name -> bytes
        self.frames = {}

    # ---- expressions -------------------------------------------------------------------------------------
    def ev(self, e, fr):
        e = _strip(e)
        if not isinstance(e, dict):
            return None
        k = e.get("k")
        if k == "int":
            return e["v"]
        if k == "str":
            return e["v"].encode("latin1")
        if k == "var":
            if e.get("global"):
                return self.gstr.get(e.get("name"))
            return fr.env.get(e["id"])
        if k == "unop":
            op = e["op"]
            if op == "&":
                x = _strip(e["e"])
                if isinstance(x, dict) and x.get("k") == "var" and not x.get("global"):
                    return ("ref", fr.id, x["id"])
                return None
            if op == "*":
                r = self.ev(e["e"], fr)
                if isinstance(r, tuple) and r[0] == "ref":
                    return self.frames[r[1]].env.get(r[2])
                return None
            v = self.ev(e["e"], fr)
            if v is None or not isinstance(v, int):
                return None
            return {"-": -v, "!": int(not v), "~": ~v, "+": v}.get(op)
        if k == "binop":
            op = e["op"]
            if op == ",":
                return self.ev(e["r"], fr)
            if op == "&&":
                l = self.ev(e["l"], fr)
                if l == 0:
                    return 0
                r = self.ev(e["r"], fr)
                return None if l is None or r is None else int(bool(l) and bool(r))
            if op == "||":
                l = self.ev(e["l"], fr)
                if isinstance(l, int) and l != 0:
                    return 1
                r = self.ev(e["r"], fr)
                return None if l is None or r is None else int(bool(l) or bool(r))
            l, r = self.ev(e["l"], fr), self.ev(e["r"], fr)
            if isinstance(l, bytes) and isinstance(r, int) and op == "+":
                return l[r:]                 # pointer into a string constant
            if not isinstance(l, int) or not isinstance(r, int):
                if op in ("==", "!=") and (l is None or r is None):
                    return None
                return None
            try:
                return {"+": l + r, "-": l - r, "*": l * r, "<": int(l < r), ">": int(l > r), "<=": int(l <= r), ">=": int(l >= r),
                        "==": int(l == r), "!=": int(l != r)}[op]
            except KeyError:
                return None
        if k == "cond":
            c = self.ev(e["c"], fr)
            if c is None:
                return None
            return self.ev(e["a"] if c else e["b"], fr)
        return None

    def store(self, lhs, val, fr):
        lhs = _strip(lhs)
        if lhs.get("k") == "var" and not lhs.get("global"):
            fr.env[lhs["id"]] = val
            return True
        if lhs.get("k") == "unop" and lhs["op"] == "*":
            r = self.ev(lhs["e"], fr)
            if isinstance(r, tuple) and r[0] == "ref":
                self.frames[r[1]].env[r[2]] = val
                return True
        return False

    # ---- one activation ------------------------------------------------------------------------------------
    def run(self, fn, args, text_of, depth=0):
        """explore fn with the given argument values; yields (kind, frame) with kind in 'work' | 'return'; for 'return' the frame
        carries the returned value in env['$ret']"""
        blocks = sa.blocks_by_id(fn)
        fr0 = Frame(fn)
        for p, a in zip(fn["params"], args):
            fr0.env[p["id"]] = a
        out = []
        todo = [(fn["entry"], fr0.env, 0)]
        seen = set()
        while todo:
            cur, env, steps = todo.pop()
            try:
                key = (cur, frozenset((k_, v_) for k_, v_ in env.items()))
            except TypeError:
                key = None
            if key is not None:
                if key in seen:
                    continue            # a loop whose condition we cannot evaluate: same block, same values
                seen.add(key)
            if steps > MAXSTEPS:
                out.append(("unknown", None))
                continue
            fr = Frame(fn)
            fr.env = dict(env)
            self.frames[fr.id] = fr
            # references into a copied frame must follow the copy: rebind refs that pointed at ancestors of this path
            b = blocks[cur]
            stop = None
            for el in b["elems"]:
                e = el["e"]
                k = e.get("k")
                if k == "call":
                    cal = e.get("callee")
                    if cal in self.fns and depth < 3 and cal != fn["name"]:
                        continue          # evaluated where its value is used (assignment / statement below)
                    if e.get("builtin") or (cal or "").startswith("__builtin_expect"):
                        continue
                    stop = ("work", fr)
                    break
                if k == "return":
                    fr.env["$ret"] = self.ev(e["e"], fr) if e.get("e") else None
                    if e.get("e") and fr.env["$ret"] is None:
                        rr = self.call_value(e["e"], fr, text_of, depth)
                        if rr is not None:
                            fr.env["$ret"] = rr
                    stop = ("return", fr)
                    break
                if k == "binop" and e["op"] == "=":
                    v = self.ev(e["r"], fr)
                    if v is None:
                        v = self.call_value(e["r"], fr, text_of, depth)
                    self.store(e["l"], v, fr)
                elif k == "binop" and e["op"] in ("+=", "-="):
                    cur_v = self.ev(e["l"], fr)
                    d = self.ev(e["r"], fr)
                    self.store(e["l"], None if not isinstance(cur_v, int) or not isinstance(d, int) else (cur_v + d if e["op"] == "+=" else cur_v - d), fr)
                elif k == "decl":
                    for d_ in e["decls"]:
                        if "init" in d_:
                            v = self.ev(d_["init"], fr)
                            if v is None:
                                v = self.call_value(d_["init"], fr, text_of, depth)
                            fr.env[d_["var"]["id"]] = v
            if stop:
                out.append(stop)
                continue
            if b.get("noreturn"):
                continue
            succs = [s_ for s_ in b["succs"] if isinstance(s_, int)]
            t = b.get("term")
            if t and t.get("cond") and len(b["succs"]) == 2:
                v = self.ev(sa.strip_expect(sa.effective_cond(t)), fr)
                if isinstance(v, int):
                    s_ = b["succs"][0] if v else b["succs"][1]
                    succs = [s_] if isinstance(s_, int) else []
            elif t and t.get("kind") == "SwitchStmt":
                v = self.ev(t.get("switch_cond"), fr) if t.get("switch_cond") else None
                if isinstance(v, int):
                    hit = [s_ for s_ in succs if blocks[s_].get("case", {}).get("k") == "int" and blocks[s_]["case"]["v"] == v]
                    dflt = [s_ for s_ in succs if blocks[s_].get("default")]
                    succs = hit or dflt or succs
            for s_ in succs:
                if s_ == fn["exit"]:
                    fr.env.setdefault("$ret", None)
                    out.append(("return", fr))
                else:
                    todo.append((s_, fr.env, steps + 1))
        return out

    def call_value(self, e, fr, text_of, depth):
        """value of a call to a unit-local function (single-valued results only)"""
        e = _strip(e)
        if not isinstance(e, dict) or e.get("k") != "call" or e.get("callee") not in self.fns or depth >= 3:
            return None
        callee = self.fns[e["callee"]]
        args = [self.ev(a, fr) for a in e.get("args", [])]
        res = self.run(callee, args, text_of, depth + 1)
        vals = set()
        for kind, f2 in res:
            if kind != "return":
                return None
            vals.add(f2.env.get("$ret"))
        # side effects through references were applied to the frames they point to; refs into `fr` are visible because the
        # callee stored through frame ids - copy them back from the registry
        if len(vals) == 1:
            return next(iter(vals))
        return None


def alphabets_for_base(fn, unit_fns, global_strings, base_param, base_value):
    """set of bytes / 'reject' / None"""
    it = Interp(unit_fns, global_strings)
    args = [base_value if p["id"] == base_param["id"] else None for p in fn["params"]]
    res = it.run(fn, args, None)
    out = set()
    for kind, fr in res:
        if kind == "unknown":
            return None
        if kind == "return":
            continue                      # e.g. the zero operand is answered without a conversion
        texts = {v for v in fr.env.values() if isinstance(v, bytes) and len(v) >= 10 and v[:10] == b"0123456789"}
        if len(texts) != 1:
            return None
        out.add(next(iter(texts)))
    if not out and res:
        return {"reject"}                 # every path returns before any conversion: the base is refused
    return out
