"""R-PRINTF (C18): structural obligations of the formatted-I/O layer.

  tables     every doprnt_funs_t has format / memory / reps (final is optional and tested for NULL by its users),
             every gmp_doscan_funs_t has scan / step / get / unget;
  snprintf   in printf/snprntffuns.c every write through d->buf is dominated by a test that space is left
             (d->size > 1, or >= 1 for the terminating NUL), its length is MIN (d->size - 1, x) (resp. the
             remaining size for vsnprintf), and every `d->buf += n` is paired with `d->size -= n` of the same n -
             the 'never writes more than size bytes' clause;
  asprintf   the buffer of gmp_asprintf_t is reallocated with its tracked `alloc` (decided by R-ALLOC.size with the
             buf/alloc invariant) - the 'allocates exactly' clause is about the final shrink to size + 1.
  reset      __gmp_doprnt and __gmp_doscan keep the flags / width / precision / base / style of the conversion being
             parsed in a local struct that they hand to the formatting functions; each '%' must start from the defaults.
             Per-field dataflow over the outer (per-conversion) loop: a field assigned inside the loop and still holding
             that value at the loop's back edge is *carried*; a carried field must be reassigned before it is read or
             before the struct is passed on - otherwise a conversion is formatted with its predecessor's settings
             ("standard conversions mixed into the format are unaffected" and the per-conversion C rules).
Byte-identity of the produced text with the C library is a value property and is not decided."""
import collections, json

import sa
from core import *
import r_divzero, r_alloc


def skey(e):
    return json.dumps(e, sort_keys=True) if isinstance(e, dict) else None


def is_member(e, field, vid=None):
    while isinstance(e, dict) and e.get("k") == "cast":
        e = e["e"]
    return isinstance(e, dict) and e.get("k") == "member" and e["field"] == field and \
        (vid is None or (e["base"].get("k") == "var" and e["base"]["id"] == vid))


def _strip(e):
    while isinstance(e, dict) and e.get("k") in ("cast", "paren"):
        e = e["e"]
    return e


def carried_fields(fn, prop, F, stats):
    """the `reset` clause on one function; returns the number of (field, use) obligations examined"""
    blocks = sa.blocks_by_id(fn)
    # the local struct whose address is passed to a callee
    cand = collections.Counter()
    for b in fn["blocks"]:
        for el in b["elems"]:
            e = el["e"]
            if e.get("k") == "call":
                for a in e.get("args", []):
                    a = _strip(a)
                    if isinstance(a, dict) and a.get("k") == "unop" and a["op"] == "&":
                        v = _strip(a["e"])
                        if v.get("k") == "var" and "struct" in v.get("ct", "") and "*" not in v.get("ct", "") and not v.get("global") \
                                and v.get("param") is None:
                            cand[(v["id"], v["name"])] += 1
    if not cand:
        return 0
    (vid, vname), _ = cand.most_common(1)[0]

    def is_field(e, vid=vid):
        e = _strip(e)
        return isinstance(e, dict) and e.get("k") == "member" and not e.get("arrow") and _strip(e["base"]).get("k") == "var" \
            and _strip(e["base"])["id"] == vid

    def passes_struct(e):
        if e.get("k") != "call":
            return False
        for a in e.get("args", []):
            a = _strip(a)
            if isinstance(a, dict) and a.get("k") == "unop" and a["op"] == "&" and _strip(a["e"]).get("k") == "var" and _strip(a["e"])["id"] == vid:
                return True
        return False
    # fields whose address is taken (value = &param.width): a store through such a pointer may assign any of them
    addr_taken, ptr_vars = set(), set()
    for b in fn["blocks"]:
        for el in b["elems"]:
            def f(n):
                if n.get("k") == "binop" and n["op"] == "=" and _strip(n["l"]).get("k") == "var":
                    r = _strip(n["r"])
                    if isinstance(r, dict) and r.get("k") == "unop" and r["op"] == "&" and is_field(r["e"]):
                        addr_taken.add(_strip(r["e"])["field"])
                        ptr_vars.add(_strip(n["l"])["id"])
            sa.walk(el["e"], f)
    dom, preds = r_divzero.dominators(fn)
    # natural loops that contain a call passing &param; the outermost is the per-conversion loop
    use_blocks = {b["id"] for b in fn["blocks"] for el in b["elems"] if passes_struct(el["e"])}
    loops = {}
    for b in fn["blocks"]:
        if b["id"] not in dom:
            continue
        for s_ in b["succs"]:
            if isinstance(s_, int) and s_ in dom.get(b["id"], ()):           # back edge b -> s_
                body, work = {s_, b["id"]}, [b["id"]]
                while work:
                    x = work.pop()
                    if x == s_:
                        continue
                    for p_ in preds.get(x, ()):
                        if p_ not in body and p_ in dom:
                            body.add(p_)
                            work.append(p_)
                loops.setdefault(s_, set()).update(body)
    loops = {h: body for h, body in loops.items() if body & use_blocks}
    if not loops:
        return 0
    header = max(loops, key=lambda h: len(loops[h]))
    body = loops[header]
    # dataflow: per field  'd' assigned in this iteration, 'c' carried from an earlier one
    IN = collections.defaultdict(set)      # block -> set of (field, 'd'|'c')
    work = [fn["entry"]]
    seen_entry = {fn["entry"]}
    reported = set()
    nuse = 0
    visited = set()
    while work:
        bid = work.pop()
        visited.add(bid)
        st = set(IN[bid])
        b = blocks[bid]
        for el in b["elems"]:
            e = el["e"]
            inloop = bid in body

            # collect reads: member occurrences that are not the target of '=' and not under '&'
            rd = []

            def walk(n, ctx):
                if not isinstance(n, dict):
                    return
                k = n.get("k")
                if k == "call" and n is not e:
                    return                        # nested calls are their own CFG elements
                if k == "unop" and n["op"] == "&" and is_field(n["e"]):
                    return
                if k == "binop" and n["op"] == "=" and is_field(n["l"]):
                    walk(n["r"], "r")
                    return
                if is_field(n) and k == "member":
                    rd.append(n["field"])
                    return
                for key, v in n.items():
                    if isinstance(v, dict):
                        walk(v, ctx)
                    elif isinstance(v, list):
                        for x in v:
                            walk(x, ctx)
            if e.get("k") == "call":
                if passes_struct(e):
                    rd = sorted({f_ for f_, tag in st if tag == "c"})
                    nuse += 1
                else:
                    for a in e.get("args", []):
                        walk(a, "r")
            else:
                walk(e, "r")
            for f_ in rd:
                nuse += 1
                if (f_, "c") in st and (f_, el["line"]) not in reported:
                    reported.add((f_, el["line"]))
                    F.append(Finding(prop, "R-PRINTF", fn["file"], el["line"], fn["name"], "carried-field:%s.%s" % (vname, f_),
                                     "%s.%s may still hold the value a previous conversion assigned to it when it is %s at line %d: it is "
                                     "set inside the per-conversion loop (header block %d) but not reset on every path from the start of the "
                                     "next conversion, so one '%%' conversion can be formatted with the settings of the one before"
                                     % (vname, f_, "passed on with &%s" % vname if e.get("k") == "call" and passes_struct(e) else "read",
                                        el["line"], header)))
            # definitions
            if e.get("k") == "binop" and e["op"] == "=":
                if is_field(e["l"]):
                    f_ = _strip(e["l"])["field"]
                    st.discard((f_, "c"))
                    if inloop:
                        st.add((f_, "d"))
                    else:
                        st.discard((f_, "d"))
                else:
                    l = _strip(e["l"])
                    if l.get("k") == "unop" and l["op"] == "*" and _strip(l["e"]).get("k") == "var" and _strip(l["e"])["id"] in ptr_vars and inloop:
                        for f_ in addr_taken:
                            st.add((f_, "d"))
            elif e.get("k") == "binop" and e["op"].endswith("=") and e["op"] not in ("==", "!=", "<=", ">=") and is_field(e["l"]) and inloop:
                st.add((_strip(e["l"])["field"], "d"))
            elif e.get("k") == "unop" and e["op"] in ("++", "--", "post++", "post--", "pre++", "pre--") and is_field(e["e"]) and inloop:
                st.add((_strip(e["e"])["field"], "d"))
        if b.get("noreturn"):
            continue
        for s_ in b["succs"]:
            if not isinstance(s_, int):
                continue
            out = st
            if s_ == header and bid in body:
                out = {(f_, "c") for f_, _ in st}
            if not out <= IN[s_] or s_ not in visited:
                IN[s_] |= out
                work.append(s_)
    stats["reset_loop_blocks"] += len(body)
    stats["reset_fields_tracked"] += len({f_ for bid in body for f_, _ in IN[bid]})
    return nuse


def run_reset(prop, res):
    F = res["findings"]
    ex = sa.export(sa.cfg_built())
    want = {"printf/doprnt.c": "__gmp_doprnt", "scanf/doscan.c": "__gmp_doscan"}
    n = 0
    for p, fn in ex.functions(lambda p: any(p.endswith(w) for w in want)):
        if fn["name"] in want.values():
            k = carried_fields(fn, prop, F, res["stats"])
            if k < 5:
                raise AnalysisBroken("R-PRINTF.reset: only %d uses of the conversion-parameter struct found in %s (floor 5)" % (k, fn["name"]))
            res["stats"]["reset_uses"] += k
            n += 1
            res["samples"].append(dict(rule="R-PRINTF.reset", function=fn["name"], uses=k))
    if n != 2:
        raise AnalysisBroken("R-PRINTF.reset: __gmp_doprnt / __gmp_doscan not both found")
    # fixtures
    fx = os.path.join(VERIF, "selftest", "fixtures", "printf_fix.c")
    exf = sa.export(sa.Config("printf-fix", units=[], extra_files=[fx]))
    got = {}
    for fn in exf.load(fx)["functions"]:
        ff = []
        carried_fields(fn, prop, ff, collections.Counter())
        got[fn["name"]] = len(ff)
    if not got.get("fix_bad_carry") or got.get("fix_good_carry") or got.get("fix_good_hoisted"):
        raise AnalysisBroken("R-PRINTF.reset fixtures: %r" % got)


def run(prop="C18", tier="quick"):
    res = dict(findings=[], stats=collections.Counter(), samples=[], notes=[])
    F = res["findings"]
    facts = ir_facts()
    # ---- function tables -------------------------------------------------------------------------
    spec = {"struct.doprnt_funs_t": (("format", 1), ("memory", 1), ("reps", 1), ("final", 0)),
            "struct.gmp_doscan_funs_t": (("scan", 1), ("step", 1), ("get", 1), ("unget", 1))}
    ntab = 0
    for g in facts["globals"]:
        for sname, slots in spec.items():
            if sname in g["type"] and g["constant"] and "init" in g and not g["type"].startswith("["):
                ntab += 1
                file = g["loc"].rpartition(":")[0]
                for i, (nm, required) in enumerate(slots):
                    v = g["init"][i] if i < len(g["init"]) else None
                    res["stats"]["table_slots"] += 1
                    ok = isinstance(v, dict) and ("ref" in v or v.get("expr"))
                    if required and not ok:
                        F.append(Finding(prop, "R-PRINTF", file, 0, g["name"], "null-slot:%s:%s" % (g["name"], nm),
                                         "function table %s has no %s function; __gmp_do%s calls it unconditionally"
                                         % (g["name"], nm, "prnt" if "doprnt" in sname else "scan")))
                res["samples"].append(dict(rule="R-PRINTF.tables", table=g["name"], file=relpath(file)))
    if ntab < 7:
        raise AnalysisBroken("R-PRINTF: only %d printf/scanf function tables found (floor 7)" % ntab)
    # ---- snprintf backend --------------------------------------------------------------------------
    ex = sa.export(sa.cfg_built())
    fns = [f for p, f in ex.functions(lambda p: p.endswith("printf/snprntffuns.c"))
           if f["params"] and "gmp_snprintf_t" in f["params"][0].get("ct", "")]
    if len(fns) < 4:
        raise AnalysisBroken("R-PRINTF: expected the 4 gmp_snprintf_* backend functions, found %d" % len(fns))
    for fn in fns:
        d = fn["params"][0]["id"]
        blocks = sa.blocks_by_id(fn)
        dom, preds = r_divzero.dominators(fn)
        # variables that hold d->size (avail = d->size) and MIN (d->size - 1, x)
        holds_size, min_vars = set(), set()

        def is_size_minus_1(e):
            e2 = e
            while isinstance(e2, dict) and e2.get("k") == "cast":
                e2 = e2["e"]
            return isinstance(e2, dict) and e2.get("k") == "binop" and e2["op"] == "-" and is_member(e2["l"], "size", d) \
                and e2["r"].get("k") == "int" and e2["r"]["v"] == 1

        def is_min_bound(e):
            """MIN (d->size - 1, x) in either order:  (a) < (b) ? (a) : (b)"""
            e2 = e
            while isinstance(e2, dict) and e2.get("k") == "cast":
                e2 = e2["e"]
            if isinstance(e2, dict) and e2.get("k") == "cond":
                a, b = e2["a"], e2["b"]
                return (is_size_minus_1(a) or is_size_minus_1(b)) and skey(sa.strip_expect(e2["c"])) is not None and \
                    sa.strip_expect(e2["c"]).get("op") in ("<", "<=", ">", ">=")
            return False
        for b in fn["blocks"]:
            for el in b["elems"]:
                def f(n):
                    if n.get("k") == "binop" and n["op"] == "=" and n["l"].get("k") == "var":
                        if is_member(n["r"], "size", d):
                            holds_size.add(n["l"]["id"])
                        if is_min_bound(n["r"]):
                            min_vars.add(n["l"]["id"])
                sa.walk(el["e"], f)

        def guard_ok(bid, need_gt):
            """a dominating branch `d->size > need_gt - 1`-ish: size > 1 (need_gt=1) or size >= 1 (need_gt=0)"""
            for dd in dom[bid]:
                if dd == bid:
                    continue
                db = blocks[dd]
                t = db.get("term")
                if not t or not t.get("cond") or len(db["succs"]) != 2:
                    continue
                s0 = db["succs"][0]
                if not (isinstance(s0, int) and s0 in dom[bid] and len(preds[s0]) == 1):
                    continue
                c = sa.strip_expect(sa.effective_cond(t))
                if isinstance(c, dict) and c.get("k") == "binop" and c["op"] in (">", ">="):
                    l = c["l"]
                    while isinstance(l, dict) and l.get("k") == "cast":
                        l = l["e"]
                    szl = is_member(l, "size", d) or (isinstance(l, dict) and l.get("k") == "var" and l["id"] in holds_size)
                    if szl and c["r"].get("k") == "int":
                        lo = c["r"]["v"] + (1 if c["op"] == ">" else 0)      # size >= lo
                        if lo >= need_gt + 1:
                            return True
            return False
        for b in fn["blocks"]:
            adv_buf, adv_size = [], []
            for el in b["elems"]:
                e = el["e"]
                if e.get("k") == "call" and e.get("callee") in ("memcpy", "memset", "vsnprintf", "__builtin_memcpy", "__builtin_memset",
                                                                "strcpy", "strncpy", "memmove", "__gmp_replacement_vsnprintf") \
                        and e["args"] and is_member(e["args"][0], "buf", d):
                    res["stats"]["buffer_writes"] += 1
                    li = 1 if "vsnprintf" in e["callee"] else 2
                    ln = e["args"][li] if li < len(e["args"]) else None
                    while isinstance(ln, dict) and ln.get("k") == "cast":
                        ln = ln["e"]
                    bounded = isinstance(ln, dict) and ln.get("k") == "var" and \
                        (ln["id"] in min_vars or ("vsnprintf" in e["callee"] and ln["id"] in holds_size))
                    if e["callee"] in ("strcpy",):
                        bounded = False
                    if not bounded:
                        F.append(Finding(prop, "R-PRINTF", fn["file"], el["line"], fn["name"], "unbounded-write:%s" % e["callee"],
                                         "%s writes into d->buf with a length that is not MIN (d->size - 1, ...) (line %d): gmp_snprintf may "
                                         "write past the caller's buffer" % (e["callee"], el["line"])))
                    if not guard_ok(b["id"], 1):
                        F.append(Finding(prop, "R-PRINTF", fn["file"], el["line"], fn["name"], "unguarded-write:%s" % e["callee"],
                                         "%s into d->buf at line %d is not dominated by a test that d->size > 1" % (e["callee"], el["line"])))

                def g(n, el=el, b=b):
                    if n.get("k") == "binop" and n["op"] == "=" and n["l"].get("k") == "index" and is_member(n["l"]["base"], "buf", d):
                        res["stats"]["buffer_writes"] += 1
                        ix = n["l"]["idx"]
                        if not (ix.get("k") == "int" and ix["v"] == 0) or not guard_ok(b["id"], 0):
                            F.append(Finding(prop, "R-PRINTF", fn["file"], el["line"], fn["name"], "unguarded-store",
                                             "store to d->buf[...] at line %d is not d->buf[0] under a test d->size >= 1" % el["line"]))
                    if n.get("k") == "binop" and n["op"] in ("+=", "-=") and is_member(n["l"], "buf", d) and n["op"] == "+=":
                        adv_buf.append((el["line"], skey(n["r"])))
                    if n.get("k") == "binop" and n["op"] == "-=" and is_member(n["l"], "size", d):
                        adv_size.append((el["line"], skey(n["r"])))
                sa.walk(e, g)
            if adv_buf or adv_size:
                res["stats"]["cursor_updates"] += 1
                if sorted(k for _, k in adv_buf) != sorted(k for _, k in adv_size):
                    ln = (adv_buf or adv_size)[0][0]
                    F.append(Finding(prop, "R-PRINTF", fn["file"], ln, fn["name"], "cursor-unpaired",
                                     "d->buf and d->size are not advanced by the same amount together (line %d): later writes are bounded "
                                     "by a stale size" % ln))
        res["samples"].append(dict(rule="R-PRINTF.snprintf", function=fn["name"], size_holders=len(holds_size), min_bounded_vars=len(min_vars)))
    if res["stats"]["buffer_writes"] < 4:
        raise AnalysisBroken("R-PRINTF: only %d writes through d->buf found in snprntffuns.c (floor 4)" % res["stats"]["buffer_writes"])
    run_reset(prop, res)
    # ---- asprintf sizes (R-ALLOC.size restricted to printf/) ----------------------------------------
    ra = r_alloc.run(prop=prop, tier=tier)
    F += [f for f in ra["findings"] if "/printf/" in f.file or "/scanf/" in f.file]
    res["stats"]["alloc_sites_printf"] = ra["stats"].get("allocator_sites", 0)
    res["stats"] = dict(res["stats"])
    res["obligations"] = res["stats"]["table_slots"] + res["stats"]["buffer_writes"] * 2 + res["stats"].get("cursor_updates", 0) + res["stats"].get("reset_uses", 0)
    res["exhaustive"] = True
    return res
