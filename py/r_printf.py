"""R-PRINTF (C18): structural obligations of the formatted-I/O layer.

  tables     every doprnt_funs_t has format / memory / reps (final is optional and tested for NULL by its users),
             every gmp_doscan_funs_t has scan / step / get / unget;
  snprintf   in printf/snprntffuns.c every write through d->buf happens where d->size >= 1 is established and with a length that is at
             most d->size - 1 (resp. the remaining size for vsnprintf), and every `d->buf += n` is paired with `d->size -= n` of the
             same n - the 'never writes more than size bytes' clause.  Decided by a must-fact dataflow (v <= size - 1, v == size,
             size >= k) with min-of-two recognition for conditional expressions, branch refinement on either edge of any comparison
             of the size with a constant (`if (d->size <= 1) return` guards as well as `if (d->size > 1) {`), and summaries of
             unit-local helpers that return such a bound;
  asprintf   the buffer of gmp_asprintf_t is reallocated with its tracked `alloc` (decided by R-ALLOC.size with the
             buf/alloc invariant) - the 'allocates exactly' clause is about the final shrink to size + 1.
  reset      __gmp_doprnt and __gmp_doscan keep the flags / width / precision / base / style of the conversion being
             parsed in a local struct that they hand to the formatting functions; each '%' must start from the defaults.
             Per-field dataflow over the outer (per-conversion) loop: a field assigned inside the loop and still holding
             that value at the loop's back edge is *carried*; a carried field must be reassigned before it is read or
             before the struct is passed on - otherwise a conversion is formatted with its predecessor's settings
             ("standard conversions mixed into the format are unaffected" and the per-conversion C rules).
Byte-identity of the produced text with the C library is a value property and is not decided."""
import collections, json

import sa
from core import *
import r_divzero, r_alloc


def skey(e):
    return json.dumps(e, sort_keys=True) if isinstance(e, dict) else None


def is_member(e, field, vid=None):
    while isinstance(e, dict) and e.get("k") == "cast":
        e = e["e"]
    return isinstance(e, dict) and e.get("k") == "member" and e["field"] == field and \
        (vid is None or (e["base"].get("k") == "var" and e["base"]["id"] == vid))


def _strip(e):
    while isinstance(e, dict) and e.get("k") in ("cast", "paren"):
        e = e["e"]
    return e


def carried_fields(fn, prop, F, stats):
    """the `reset` clause on one function; returns the number of (field, use) obligations examined"""
    blocks = sa.blocks_by_id(fn)
    # the local struct whose address is passed to a callee
    cand = collections.Counter()
    for b in fn["blocks"]:
        for el in b["elems"]:
            e = el["e"]
            if e.get("k") == "call":
                for a in e.get("args", []):
                    a = _strip(a)
                    if isinstance(a, dict) and a.get("k") == "unop" and a["op"] == "&":
                        v = _strip(a["e"])
                        if v.get("k") == "var" and "struct" in v.get("ct", "") and "*" not in v.get("ct", "") and not v.get("global") \
                                and v.get("param") is None:
                            cand[(v["id"], v["name"])] += 1
    if not cand:
        return 0
    (vid, vname), _ = cand.most_common(1)[0]

    def is_field(e, vid=vid):
        e = _strip(e)
        return isinstance(e, dict) and e.get("k") == "member" and not e.get("arrow") and _strip(e["base"]).get("k") == "var" \
            and _strip(e["base"])["id"] == vid

    def passes_struct(e):
        if e.get("k") != "call":
            return False
        for a in e.get("args", []):
            a = _strip(a)
            if isinstance(a, dict) and a.get("k") == "unop" and a["op"] == "&" and _strip(a["e"]).get("k") == "var" and _strip(a["e"])["id"] == vid:
                return True
        return False
    # fields whose address is taken (value = &param.width): a store through such a pointer may assign any of them
    addr_taken, ptr_vars = set(), set()
    for b in fn["blocks"]:
        for el in b["elems"]:
            def f(n):
                if n.get("k") == "binop" and n["op"] == "=" and _strip(n["l"]).get("k") == "var":
                    r = _strip(n["r"])
                    if isinstance(r, dict) and r.get("k") == "unop" and r["op"] == "&" and is_field(r["e"]):
                        addr_taken.add(_strip(r["e"])["field"])
                        ptr_vars.add(_strip(n["l"])["id"])
            sa.walk(el["e"], f)
    dom, preds = r_divzero.dominators(fn)
    # natural loops that contain a call passing &param; the outermost is the per-conversion loop
    use_blocks = {b["id"] for b in fn["blocks"] for el in b["elems"] if passes_struct(el["e"])}
    loops = {}
    for b in fn["blocks"]:
        if b["id"] not in dom:
            continue
        for s_ in b["succs"]:
            if isinstance(s_, int) and s_ in dom.get(b["id"], ()):           # back edge b -> s_
                body, work = {s_, b["id"]}, [b["id"]]
                while work:
                    x = work.pop()
                    if x == s_:
                        continue
                    for p_ in preds.get(x, ()):
                        if p_ not in body and p_ in dom:
                            body.add(p_)
                            work.append(p_)
                loops.setdefault(s_, set()).update(body)
    loops = {h: body for h, body in loops.items() if body & use_blocks}
    if not loops:
        return 0
    header = max(loops, key=lambda h: len(loops[h]))
    body = loops[header]
    # dataflow: per field  'd' assigned in this iteration, 'c' carried from an earlier one
    IN = collections.defaultdict(set)      # block -> set of (field, 'd'|'c')
    work = [fn["entry"]]
    seen_entry = {fn["entry"]}
    reported = set()
    nuse = 0
    visited = set()
    while work:
        bid = work.pop()
        visited.add(bid)
        st = set(IN[bid])
        b = blocks[bid]
        for el in b["elems"]:
            e = el["e"]
            inloop = bid in body

            # collect reads: member occurrences that are not the target of '=' and not under '&'
            rd = []

            def walk(n, ctx):
                if not isinstance(n, dict):
                    return
                k = n.get("k")
                if k == "call" and n is not e:
                    return                        # nested calls are their own CFG elements
                if k == "unop" and n["op"] == "&" and is_field(n["e"]):
                    return
                if k == "binop" and n["op"] == "=" and is_field(n["l"]):
                    walk(n["r"], "r")
                    return
                if is_field(n) and k == "member":
                    rd.append(n["field"])
                    return
                for key, v in n.items():
                    if isinstance(v, dict):
                        walk(v, ctx)
                    elif isinstance(v, list):
                        for x in v:
                            walk(x, ctx)
            if e.get("k") == "call" and e.get("callee") in ("memcpy", "memset", "__builtin_memcpy", "__builtin_memset", "memmove") and e.get("args"):
                a0 = _strip(e["args"][0])
                if isinstance(a0, dict) and a0.get("k") == "unop" and a0["op"] == "&" and _strip(a0["e"]).get("k") == "var" and _strip(a0["e"])["id"] == vid:
                    st = {(f_, tag) for f_, tag in st if tag != "c"}       # the whole struct is overwritten: nothing is carried any more
                    continue
            if e.get("k") == "binop" and e["op"] == "=" and _strip(e["l"]).get("k") == "var" and _strip(e["l"])["id"] == vid:
                st = {(f_, tag) for f_, tag in st if tag != "c"}           # param = default_param;
                continue
            if e.get("k") == "call":
                if passes_struct(e):
                    rd = sorted({f_ for f_, tag in st if tag == "c"})
                    nuse += 1
                else:
                    for a in e.get("args", []):
                        walk(a, "r")
            else:
                walk(e, "r")
            for f_ in rd:
                nuse += 1
                if (f_, "c") in st and (f_, el["line"]) not in reported:
                    reported.add((f_, el["line"]))
                    F.append(Finding(prop, "R-PRINTF", fn["file"], el["line"], fn["name"], "carried-field:%s.%s" % (vname, f_),
                                     "%s.%s may still hold the value a previous conversion assigned to it when it is %s at line %d: it is "
                                     "set inside the per-conversion loop (header block %d) but not reset on every path from the start of the "
                                     "next conversion, so one '%%' conversion can be formatted with the settings of the one before"
                                     % (vname, f_, "passed on with &%s" % vname if e.get("k") == "call" and passes_struct(e) else "read",
                                        el["line"], header)))
            # definitions
            if e.get("k") == "binop" and e["op"] == "=":
                if is_field(e["l"]):
                    f_ = _strip(e["l"])["field"]
                    st.discard((f_, "c"))
                    if inloop:
                        st.add((f_, "d"))
                    else:
                        st.discard((f_, "d"))
                else:
                    l = _strip(e["l"])
                    if l.get("k") == "unop" and l["op"] == "*" and _strip(l["e"]).get("k") == "var" and _strip(l["e"])["id"] in ptr_vars and inloop:
                        for f_ in addr_taken:
                            st.add((f_, "d"))
            elif e.get("k") == "binop" and e["op"].endswith("=") and e["op"] not in ("==", "!=", "<=", ">=") and is_field(e["l"]) and inloop:
                st.add((_strip(e["l"])["field"], "d"))
            elif e.get("k") == "unop" and e["op"] in ("++", "--", "post++", "post--", "pre++", "pre--") and is_field(e["e"]) and inloop:
                st.add((_strip(e["e"])["field"], "d"))
        if b.get("noreturn"):
            continue
        for s_ in b["succs"]:
            if not isinstance(s_, int):
                continue
            out = st
            if s_ == header and bid in body:
                out = {(f_, "c") for f_, _ in st}
            if not out <= IN[s_] or s_ not in visited:
                IN[s_] |= out
                work.append(s_)
    stats["reset_loop_blocks"] += len(body)
    stats["reset_fields_tracked"] += len({f_ for bid in body for f_, _ in IN[bid]})
    return nuse


def run_reset(prop, res):
    F = res["findings"]
    ex = sa.export(sa.cfg_built())
    want = {"printf/doprnt.c": "__gmp_doprnt", "scanf/doscan.c": "__gmp_doscan"}
    n = 0
    for p, fn in ex.functions(lambda p: any(p.endswith(w) for w in want)):
        if fn["name"] in want.values():
            k = carried_fields(fn, prop, F, res["stats"])
            if k < 5:
                raise AnalysisBroken("R-PRINTF.reset: only %d uses of the conversion-parameter struct found in %s (floor 5)" % (k, fn["name"]))
            res["stats"]["reset_uses"] += k
            n += 1
            res["samples"].append(dict(rule="R-PRINTF.reset", function=fn["name"], uses=k))
    if n != 2:
        raise AnalysisBroken("R-PRINTF.reset: __gmp_doprnt / __gmp_doscan not both found")
    # fixtures
    fx = os.path.join(VERIF, "selftest", "fixtures", "printf_fix.c")
    exf = sa.export(sa.Config("printf-fix", units=[], extra_files=[fx]))
    got = {}
    for fn in exf.load(fx)["functions"]:
        ff = []
        carried_fields(fn, prop, ff, collections.Counter())
        got[fn["name"]] = len(ff)
    if not got.get("fix_bad_carry") or got.get("fix_good_carry") or got.get("fix_good_hoisted"):
        raise AnalysisBroken("R-PRINTF.reset fixtures: %r" % got)



# ---- snprintf: bounded writes as a small must-fact dataflow ---------------------------------------------
class _SnState:
    __slots__ = ("le1", "eq", "lo", "z")

    def __init__(self, le1=frozenset(), eq=frozenset(), lo=0, z=frozenset()):
        self.le1, self.eq, self.lo = le1, eq, lo       # vars <= size-1, vars == size, size >= lo   (all must-facts)
        self.z = z                                     # (var, k): var is 0, or var <= size-1 and size >= k  (result of a room helper)

    def key(self):
        return (self.le1, self.eq, self.lo, self.z)

    def meet(self, o):
        return _SnState(self.le1 & o.le1, self.eq & o.eq, min(self.lo, o.lo), self.z & o.z)


def _same(a, b):
    return skey(_strip(a)) == skey(_strip(b))


class _Snprintf:
    WRITERS = {"memcpy": 2, "memset": 2, "memmove": 2, "strncpy": 2, "__builtin_memcpy": 2, "__builtin_memset": 2, "__builtin_memmove": 2,
               "vsnprintf": 1, "__gmp_replacement_vsnprintf": 1, "snprintf": 1}
    UNBOUNDED = {"strcpy", "sprintf", "vsprintf", "strcat", "__builtin_strcpy"}

    def __init__(self, fn, did, summaries, prop, F, stats):
        self.fn, self.d, self.summaries, self.prop, self.F, self.stats = fn, did, summaries, prop, F, stats
        self.blocks = sa.blocks_by_id(fn)
        self.ret_le1 = True
        self.ret_zero = False
        self.ret_lo = None
        self.nret = 0
        self.seen = set()

    def is_size(self, e):
        return is_member(e, "size", self.d)

    def classify(self, e, st):
        e = _strip(e)
        if not isinstance(e, dict):
            return None
        k = e.get("k")
        if self.is_size(e):
            return "eq"
        if k == "var":
            if e["id"] in st.eq:
                return "eq"
            if e["id"] in st.le1:
                return "le1"
            for v_, k_ in st.z:
                if v_ == e["id"]:
                    return ("le1z", k_)
            return None
        if k == "int":
            return "le1" if e["v"] == 0 and st.lo >= 1 else None
        if k == "binop" and e["op"] == "-" and _strip(e["r"]).get("k") == "int" and _strip(e["r"])["v"] >= 1:
            c = self.classify(e["l"], st)
            return "le1" if c in ("eq", "le1") else None
        if k == "binop" and e["op"] in ("=", ","):
            return self.classify(e["r"], st)
        if k == "cond":
            ca, cb = self.classify(e["a"], st), self.classify(e["b"], st)
            if ca == "le1" and cb == "le1":
                return "le1"
            c = _strip(sa.strip_expect(e["c"]))
            if isinstance(c, dict) and c.get("k") == "binop" and c["op"] in ("<", "<=", ">", ">="):
                l, r = c["l"], c["r"]
                small_first = c["op"] in ("<", "<=")        # l is the smaller one when the condition holds
                # (l < r ? l : r)  /  (l > r ? r : l): the value is min (l, r), hence <= each arm
                if (small_first and _same(e["a"], l) and _same(e["b"], r)) or (not small_first and _same(e["a"], r) and _same(e["b"], l)):
                    if "le1" in (ca, cb):
                        return "le1"
            return None
        if k == "call" and e.get("callee") in self.summaries:
            kk, zlo = self.summaries[e["callee"]]
            a = _strip(e["args"][kk]) if kk < len(e.get("args", [])) else None
            if isinstance(a, dict) and a.get("k") == "var" and a["id"] == self.d:
                return "le1" if zlo is None else ("le1z", zlo)
        return None

    def report(self, line, sig, what):
        if (line, sig) in self.seen:
            return
        self.seen.add((line, sig))
        self.F.append(Finding(self.prop, "R-PRINTF", self.fn["file"], line, self.fn["name"], sig, what))

    def assign(self, var, rhs, st):
        c = self.classify(rhs, st) if rhs is not None else None
        le1, eq = st.le1 - {var}, st.eq - {var}
        z = frozenset(x for x in st.z if x[0] != var)
        if c == "le1":
            le1 |= {var}
        elif c == "eq":
            eq |= {var}
        elif isinstance(c, tuple) and c[0] == "le1z":
            z |= {(var, c[1])}
        return _SnState(le1, eq, st.lo, z)

    def elem(self, el, st):
        e, line = el["e"], el["line"]
        if e.get("k") == "call":
            cal = e.get("callee")
            args = e.get("args", [])
            if args and is_member(args[0], "buf", self.d) and (cal in self.WRITERS or cal in self.UNBOUNDED):
                self.stats["buffer_writes"] += 1
                if cal in self.UNBOUNDED:
                    self.report(line, "unbounded-write:%s" % cal, "%s writes into d->buf without a length (line %d)" % (cal, line))
                else:
                    li = self.WRITERS[cal]
                    c = self.classify(args[li], st) if li < len(args) else None
                    ok = c == "le1" or ("snprintf" in cal and c in ("eq", "le1"))
                    if isinstance(c, tuple) and c[0] == "le1z" and c[1] >= 1 and "snprintf" not in cal:
                        return st                 # a length that is 0, or within a buffer the helper saw room in: nothing or a bounded amount is written
                    if not ok:
                        self.report(line, "unbounded-write:%s" % cal,
                                    "%s writes into d->buf with a length that is not known to be at most d->size - 1 (MIN (d->size - 1, ...) or an "
                                    "equivalent) at line %d: gmp_snprintf may write past the caller's buffer" % (cal, line))
                    if st.lo < 1:
                        self.report(line, "unguarded-write:%s" % cal,
                                    "%s into d->buf at line %d is not on a path that established d->size >= 1 (d->size - 1 wraps for size 0)" % (cal, line))
                return st
            # d handed to another function as non-const: it may move the cursor
            for i, a in enumerate(args):
                a = _strip(a)
                if isinstance(a, dict) and a.get("k") == "var" and a["id"] == self.d and cal not in self.summaries:
                    ps = e.get("params", [])
                    if not (i < len(ps) and ps[i].get("pc")):
                        return _SnState()
            return st
        out = [st]

        def f(n):
            st = out[0]
            k = n.get("k")
            if k == "call" and n is not e:
                return False
            if k == "binop" and n["op"] == "=":
                l = _strip(n["l"])
                if l.get("k") == "var":
                    out[0] = self.assign(l["id"], n["r"], st)
                elif self.is_size(l):
                    out[0] = _SnState()
                elif l.get("k") == "index" and is_member(l["base"], "buf", self.d):
                    self.stats["buffer_writes"] += 1
                    ix = _strip(l["idx"])
                    ok = (ix.get("k") == "int" and ix["v"] == 0) or self.classify(ix, st) == "le1"
                    if not ok or st.lo < 1:
                        self.report(line, "unguarded-store", "store to d->buf[...] at line %d is not within d->size bytes on a path that "
                                    "established d->size >= 1" % line)
                return False
            if k == "binop" and n["op"].endswith("=") and n["op"] not in ("==", "!=", "<=", ">="):
                l = _strip(n["l"])
                if l.get("k") == "var":
                    out[0] = _SnState(st.le1 - {l["id"]}, st.eq - {l["id"]}, st.lo, frozenset(x for x in st.z if x[0] != l["id"]))
                elif self.is_size(l):
                    cr = self.classify(n["r"], st) if n["op"] == "-=" else None
                    keep = cr == "le1"
                    if isinstance(cr, tuple) and cr[0] == "le1z":
                        out[0] = _SnState(lo=min(st.lo, 1))       # n == 0: size unchanged;  otherwise size - n >= 1
                    else:
                        out[0] = _SnState(lo=1 if keep else 0)    # size - n >= 1 when n <= size - 1
                return False
            if k == "unop" and n["op"] in ("post++", "post--", "pre++", "pre--"):
                l = _strip(n["e"])
                if l.get("k") == "var":
                    out[0] = _SnState(st.le1 - {l["id"]}, st.eq - {l["id"]}, st.lo)
                elif self.is_size(l):
                    out[0] = _SnState()
            if k == "decl":
                for d_ in n["decls"]:
                    out[0] = self.assign(d_["var"]["id"], d_.get("init"), out[0])
                return False
            if k == "return":
                self.nret += 1
                rv = _strip(n["e"]) if n.get("e") else None
                if isinstance(rv, dict) and rv.get("k") == "int" and rv["v"] == 0:
                    self.ret_zero = True                      # "no room": the caller must test the result before using it as a length
                elif n.get("e") and self.classify(n["e"], st) == "le1":
                    self.ret_lo = st.lo if self.ret_lo is None else min(self.ret_lo, st.lo)
                else:
                    self.ret_le1 = False
                return False
        sa.walk(e, f)
        return out[0]

    def refine(self, cond, truth, st):
        c = sa.strip_expect(cond)
        neg = False
        while isinstance(c, dict) and c.get("k") == "unop" and c["op"] == "!":
            c = sa.strip_expect(c["e"])
            neg = not neg
        t = truth != neg
        c = _strip(c)
        if not isinstance(c, dict):
            return st
        # n = room (d, len); if (n != 0) / if (n) / if (n > 0): the helper returned a real length, on a path where it had seen room
        zc = c
        nz = None
        if isinstance(zc, dict) and zc.get("k") == "var":
            nz = (zc["id"], t)
        elif isinstance(zc, dict) and zc.get("k") == "binop" and zc["op"] in ("!=", "==", ">") and _strip(zc["r"]).get("k") == "int" \
                and _strip(zc["r"])["v"] == 0 and _strip(zc["l"]).get("k") == "var":
            nz = (_strip(zc["l"])["id"], t if zc["op"] in ("!=", ">") else not t)
        if nz and nz[1]:
            hit = [x for x in st.z if x[0] == nz[0]]
            if hit:
                return _SnState(st.le1 | {nz[0]}, st.eq, max(st.lo, hit[0][1]), st.z - set(hit))
        if self.classify(c, st) == "eq":                         # if (d->size)
            return _SnState(st.le1, st.eq, max(st.lo, 1), st.z) if t else st
        if c.get("k") != "binop" or c["op"] not in ("<", ">", "<=", ">=", "==", "!="):
            return st
        l, r, op = c["l"], c["r"], c["op"]
        if self.classify(r, st) == "eq" and _strip(l).get("k") == "int":
            l, r, op = r, l, {"<": ">", ">": "<", "<=": ">=", ">=": "<=", "==": "==", "!=": "!="}[op]
        if self.classify(l, st) != "eq" or _strip(r).get("k") != "int":
            return st
        v = _strip(r)["v"]
        lo = st.lo
        if op == ">" and t:
            lo = max(lo, v + 1)
        elif op == ">=" and t:
            lo = max(lo, v)
        elif op == "<" and not t:
            lo = max(lo, v)
        elif op == "<=" and not t:
            lo = max(lo, v + 1)
        elif op == "!=" and t and v == 0:
            lo = max(lo, 1)
        elif op == "==" and not t and v == 0:
            lo = max(lo, 1)
        return _SnState(st.le1, st.eq, lo, st.z)

    def run(self):
        fn = self.fn
        IN = {fn["entry"]: _SnState()}
        work = {fn["entry"]}
        n = 0
        while work:
            n += 1
            if n > 5000:
                raise AnalysisBroken("R-PRINTF.snprintf: no fixpoint in %s" % fn["name"])
            bid = max(work)
            work.discard(bid)
            b = self.blocks[bid]
            st = IN[bid]
            for el in b["elems"]:
                st = self.elem(el, st)
            if b.get("noreturn"):
                continue
            t = b.get("term")
            cond = sa.effective_cond(t) if t and t.get("cond") and len(b["succs"]) == 2 else None
            for si, s_ in enumerate(b["succs"]):
                if not isinstance(s_, int) or s_ == fn["exit"]:
                    continue
                o = self.refine(cond, si == 0, st) if cond is not None else st
                cur = IN.get(s_)
                new = o if cur is None else cur.meet(o)
                if cur is None or new.key() != cur.key():
                    IN[s_] = new
                    work.add(s_)


def snprintf_clause(prop, res):
    F = res["findings"]
    ex = sa.export(sa.cfg_built())
    unit = [(p, f) for p, f in ex.functions(lambda p: p.endswith("printf/snprntffuns.c"))]
    dfns = [f for p, f in unit if any("gmp_snprintf_t" in q.get("ct", "") for q in f["params"])]
    backend = [f for f in dfns if f["params"] and "gmp_snprintf_t" in f["params"][0].get("ct", "") and "const" not in f["params"][0].get("ct", "")]
    if len(backend) < 4:
        raise AnalysisBroken("R-PRINTF: expected the 4 gmp_snprintf_* backend functions, found %d" % len(backend))
    # helper summaries: unit-local functions that return a value <= P->size - 1 for their gmp_snprintf_t parameter P
    summaries = {}
    for f in dfns:
        if not f.get("static"):
            continue
        for k, q in enumerate(f["params"]):
            if "gmp_snprintf_t" in q.get("ct", ""):
                a = _Snprintf(f, q["id"], {}, prop, [], collections.Counter())
                a.run()
                if a.nret and a.ret_le1 and (a.ret_lo is not None):
                    summaries[f["name"]] = (k, (a.ret_lo if a.ret_zero else None))
    for fn in dfns:
        if fn["name"] in summaries:
            continue
        d = [q for q in fn["params"] if "gmp_snprintf_t" in q.get("ct", "")][0]["id"]
        a = _Snprintf(fn, d, summaries, prop, F, res["stats"])
        a.run()
        # cursor pairing: d->buf and d->size advance by the same amount in the same block
        for b in fn["blocks"]:
            adv_buf, adv_size = [], []
            for el in b["elems"]:
                def g(n, el=el):
                    if n.get("k") == "binop" and n["op"] == "+=" and is_member(n["l"], "buf", d):
                        adv_buf.append((el["line"], skey(_strip(n["r"]))))
                    if n.get("k") == "binop" and n["op"] == "-=" and is_member(n["l"], "size", d):
                        adv_size.append((el["line"], skey(_strip(n["r"]))))
                sa.walk(el["e"], g)
            if adv_buf or adv_size:
                res["stats"]["cursor_updates"] += 1
                if sorted(k for _, k in adv_buf) != sorted(k for _, k in adv_size):
                    ln = (adv_buf or adv_size)[0][0]
                    F.append(Finding(prop, "R-PRINTF", fn["file"], ln, fn["name"], "cursor-unpaired",
                                     "d->buf and d->size are not advanced by the same amount together (line %d): later writes are bounded "
                                     "by a stale size" % ln))
        res["samples"].append(dict(rule="R-PRINTF.snprintf", function=fn["name"], helpers=sorted(summaries)))
    if res["stats"]["buffer_writes"] < 2:
        raise AnalysisBroken("R-PRINTF: only %d writes through d->buf found in snprntffuns.c (floor 2; today 4)" % res["stats"]["buffer_writes"])


def arg_consumption(prop, res):
    """Which arguments does each conversion of __gmp_doprnt take off the argument list?  The parser walks the va_list in step with the C
    library, which formats the standard conversions later from a saved copy: a conversion that skips an argument the C library does not
    take (or the reverse) shifts every later MPIR conversion of the same format onto the wrong argument.  For every case label of the
    conversion switch the va_arg types reachable before control comes back to the switch are classified (integer, floating, pointer to
    mpz / mpq / mpf / limbs, other pointer) and compared with what the C standard and the manual's conversion table say that character
    takes; characters that take an argument must reach at least one va_arg."""
    F = res["findings"]
    ex = sa.export(sa.cfg_built())
    fns = [f for p_, f in ex.functions(lambda p_: p_.endswith("printf/doprnt.c")) if f["name"] == "__gmp_doprnt"]
    if len(fns) != 1:
        raise AnalysisBroken("R-PRINTF: __gmp_doprnt not found")
    fn = fns[0]
    blocks = sa.blocks_by_id(fn)
    sw = None
    for b in fn["blocks"]:
        t = b.get("term")
        if t and t.get("kind") == "SwitchStmt":
            n_ = sum(1 for s_ in b["succs"] if isinstance(s_, int) and blocks[s_].get("case", {}).get("k") == "int")
            if sw is None or n_ > sw[1]:
                sw = (b, n_)
    if sw is None or sw[1] < 20:
        raise AnalysisBroken("R-PRINTF: the conversion switch of __gmp_doprnt was not found")
    swb = sw[0]

    def cls(node):
        ct = node.get("ct", "") or node.get("t", "")
        if "*" in ct:
            for k_, tag in (("__mpz_struct", "mpz"), ("__mpq_struct", "mpq"), ("__mpf_struct", "mpf")):
                if k_ in ct:
                    return tag
            if "unsigned long" in ct and "char" not in ct:
                return "limbs"
            return "ptr"
        if "double" in ct or "float" in ct:
            return "flt"
        return "int"
    INTS = {"int", "mpz", "mpq", "limbs"}
    ALLOWED = {}
    for c in "diouxX":
        ALLOWED[c] = (INTS, True)
    for c in "aAeEfgG":
        ALLOWED[c] = ({"flt", "mpf"}, True)
    ALLOWED["c"] = ({"int"}, True)
    ALLOWED["*"] = ({"int"}, True)
    for c in "sp":
        ALLOWED[c] = ({"ptr"}, True)
    ALLOWED["n"] = ({"ptr", "mpz", "mpq", "mpf", "limbs", "int"}, True)      # %Nn: limb pointer and its size
    for c in "m%":
        ALLOWED[c] = (set(), False)
    for c in "#+ '0-123456789.FNMQZhjlLqtz":
        ALLOWED[c] = (set(), False)
    # the parse cursor: the va_list variable the function's va_arg expressions step (the formatter is given another copy, last_ap)
    cnt = collections.Counter()
    for b in fn["blocks"]:
        for el in b["elems"]:
            def cv(n):
                if n.get("k") == "va_arg":
                    e_ = _strip(n.get("e") or {})
                    while isinstance(e_, dict) and e_.get("k") in ("unop", "index", "member"):
                        e_ = _strip(e_.get("e") or e_.get("base") or {})
                    if isinstance(e_, dict) and e_.get("k") == "var":
                        cnt[e_["id"]] += 1
            sa.walk(el["e"], cv)
    if not cnt:
        raise AnalysisBroken("R-PRINTF: no va_arg in __gmp_doprnt")
    cursor = cnt.most_common(1)[0][0]
    judged = 0
    for s_ in swb["succs"]:
        if not isinstance(s_, int) or blocks[s_].get("case", {}).get("k") != "int":
            continue
        v = blocks[s_]["case"]["v"]
        if not (0 < v < 128) or chr(v) not in ALLOWED:
            continue
        ch = chr(v)
        seen, todo, got, helper = set(), [s_], {}, []
        while todo:
            cur = todo.pop()
            if cur in seen or cur == swb["id"]:
                continue
            seen.add(cur)
            for el in blocks[cur]["elems"]:
                sa.walk(el["e"], lambda n: got.setdefault(cls(n), el["line"]) if n.get("k") == "va_arg" else None)

                def hands_list(n):
                    # the argument list handed to a helper (doprnt_skip_integer (&ap, type)): what it takes is not visible here
                    if n.get("k") == "call" and n.get("callee") not in ("__builtin_va_copy", "__builtin_va_end", "__builtin_va_start"):
                        for a_ in n.get("args", []):
                            hit = []
                            sa.walk(a_, lambda m_: hit.append(1) if m_.get("k") == "var" and m_["id"] == cursor else None)
                            if hit:
                                helper.append(n.get("callee"))
                sa.walk(el["e"], hands_list)
            todo += [x for x in blocks[cur]["succs"] if isinstance(x, int)]
        judged += 1
        res["stats"]["arg_consumption_cases"] += 1
        allowed, must = ALLOWED[ch]
        extra = sorted(k_ for k_ in got if k_ not in allowed)
        if extra:
            F.append(Finding(prop, "R-PRINTF", fn["file"], got[extra[0]], fn["name"], "conversion-takes-wrong-argument:%s:%s" % (ch, ",".join(extra)),
                             "the '%s' conversion reaches va_arg of class %s at line %d before the next conversion is parsed; the C library takes %s "
                             "for it, so every later conversion of the format reads the wrong argument" %
                             (ch, "/".join(extra), got[extra[0]], "/".join(sorted(allowed)) or "no argument")))
        elif must and not got and helper:
            res["stats"]["arg_consumption_undecided"] += 1
        elif must and not got:
            F.append(Finding(prop, "R-PRINTF", fn["file"], blocks[s_]["elems"][0]["line"] if blocks[s_]["elems"] else 0, fn["name"],
                             "conversion-takes-no-argument:%s" % ch,
                             "the '%s' conversion never advances the argument list, but the C library takes an argument for it: later conversions "
                             "read one argument too early" % ch))
    if judged < 20:
        raise AnalysisBroken("R-PRINTF: only %d conversion cases judged for argument consumption (floor 20)" % judged)


def conversion_coverage(prop, res):
    """Exhaustiveness: the character switch of __gmp_doprnt / __gmp_doscan has a case for every flag, width / precision character, type
    and conversion that the manual's "Formatted Output Strings" / "Formatted Input Strings" list.  A conversion without a case falls
    into `default`, and the standard conversion it belonged to - or the rest of the format - is mis-parsed ("standard conversions mixed
    into the format are unaffected")."""
    F = res["findings"]
    need = {"__gmp_doprnt": ("printf/doprnt.c", set("aAcdeEfigGnopsuxX%") | set("#+ '0-") | set("123456789*.") | set("FNMQZhjlLqtz")),
            "__gmp_doscan": ("scanf/doscan.c", set("cdeEfgGinopsuxX[%") | set("*0123456789") | set("FQZhjlLqtz"))}
    ex = sa.export(sa.cfg_built())
    for name, (suffix, req) in need.items():
        fns = [f for p_, f in ex.functions(lambda p_: p_.endswith(suffix)) if f["name"] == name]
        if len(fns) != 1:
            raise AnalysisBroken("R-PRINTF: %s not found" % name)
        fn = fns[0]
        blocks = sa.blocks_by_id(fn)
        best = None
        for b in fn["blocks"]:
            t = b.get("term")
            if t and t.get("kind") == "SwitchStmt":
                vals = set()
                for s_ in b["succs"]:
                    if isinstance(s_, int) and blocks[s_].get("case", {}).get("k") == "int":
                        vals.add(blocks[s_]["case"]["v"])
                if best is None or len(vals) > len(best[0]):
                    best = (vals, t.get("line", 0))
        if best is None or len(best[0]) < 20:
            raise AnalysisBroken("R-PRINTF: the conversion switch of %s was not found" % name)
        have = {chr(v) for v in best[0] if 0 < v < 128}
        # characters the function recognises by comparing the dispatch variable instead of a case label: fchar == 'x', a range test
        # (fchar >= '1' && fchar <= '9'), isdigit (fchar)
        swvar = None
        for b in fn["blocks"]:
            t = b.get("term")
            if t and t.get("kind") == "SwitchStmt" and t.get("line") == best[1]:
                c_ = _strip(t.get("cond") or {})
                if isinstance(c_, dict) and c_.get("k") == "var":
                    swvar = c_["id"]
        if swvar is not None:
            los, his = [], []
            for b in fn["blocks"]:
                for el in b["elems"]:
                    def cmpf(n):
                        if n.get("k") == "binop" and n["op"] in ("==", ">=", "<=", ">", "<"):
                            l, r = _strip(n["l"]), _strip(n["r"])
                            if l.get("k") == "var" and l["id"] == swvar and r.get("k") == "int" and 0 < r["v"] < 128:
                                if n["op"] == "==":
                                    have.add(chr(r["v"]))
                                elif n["op"] in (">=", ">"):
                                    los.append(r["v"] + (1 if n["op"] == ">" else 0))
                                else:
                                    his.append(r["v"] - (1 if n["op"] == "<" else 0))
                        if n.get("k") == "call" and n.get("callee") == "__ctype_b_loc" and "isdigit" in (n.get("m") or []):
                            have.update("0123456789")
                    sa.walk(el["e"], cmpf)
            for lo in los:
                for hi in his:
                    if lo <= hi and hi - lo <= 9:
                        have.update(chr(x) for x in range(lo, hi + 1))
        res["stats"]["conversion_cases"] += len(req)
        for ch in sorted(req - have):
            F.append(Finding(prop, "R-PRINTF", fn["file"], best[1], name, "conversion-without-case:%s" % ch,
                             "the switch at line %d of %s has no case for %r, which the manual lists: the format is mis-parsed from there on"
                             % (best[1], name, ch)))
        res["samples"].append(dict(rule="R-PRINTF.coverage", function=name, cases="".join(sorted(have))))


def asprintf_headroom(prop, res):
    """gmp_asprintf_t keeps one byte of headroom for the terminating NUL (the macro's own ASSERT: alloc >= size + 1).  Every expansion of
    GMP_ASPRINTF_T_NEED (d, n) decides with one comparison whether to grow; on the edge that does NOT grow, the comparison must entail
    alloc >= size + n + 1 - otherwise n more bytes plus the NUL that __gmp_asprintf_final stores no longer fit ("allocates exactly
    length + 1 bytes" presupposes the NUL lands inside the block)."""
    import r_contract
    F = res["findings"]
    ex = sa.export(sa.cfg_built())
    n = 0
    for path, fn in ex.functions(lambda p: "/printf/" in p):
        for b in fn["blocks"]:
            t = b.get("term")
            if not t or not t.get("cond") or len(b["succs"]) != 2 or "GMP_ASPRINTF_T_NEED" not in (t.get("m") or []):
                continue
            if "ASSERT" in (t.get("m") or []):
                continue
            c0 = _strip(sa.strip_expect(sa.effective_cond(t)))
            if not (isinstance(c0, dict) and c0.get("k") == "binop" and c0["op"] in ("<", ">", "<=", ">=", "==", "!=")):
                continue                   # the `while (0)` of the macro's do-block
            # the macro's locals (alloc = d->alloc, newsize = d->size + n - assigned or initialised, under any names) are replaced by their
            # definitions; d->alloc and d->size become symbols, and so does any other non-linear operand (the n argument)
            defs = collections.defaultdict(list)
            n_expr = None
            for b2 in fn["blocks"]:
                for el in b2["elems"]:
                    if "GMP_ASPRINTF_T_NEED" not in (el.get("m") or []) or el["line"] != t.get("line", el["line"]):
                        continue
                    def dfn(m_):
                        nonlocal n_expr
                        if m_.get("k") == "binop" and m_["op"] == "=" and _strip(m_["l"]).get("k") == "var":
                            defs[_strip(m_["l"])["id"]].append(m_["r"])
                        if m_.get("k") == "decl":
                            for d_ in m_["decls"]:
                                if "init" in d_:
                                    defs[d_["var"]["id"]].append(d_["init"])
                        if m_.get("k") == "binop" and m_["op"] == "+" and n_expr is None:
                            for x_, y_ in ((m_["l"], m_["r"]), (m_["r"], m_["l"])):
                                if isinstance(_strip(x_), dict) and _strip(x_).get("k") == "member" and _strip(x_)["field"] == "size":
                                    n_expr = y_
                    sa.walk(el["e"], dfn)
            syms = {}

            def lin2(e, depth=0):
                e = _strip(e)
                if not isinstance(e, dict):
                    return None
                k_ = e.get("k")
                if k_ == "int":
                    return r_contract.T(e["v"])
                if k_ == "member" and e["field"] in ("alloc", "size"):
                    return r_contract.T(0, [(("v", -1 if e["field"] == "alloc" else -2), 1)])
                if k_ == "var" and len(defs.get(e["id"], ())) == 1 and depth < 4:
                    return lin2(defs[e["id"]][0], depth + 1)
                if k_ == "binop" and e["op"] in ("+", "-"):
                    l_, r_ = lin2(e["l"], depth), lin2(e["r"], depth)
                    return None if l_ is None or r_ is None else r_contract.tadd(l_, r_, 1 if e["op"] == "+" else -1)
                if k_ == "binop" and e["op"] == "*":
                    l_, r_ = lin2(e["l"], depth), lin2(e["r"], depth)
                    if l_ is not None and r_contract.tconst(l_) is not None and r_ is not None:
                        return r_contract.tscale(r_, r_contract.tconst(l_))
                    if r_ is not None and r_contract.tconst(r_) is not None and l_ is not None:
                        return r_contract.tscale(l_, r_contract.tconst(r_))
                key_ = skey(e)
                syms.setdefault(key_, -10 - len(syms))
                return r_contract.T(0, [(("v", syms[key_]), 1)])
            cond = sa.effective_cond(t)
            n += 1
            res["stats"]["asprintf_need_sites"] += 1
            if n_expr is None:
                raise AnalysisBroken("R-PRINTF: cannot find `d->size + n` in the GMP_ASPRINTF_T_NEED expansion at %s:%d" % (relpath(path), t.get("line", 0)))
            # which successor grows?  the one that stores d->alloc
            def stores_alloc(bid):
                blk = sa.blocks_by_id(fn)[bid]
                hit = []
                for el in blk["elems"]:
                    sa.walk(el["e"], lambda m_: hit.append(1) if m_.get("k") == "binop" and m_["op"] == "=" and _strip(m_["l"]).get("k") == "member"
                            and _strip(m_["l"])["field"] == "alloc" else None)
                return bool(hit)
            s0, s1 = b["succs"]
            grow_true = isinstance(s0, int) and stores_alloc(s0)
            grow_false = isinstance(s1, int) and stores_alloc(s1)
            if grow_true == grow_false:
                raise AnalysisBroken("R-PRINTF: cannot tell the growing edge of GMP_ASPRINTF_T_NEED at %s:%d" % (relpath(path), t.get("line", 0)))
            # facts on the edge that skips the reallocation, over the symbols alloc (-1), size (-2) and the n argument
            cc, truth_ = _strip(sa.strip_expect(cond)), not grow_true
            while isinstance(cc, dict) and cc.get("k") == "unop" and cc["op"] == "!":
                cc, truth_ = _strip(sa.strip_expect(cc["e"])), not truth_
            facts = None
            if isinstance(cc, dict) and cc.get("k") == "binop" and cc["op"] in ("<", ">", "<=", ">=", "==", "!="):
                l_, r_ = lin2(cc["l"]), lin2(cc["r"])
                if l_ is not None and r_ is not None:
                    op_ = cc["op"] if truth_ else {"<": ">=", ">": "<=", "<=": ">", ">=": "<", "==": "!=", "!=": "=="}[cc["op"]]
                    d_ = r_contract.tadd(l_, r_, -1)
                    facts = {">=": [d_], ">": [r_contract.tadd(d_, r_contract.T(-1))], "<=": [r_contract.tscale(d_, -1)],
                             "<": [r_contract.tadd(r_contract.tscale(d_, -1), r_contract.T(-1))],
                             "==": [d_, r_contract.tscale(d_, -1)], "!=": []}[op_]
            nt = lin2(n_expr)
            need = r_contract.tadd(r_contract.tadd(r_contract.tadd(r_contract.T(-1), r_contract.T(0, [(("v", -1), 1)])),
                                                   r_contract.T(0, [(("v", -2), 1)]), -1), nt, -1)         # alloc - size - n - 1 >= 0
            if facts is None or not r_contract.implies(facts, need):
                F.append(Finding(prop, "R-PRINTF", path, t.get("line", 0), fn["name"], "asprintf-headroom",
                                 "in %s the test that skips the reallocation in GMP_ASPRINTF_T_NEED does not entail alloc >= size + n + 1: "
                                 "when the output so far plus the new piece equals the allocation exactly, the terminating NUL of "
                                 "__gmp_asprintf_final is stored one byte past the block" % fn["name"]))
    if n < 1:
        raise AnalysisBroken("R-PRINTF: no expansion of GMP_ASPRINTF_T_NEED found (floor 1; today 3)")


def run(prop="C18", tier="quick"):
    res = dict(findings=[], stats=collections.Counter(), samples=[], notes=[])
    F = res["findings"]
    facts = ir_facts()
    # ---- function tables -------------------------------------------------------------------------
    spec = {"struct.doprnt_funs_t": (("format", 1), ("memory", 1), ("reps", 1), ("final", 0)),
            "struct.gmp_doscan_funs_t": (("scan", 1), ("step", 1), ("get", 1), ("unget", 1))}
    ntab = 0
    for g in facts["globals"]:
        for sname, slots in spec.items():
            if sname in g["type"] and g["constant"] and "init" in g and not g["type"].startswith("["):
                ntab += 1
                file = g["loc"].rpartition(":")[0]
                for i, (nm, required) in enumerate(slots):
                    v = g["init"][i] if i < len(g["init"]) else None
                    res["stats"]["table_slots"] += 1
                    ok = isinstance(v, dict) and ("ref" in v or v.get("expr"))
                    if required and not ok:
                        F.append(Finding(prop, "R-PRINTF", file, 0, g["name"], "null-slot:%s:%s" % (g["name"], nm),
                                         "function table %s has no %s function; __gmp_do%s calls it unconditionally"
                                         % (g["name"], nm, "prnt" if "doprnt" in sname else "scan")))
                res["samples"].append(dict(rule="R-PRINTF.tables", table=g["name"], file=relpath(file)))
    if ntab < 7:
        raise AnalysisBroken("R-PRINTF: only %d printf/scanf function tables found (floor 7)" % ntab)
    # back ends that write a C string need the `final` step that stores the terminating NUL (an empty format reaches no other callback)
    for g in facts["globals"]:
        if "struct.doprnt_funs_t" in g["type"] and g["constant"] and "init" in g and any(k in g["name"] for k in ("sprintf", "snprintf")):
            v = g["init"][3] if len(g["init"]) > 3 else None
            res["stats"]["table_slots"] += 1
            if not (isinstance(v, dict) and ("ref" in v or v.get("expr"))):
                F.append(Finding(prop, "R-PRINTF", g["loc"].rpartition(":")[0], 0, g["name"], "string-backend-without-final:%s" % g["name"],
                                 "function table %s writes a C string but has no `final` function: with an empty format (or one made of %%n "
                                 "conversions) nothing stores the terminating NUL" % g["name"]))
    # character sources of the scanf layer return an unsigned char value or EOF, never a negative char (0xFF must not look like EOF)
    ex0 = sa.export(sa.cfg_built())
    byname = {f["name"]: (p_, f) for p_, f in ex0.functions(lambda p_: "/scanf/" in p_)}
    for g in facts["globals"]:
        if "struct.gmp_doscan_funs_t" in g["type"] and g["constant"] and "init" in g and len(g["init"]) > 2:
            v = g["init"][2]
            ref = v.get("ref") if isinstance(v, dict) else None
            if ref and ref.split(".")[0] in byname:
                p_, fn = byname[ref.split(".")[0]]
                defs = collections.defaultdict(list)
                rets = []
                for b in fn["blocks"]:
                    for el in b["elems"]:
                        def h(n, el=el):
                            if n.get("k") == "binop" and n["op"] == "=" and n["l"].get("k") == "var":
                                defs[n["l"]["id"]].append(n["r"])
                            if n.get("k") == "decl":
                                for d_ in n["decls"]:
                                    if "init" in d_:
                                        defs[d_["var"]["id"]].append(d_["init"])
                            if n.get("k") == "return" and n.get("e"):
                                rets.append((el["line"], n["e"]))
                        sa.walk(el["e"], h)

                def bytey(e, depth=0):
                    while isinstance(e, dict) and e.get("k") == "cast" and e.get("ct") in ("int", "unsigned int", "long"):
                        e = e["e"]
                    if not isinstance(e, dict) or depth > 3:
                        return False
                    if e.get("k") == "int":
                        return -1 <= e["v"] <= 255
                    if e.get("k") == "cast":
                        return e.get("ct") == "unsigned char"
                    if e.get("k") == "call":
                        return e.get("callee") in ("getc", "fgetc", "_IO_getc", "getc_unlocked", "fgetc_unlocked")
                    if e.get("k") == "unop" and e["op"] == "*":
                        x = e["e"]
                        while isinstance(x, dict) and x.get("k") in ("unop",) and x["op"] in ("post++", "pre++"):
                            x = x["e"]
                        return isinstance(x, dict) and "unsigned char *" in x.get("ct", "")
                    if e.get("k") == "var":
                        if e.get("ct") == "unsigned char":
                            return True
                        ds = defs.get(e["id"], [])
                        return bool(ds) and all(bytey(d_, depth + 1) for d_ in ds)
                    if e.get("k") == "cond":
                        return bytey(e["a"], depth + 1) and bytey(e["b"], depth + 1)
                    return False
                for line, e in rets:
                    res["stats"]["table_slots"] += 1
                    if not bytey(e):
                        F.append(Finding(prop, "R-PRINTF", p_, line, fn["name"], "scan-get-not-byte",
                                         "the character source %s of %s returns a value at line %d that is not an unsigned char (or EOF): a byte "
                                         ">= 0x80 comes back negative, 0xFF equal to EOF, and the scanner stops or mis-parses there" % (fn["name"], g["name"], line)))
    # ---- snprintf backend --------------------------------------------------------------------------
    snprintf_clause(prop, res)
    run_reset(prop, res)
    asprintf_headroom(prop, res)
    conversion_coverage(prop, res)
    arg_consumption(prop, res)
    # ---- asprintf sizes (R-ALLOC.size restricted to printf/) ----------------------------------------
    ra = r_alloc.run(prop=prop, tier=tier)
    F += [f for f in ra["findings"] if "/printf/" in f.file or "/scanf/" in f.file]
    res["stats"]["alloc_sites_printf"] = ra["stats"].get("allocator_sites", 0)
    res["stats"] = dict(res["stats"])
    res["obligations"] = res["stats"]["table_slots"] + res["stats"]["buffer_writes"] * 2 + res["stats"].get("cursor_updates", 0) + res["stats"].get("reset_uses", 0) + res["stats"].get("asprintf_need_sites", 0) + res["stats"].get("conversion_cases", 0)
    res["exhaustive"] = True
    return res
