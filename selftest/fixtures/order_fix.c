/* Fixtures for R-ORDER.  Compiled only by the analyser. */
#include "mpir.h"
#include "gmp-impl.h"

/* negative: a correct comparison with an unsigned scalar */
int
fix_order_good_cmp_ui (mpz_srcptr u, mpir_ui v)
{
  mp_size_t un = SIZ (u);
  if (un == 0)
    return -(v != 0);
  if (un == 1)
    {
      mp_limb_t ul = PTR (u)[0];
      if (ul > v)
        return 1;
      if (ul < v)
        return -1;
      return 0;
    }
  return un > 0 ? 1 : -1;
}

/* positive: a negative one-limb number is compared by its limb */
int
fix_order_bad_cmp_ui (mpz_srcptr u, mpir_ui v)
{
  mp_size_t un = SIZ (u);
  if (un == 0)
    return -(v != 0);
  if (un == 1 || un == -1)
    {
      mp_limb_t ul = PTR (u)[0];
      if (ul > v)
        return 1;
      if (ul < v)
        return -1;
      return 0;
    }
  return un > 0 ? 1 : -1;
}

/* positive: for two negative one-limb values the order of the magnitudes is not reversed */
int
fix_order_bad_cmp_si (mpz_srcptr u, mpir_si v)
{
  mp_size_t usize = SIZ (u);
  mp_size_t vsize = 0;
  mp_limb_t ul;
  if (v > 0)
    vsize = 1;
  else if (v < 0)
    {
      vsize = -1;
      v = -v;
    }
  if (usize != vsize)
    return usize - vsize;
  if (usize == 0)
    return 0;
  ul = PTR (u)[0];
  if (ul == (mp_limb_t) (mpir_ui) v)
    return 0;
  if (ul > (mp_limb_t) (mpir_ui) v)
    return 1;
  else
    return -1;
}

/* negative */
int
fix_order_good_fits (mpz_srcptr z)
{
  mp_size_t n = SIZ (z);
  mp_limb_t limb = PTR (z)[0];
  if (n == 0)
    return 1;
  if (n == 1)
    return limb <= INT_MAX;
  if (n == -1)
    return limb <= - (mp_limb_t) INT_MIN;
  return 0;
}

/* positive: the negative side uses the positive limit (INT_MIN itself no longer fits) */
int
fix_order_bad_fits (mpz_srcptr z)
{
  mp_size_t n = SIZ (z);
  mp_limb_t limb = PTR (z)[0];
  if (n == 0)
    return 1;
  if (n == 1)
    return limb <= INT_MAX;
  if (n == -1)
    return limb <= INT_MAX;
  return 0;
}

/* negative: the same predicate written with a switch on the size */
int
fix_order_good_switch (mpz_srcptr z)
{
  mp_limb_t limb = PTR (z)[0];
  switch (SIZ (z))
    {
    case 0:
      return 1;
    case 1:
      return limb <= INT_MAX;
    case -1:
      return limb <= - (mp_limb_t) INT_MIN;
    default:
      return 0;
    }
}

/* positive: the switch forgets the negative side */
int
fix_order_bad_switch (mpz_srcptr z)
{
  mp_limb_t limb = PTR (z)[0];
  switch (SIZ (z))
    {
    case 0:
      return 1;
    case 1:
    case -1:
      return limb <= INT_MAX;
    default:
      return 0;
    }
}

/* negative: the one-limb comparison moved into a helper of the unit */
static int
fix_order_cmp1 (mp_limb_t a, mp_limb_t b)
{
  return (a > b) - (a < b);
}

int
fix_order_good_helper (mpz_srcptr u, mpir_ui v)
{
  mp_size_t un = SIZ (u);
  if (un == 0)
    return -(v != 0);
  if (un == 1)
    return fix_order_cmp1 (PTR (u)[0], v);
  return un > 0 ? 1 : -1;
}
