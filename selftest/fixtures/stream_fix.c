/* Fixtures for R-STREAM.  Compiled only by the analyser. */
#include <stdio.h>
#include <string.h>
#include "mpir.h"
#include "gmp-impl.h"

/* the form printf/printffuns.c had before fix: d719819 */
int
fix_old_fprintf_memory (FILE *fp, const char *str, size_t len)
{
  return fwrite (str, 1, len, fp);
}

int
fix_old_fprintf_reps (FILE *fp, int c, int reps)
{
  char  buf[256];
  int   i, piece, ret;
  memset (buf, c, MIN (reps, sizeof (buf)));
  for (i = reps; i > 0; i -= sizeof (buf))
    {
      piece = MIN (i, sizeof (buf));
      ret = fwrite (buf, 1, piece, fp);
      if (ret == -1)
        return ret;
    }
  return reps;
}

/* returns the byte count without looking at the stream */
size_t
fix_raw_count (FILE *fp, const char *p, size_t n)
{
  size_t written = fwrite (p, 1, n, fp);
  fputc ('\n', fp);
  return written + 1;
}

/* second read unchecked */
size_t
fix_fread_short (FILE *fp, unsigned char *hdr, unsigned char *body, size_t n)
{
  if (fread (hdr, 4, 1, fp) != 1)
    return 0;
  fread (body, n, 1, fp);
  return n + 4;
}

size_t
fix_good_ferror (FILE *fp, const char *p, size_t n)
{
  size_t written = 0;
  if (n != 0)
    {
      fputc ('-', fp);
      written = 1;
    }
  written += fwrite (p, 1, n, fp);
  return ferror (fp) ? 0 : written;
}

int
fix_good_count (FILE *fp, const char *p, size_t n)
{
  if (fwrite (p, 1, n, fp) != n)
    return -1;
  return n;
}

size_t
fix_good_zeroed (FILE *fp, const char *p, size_t n)
{
  size_t w = n;
  if (fwrite (p, n, 1, fp) != 1)
    w = 0;
  return w;
}

/* negative: the outcome goes through a temporary and a conditional expression */
size_t
fix_stream_cond_expr (FILE *fp, const char *buf, size_t n)
{
  size_t nitems, ret;
  nitems = fwrite (buf, n, 1, fp);
  ret = (nitems == 1 ? n : 0);
  return ret;
}

/* positive: same shape, but the failure arm also reports the byte count */
size_t
fix_stream_cond_expr_bad (FILE *fp, const char *buf, size_t n)
{
  size_t nitems, ret;
  nitems = fwrite (buf, n, 1, fp);
  ret = (nitems == 1 ? n : n - 1);
  return ret;
}
