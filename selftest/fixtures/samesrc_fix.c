/* fixtures for R-SAMESRC; compiled only by the analyser */
#include "mpir.h"
#include "gmp-impl.h"

extern void fx_sqr (mp_ptr, mp_srcptr, mp_size_t);
extern void fx_mul (mp_ptr, mp_srcptr, mp_size_t, mp_srcptr, mp_size_t);

void
fix_samesrc_bad (mp_ptr rp, mp_srcptr up, mp_size_t un, mp_srcptr vp, mp_size_t vn)
{
  if (up == vp)
    fx_sqr (rp, up, un);
  else
    fx_mul (rp, up, un, vp, vn);
}

void
fix_samesrc_good (mp_ptr rp, mp_srcptr up, mp_size_t un, mp_srcptr vp, mp_size_t vn)
{
  int sqr = (up == vp && un == vn);
  if (sqr)
    fx_sqr (rp, up, un);
  else
    fx_mul (rp, up, un, vp, vn);
}

void
fix_samesrc_good_outer (mp_ptr rp, mp_srcptr up, mp_size_t un, mp_srcptr vp, mp_size_t vn)
{
  if (un == vn)
    {
      if (up != vp)
        fx_mul (rp, up, un, vp, vn);
      else
        fx_sqr (rp, up, un);
      return;
    }
  fx_mul (rp, up, un, vp, vn);
}

void
fix_samesrc_one_len (mp_ptr rp, mp_srcptr up, mp_srcptr vp, mp_size_t n)
{
  if (up == vp)
    fx_sqr (rp, up, n);
  else
    fx_mul (rp, up, n, vp, n);
}
