/* Fixtures for R-DIVZERO.  Compiled only by the analyser. */
#include "mpir.h"
#include "gmp-impl.h"

mpir_ui
fix_div_noguard (mpz_ptr quot, mpz_srcptr dividend, mpir_ui divisor)
{
  mp_size_t nn = ABSIZ (dividend);
  if (nn == 0)
    return 0;
  MPZ_REALLOC (quot, nn);
  return mpn_divrem_1 (PTR (quot), (mp_size_t) 0, PTR (dividend), nn, (mp_limb_t) divisor);
}

mpir_ui
fix_div_late_guard (mpz_ptr quot, mpz_srcptr dividend, mpir_ui divisor)
{
  mp_size_t nn = ABSIZ (dividend);
  mp_limb_t r;
  if (nn == 0)
    return 0;
  MPZ_REALLOC (quot, nn);
  r = mpn_divrem_1 (PTR (quot), (mp_size_t) 0, PTR (dividend), nn, (mp_limb_t) divisor);
  if (divisor == 0)
    DIVIDE_BY_ZERO;
  return r;
}

mpir_ui
fix_div_good (mpz_ptr quot, mpz_srcptr dividend, mpir_ui divisor)
{
  mp_size_t nn;
  if (UNLIKELY (divisor == 0))
    DIVIDE_BY_ZERO;
  nn = ABSIZ (dividend);
  if (nn == 0)
    return 0;
  MPZ_REALLOC (quot, nn);
  return mpn_divrem_1 (PTR (quot), (mp_size_t) 0, PTR (dividend), nn, (mp_limb_t) divisor);
}

void
fix_div_deleg (mpz_ptr quot, mpz_srcptr dividend, mpz_srcptr divisor)
{
  mpz_t rem;
  mpz_init (rem);
  mpz_tdiv_qr (quot, rem, dividend, divisor);
  mpz_clear (rem);
}

/* negative: the zero test is worded on |size|, which cannot be negative */
void
fix_div_abs_lt1 (mpz_ptr rem, mpz_srcptr dividend, mpz_srcptr divisor)
{
  mp_size_t dn = ABSIZ (divisor);
  mp_size_t nn = ABSIZ (dividend);
  if (UNLIKELY (dn < 1))
    DIVIDE_BY_ZERO;
  if (nn == 0)
    {
      SIZ (rem) = 0;
      return;
    }
  MPZ_REALLOC (rem, 1);
  PTR (rem)[0] = mpn_mod_1 (PTR (dividend), nn, PTR (divisor)[0]);
  SIZ (rem) = PTR (rem)[0] != 0;
}

/* positive: `size < 1` on the signed size is not a zero test (every negative divisor would trap, and the rule must not take it for one) */
void
fix_div_signed_lt1 (mpz_ptr rem, mpz_srcptr dividend, mpz_srcptr divisor)
{
  mp_size_t dn = SIZ (divisor);
  mp_size_t nn = ABSIZ (dividend);
  if (UNLIKELY (dn < 1))
    DIVIDE_BY_ZERO;
  if (nn == 0)
    {
      SIZ (rem) = 0;
      return;
    }
  MPZ_REALLOC (rem, 1);
  PTR (rem)[0] = mpn_mod_1 (PTR (dividend), nn, PTR (divisor)[0]);
  SIZ (rem) = PTR (rem)[0] != 0;
}

/* negative: the divisor is tested through a local pointer that names it */
void
fix_div_alias_good (mpz_ptr rem, mpz_srcptr dividend, mpz_srcptr divisor)
{
  const mpz_srcptr dd = divisor;
  mp_size_t nn = ABSIZ (dividend);
  if (SIZ (dd) == 0)
    DIVIDE_BY_ZERO;
  MPZ_REALLOC (rem, 1);
  PTR (rem)[0] = nn == 0 ? 0 : mpn_mod_1 (PTR (dividend), nn, PTR (dd)[0]);
  SIZ (rem) = PTR (rem)[0] != 0;
}

/* positive: the local pointer names the dividend - the divisor is never tested */
void
fix_div_alias_bad (mpz_ptr rem, mpz_srcptr dividend, mpz_srcptr divisor)
{
  const mpz_srcptr dd = dividend;
  mp_size_t nn = ABSIZ (dividend);
  if (SIZ (dd) == 0)
    DIVIDE_BY_ZERO;
  MPZ_REALLOC (rem, 1);
  PTR (rem)[0] = mpn_mod_1 (PTR (dividend), nn, PTR (divisor)[0]);
  SIZ (rem) = PTR (rem)[0] != 0;
}

/* a helper that traps on a zero divisor */
static void
fix_check_divisor (mpz_srcptr d)
{
  if (UNLIKELY (SIZ (d) == 0))
    DIVIDE_BY_ZERO;
}

/* negative: the helper is called with the divisor before anything divides */
void
fix_div_helper_good (mpz_ptr rem, mpz_srcptr dividend, mpz_srcptr divisor)
{
  mp_size_t nn = ABSIZ (dividend);
  fix_check_divisor (divisor);
  MPZ_REALLOC (rem, 1);
  PTR (rem)[0] = nn == 0 ? 0 : mpn_mod_1 (PTR (dividend), nn, PTR (divisor)[0]);
  SIZ (rem) = PTR (rem)[0] != 0;
}

/* positive: the helper is called with the DIVIDEND */
void
fix_div_helper_bad (mpz_ptr rem, mpz_srcptr dividend, mpz_srcptr divisor)
{
  mp_size_t nn = ABSIZ (dividend);
  fix_check_divisor (dividend);
  MPZ_REALLOC (rem, 1);
  PTR (rem)[0] = mpn_mod_1 (PTR (dividend), nn, PTR (divisor)[0]);
  SIZ (rem) = PTR (rem)[0] != 0;
}
