/* Fixtures for R-MPFZERO.  Compiled only by the analyser. */
#include "mpir.h"
#include "gmp-impl.h"

/* positive: zero result without resetting the exponent */
void
fix_mpfzero_bad (mpf_ptr r, mpf_srcptr u)
{
  if (SIZ (u) == 0)
    {
      SIZ (r) = 0;
      return;
    }
  mpf_set (r, u);
}

/* positive: one of two paths forgets it */
void
fix_mpfzero_bad_path (mpf_ptr r, mpf_srcptr u, int flag)
{
  if (SIZ (u) == 0)
    {
      SIZ (r) = 0;
      if (flag)
        EXP (r) = 0;
      return;
    }
  mpf_set (r, u);
}

/* negative */
void
fix_mpfzero_good (mpf_ptr r, mpf_srcptr u)
{
  if (SIZ (u) == 0)
    {
      SIZ (r) = 0;
      EXP (r) = 0;
      return;
    }
  mpf_set (r, u);
}

/* negative: exponent first, and a later non-zero size overrides the zero */
void
fix_mpfzero_good_order (mpf_ptr r, mpf_srcptr u)
{
  mpf_ptr x = r;
  EXP (x) = 0;
  SIZ (x) = 0;
  if (SIZ (u) != 0)
    {
      PTR (x)[0] = 1;
      SIZ (x) = 1;
      EXP (x) = 1;
    }
}

/* negative: the zero is only an intermediate state - a callee that receives r as destination sets both fields afterwards */
void
fix_mpfzero_good_callee (mpf_ptr r, mpf_srcptr u)
{
  SIZ (r) = 0;
  mpf_add_ui (r, u, 1);
}
