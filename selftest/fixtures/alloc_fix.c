/* Fixtures for R-ALLOC.size / R-ALLOC.pair.  Compiled only by the analyser. */
#include <stdio.h>
#include <string.h>
#include "mpir.h"
#include "gmp-impl.h"

/* frees with the used size, not the allocated size */
void
fix_free_wrong_size (mpz_srcptr x)
{
  size_t alloc_size = ABSIZ (x) * 20 + 3;
  size_t str_size;
  char *str = (char *) (*__gmp_allocate_func) (alloc_size);
  mpz_get_str (str, 10, x);
  str_size = strlen (str);
  (*__gmp_free_func) (str, str_size);
}

/* shortcut forgets to clear the temporary */
int
fix_leak_local (mpz_ptr r, mpz_srcptr a, mpz_srcptr b)
{
  mpz_t t;
  mpz_init (t);
  mpz_mul (t, a, b);
  if (SIZ (t) == 0)
    return 0;
  mpz_add (r, t, a);
  mpz_clear (t);
  return 1;
}

/* early return between allocation and free */
int
fix_leak_block (mpz_ptr r, const char *s, size_t n)
{
  char *buf = (char *) (*__gmp_allocate_func) (n + 1);
  memcpy (buf, s, n);
  buf[n] = 0;
  if (mpz_set_str (r, buf, 10) != 0)
    return -1;
  (*__gmp_free_func) (buf, n + 1);
  return 0;
}

/* negative twin */
int
fix_alloc_good (mpz_ptr r, const char *s, size_t n)
{
  mpz_t t;
  int ret;
  char *buf = (char *) (*__gmp_allocate_func) (n + 1);
  memcpy (buf, s, n);
  buf[n] = 0;
  mpz_init (t);
  ret = mpz_set_str (t, buf, 10);
  (*__gmp_free_func) (buf, n + 1);
  if (ret != 0)
    {
      mpz_clear (t);
      return -1;
    }
  mpz_swap (r, t);
  mpz_clear (t);
  return 0;
}

/* negative: the NULL-sentinel idiom - the copy exists exactly when tp is not NULL */
void
fix_alloc_null_sentinel (mp_ptr rp, mp_srcptr np, mp_size_t n)
{
  mp_ptr tp = NULL;
  if (rp == np)
    {
      tp = (mp_ptr) (*__gmp_allocate_func) (n * sizeof (mp_limb_t));
      MPN_COPY (tp, np, n);
      np = tp;
    }
  mpn_add_n (rp, np, np, n);
  if (tp != NULL)
    (*__gmp_free_func) (tp, n * sizeof (mp_limb_t));
}

/* positive: same shape, but the free is guarded by the wrong pointer's nullness */
void
fix_alloc_null_sentinel_bad (mp_ptr rp, mp_srcptr np, mp_size_t n, mp_ptr other)
{
  mp_ptr tp = NULL;
  if (rp == np)
    {
      tp = (mp_ptr) (*__gmp_allocate_func) (n * sizeof (mp_limb_t));
      MPN_COPY (tp, np, n);
      np = tp;
    }
  mpn_add_n (rp, np, np, n);
  if (other != NULL)
    (*__gmp_free_func) (tp, n * sizeof (mp_limb_t));
}

/* hand-over through a parameter's field: the callee allocates, the caller must free */
struct fx_out { char *data; size_t size; };
static void
fx_fill (struct fx_out *o, size_t n)
{
  o->data = (char *) (*__gmp_allocate_func) (n);
  o->size = n;
  memset (o->data, 0, n);
}

/* positive: the failure exit forgets the block the callee left in o.data */
int
fix_handover_leak (FILE *fp, size_t n)
{
  struct fx_out o;
  fx_fill (&o, n);
  if (fwrite (o.data, n, 1, fp) != 1)
    return 0;
  (*__gmp_free_func) (o.data, o.size);
  return 1;
}

/* negative twin */
int
fix_handover_good (FILE *fp, size_t n)
{
  struct fx_out o;
  int ok;
  fx_fill (&o, n);
  ok = fwrite (o.data, n, 1, fp) == 1;
  (*__gmp_free_func) (o.data, o.size);
  return ok;
}

/* R-ALLOC.blockmove positive: swaps the limb blocks of two floats but leaves each precision behind */
void
fix_blockmove_bad (mpf_ptr u, mpf_ptr v)
{
  mp_ptr t = PTR (u);
  mp_size_t s = SIZ (u);
  PTR (u) = PTR (v);
  PTR (v) = t;
  SIZ (u) = SIZ (v);
  SIZ (v) = s;
}

/* negative twin */
void
fix_blockmove_good (mpf_ptr u, mpf_ptr v)
{
  mp_ptr t = PTR (u);
  mp_size_t s = SIZ (u), p = PREC (u);
  PTR (u) = PTR (v);
  PTR (v) = t;
  SIZ (u) = SIZ (v);
  SIZ (v) = s;
  PREC (u) = PREC (v);
  PREC (v) = p;
}

/* R-BUFGROW positive: the loop grows before each append, but the terminator after the loop has no room check */
char *
fix_bufgrow_bad (FILE *fp, size_t *lenp)
{
  size_t alloc_size = 16, str_size = 0;
  char *str = (char *) (*__gmp_allocate_func) (alloc_size);
  int c = getc (fp);
  while (c != EOF && c != ' ')
    {
      if (str_size >= alloc_size)
        {
          size_t old = alloc_size;
          alloc_size = alloc_size * 3 / 2;
          str = (char *) (*__gmp_reallocate_func) (str, old, alloc_size);
        }
      str[str_size++] = c;
      c = getc (fp);
    }
  str[str_size] = 0;
  *lenp = alloc_size;
  return str;
}

/* negative twin: the check runs before the loop test, so the exit path has room for the terminator */
char *
fix_bufgrow_good (FILE *fp, size_t *lenp)
{
  size_t alloc_size = 16, str_size = 0;
  char *str = (char *) (*__gmp_allocate_func) (alloc_size);
  int c = getc (fp);
  for (;;)
    {
      if (str_size >= alloc_size)
        {
          size_t old = alloc_size;
          alloc_size = alloc_size * 3 / 2;
          str = (char *) (*__gmp_reallocate_func) (str, old, alloc_size);
        }
      if (c == EOF || c == ' ')
        break;
      str[str_size++] = c;
      c = getc (fp);
    }
  str[str_size] = 0;
  *lenp = alloc_size;
  return str;
}

/* negative: the invariant form - the buffer starts with room and is grown as soon as the last free byte has been used */
char *
fix_bufgrow_good2 (FILE *fp, size_t *lenp)
{
  size_t alloc_size = 16, str_size = 0;
  char *str = (char *) (*__gmp_allocate_func) (alloc_size);
  int c = getc (fp);
  while (c != EOF && c != ' ')
    {
      str[str_size++] = c;
      c = getc (fp);
      if (str_size == alloc_size)
        {
          size_t nsize = alloc_size * 3 / 2;
          str = (char *) (*__gmp_reallocate_func) (str, alloc_size, nsize);
          alloc_size = nsize;
        }
    }
  str[str_size] = 0;
  *lenp = alloc_size;
  return str;
}

/* positive: the same form, but two bytes can be used between growth tests */
char *
fix_bufgrow_bad2 (FILE *fp, size_t *lenp)
{
  size_t alloc_size = 16, str_size = 0;
  char *str = (char *) (*__gmp_allocate_func) (alloc_size);
  int c = getc (fp);
  while (c != EOF && c != ' ')
    {
      str[str_size++] = c;
      if (c == '\\')
        str[str_size++] = getc (fp);
      c = getc (fp);
      if (str_size == alloc_size)
        {
          size_t nsize = alloc_size * 3 / 2;
          str = (char *) (*__gmp_reallocate_func) (str, alloc_size, nsize);
          alloc_size = nsize;
        }
    }
  str[str_size] = 0;
  *lenp = alloc_size;
  return str;
}

/* pass-through helper: returns the block it was given, possibly moved by the reallocate function */
static char *
fix_pt_store (char *s, size_t *upto, size_t *alloc, int c)
{
  if (*upto >= *alloc)
    {
      size_t  na = *alloc + 64;
      s = (char *) (*__gmp_reallocate_func) (s, *alloc, na);
      *alloc = na;
    }
  s[(*upto)++] = c;
  return s;
}

/* not a pass-through: hands back a fresh copy and forgets the old block */
static char *
fix_pt_copy (char *s, size_t *upto, size_t *alloc, int c)
{
  size_t  na = *alloc + 64;
  char   *t = (char *) (*__gmp_allocate_func) (na);
  memcpy (t, s, *upto);
  t[(*upto)++] = c;
  *alloc = na;
  return t;
}

/* negative: the caller keeps owning the one block */
int
fix_passthru_good (FILE *fp)
{
  size_t  alloc = 64, upto = 0;
  char   *s = (char *) (*__gmp_allocate_func) (alloc);
  int     c;
  while ((c = getc (fp)) != EOF)
    s = fix_pt_store (s, &upto, &alloc, c);
  c = (int) upto;
  (*__gmp_free_func) (s, alloc);
  return c;
}

/* positive: every call drops the block s pointed to */
int
fix_passthru_bad (FILE *fp)
{
  size_t  alloc = 64, upto = 0;
  char   *s = (char *) (*__gmp_allocate_func) (alloc);
  int     c;
  while ((c = getc (fp)) != EOF)
    s = fix_pt_copy (s, &upto, &alloc, c);
  c = (int) upto;
  (*__gmp_free_func) (s, alloc);
  return c;
}

/* positive: a pointer into the token buffer survives a growth of the buffer */
long
fix_bufview_bad (FILE *fp)
{
  size_t alloc_size = 16, str_size = 0;
  char *str = (char *) (*__gmp_allocate_func) (alloc_size);
  char *mark = NULL;
  long v;
  int c = getc (fp);
  for (;;)
    {
      if (str_size >= alloc_size)
        {
          size_t old = alloc_size;
          alloc_size = alloc_size * 3 / 2;
          str = (char *) (*__gmp_reallocate_func) (str, old, alloc_size);
        }
      if (c == EOF || c == ' ')
        break;
      if (c == 'p')
        mark = str + str_size;
      str[str_size++] = c;
      c = getc (fp);
    }
  str[str_size] = 0;
  v = mark != NULL ? strtol (mark + 1, NULL, 10) : 0;
  (*__gmp_free_func) (str, alloc_size);
  return v;
}

/* negative: the position is kept as an index and the pointer is formed after the last growth */
long
fix_bufview_good (FILE *fp)
{
  size_t alloc_size = 16, str_size = 0, markpos = 0;
  char *str = (char *) (*__gmp_allocate_func) (alloc_size);
  char *mark;
  long v;
  int c = getc (fp);
  for (;;)
    {
      if (str_size >= alloc_size)
        {
          size_t old = alloc_size;
          alloc_size = alloc_size * 3 / 2;
          str = (char *) (*__gmp_reallocate_func) (str, old, alloc_size);
        }
      if (c == EOF || c == ' ')
        break;
      if (c == 'p')
        markpos = str_size;
      str[str_size++] = c;
      c = getc (fp);
    }
  str[str_size] = 0;
  mark = str + markpos;
  v = markpos != 0 ? strtol (mark + 1, NULL, 10) : 0;
  (*__gmp_free_func) (str, alloc_size);
  return v;
}

/* a helper that prints a block and releases it on every path */
static int
fix_cs_put_and_free (FILE *fp, char *s, size_t n)
{
  int  r = (fwrite (s, 1, n, fp) == n);
  (*__gmp_free_func) (s, n);
  return r;
}

/* a helper that releases it only sometimes */
static int
fix_cs_put_maybe_free (FILE *fp, char *s, size_t n, int done)
{
  int  r = (fwrite (s, 1, n, fp) == n);
  if (done)
    (*__gmp_free_func) (s, n);
  return r;
}

/* negative: ownership goes to the helper */
int
fix_consume_good (FILE *fp, size_t n)
{
  char *s = (char *) (*__gmp_allocate_func) (n);
  int   r;
  memset (s, 'x', n);
  r = fix_cs_put_and_free (fp, s, n);
  return r;
}

/* positive: the helper does not always free - the caller still owns the block at its exit */
int
fix_consume_bad (FILE *fp, size_t n, int done)
{
  char *s = (char *) (*__gmp_allocate_func) (n);
  int   r;
  memset (s, 'x', n);
  r = fix_cs_put_maybe_free (fp, s, n, done);
  return r;
}
