/* fixtures for R-EXTENT.tmp; compiled only by the analyser */
#include "mpir.h"
#include "gmp-impl.h"

/* the product of n x n limbs needs 2n limbs; the carry limb of the shift is stored at index 2n of a block sized 2n */
void
fix_extent_tmp_short (mp_ptr rp, mp_srcptr up, mp_size_t n)
{
  mp_ptr tp;
  TMP_DECL;
  TMP_MARK;
  tp = TMP_ALLOC_LIMBS (2 * n);
  mpn_mul_n (tp, up, up, n);
  tp[2 * n] = mpn_lshift (tp, tp, 2 * n, 1);
  MPN_COPY (rp, tp, 2 * n + 1);
  TMP_FREE;
}

/* second half of a combined block used with the first half's size */
void
fix_extent_tmp_split (mp_ptr rp, mp_srcptr up, mp_size_t n)
{
  mp_ptr tp, sp;
  TMP_DECL;
  TMP_MARK;
  tp = TMP_ALLOC_LIMBS (4 * n - 1);
  sp = tp + 2 * n;
  mpn_sqr (tp, up, n);
  mpn_sqr (sp, up, n);            /* writes 2n limbs at offset 2n of a 4n-1 block */
  mpn_add_n (rp, tp, sp, n);
  TMP_FREE;
}

void
fix_extent_tmp_good (mp_ptr rp, mp_srcptr up, mp_size_t n)
{
  mp_ptr tp, sp;
  TMP_DECL;
  TMP_MARK;
  tp = TMP_ALLOC_LIMBS (4 * n + 1);
  sp = tp + 2 * n + 1;
  mpn_sqr (tp, up, n);
  tp[2 * n] = mpn_lshift (tp, tp, 2 * n, 1);
  mpn_sqr (sp, up, n);
  mpn_add_n (rp, tp, sp, n);
  TMP_FREE;
}
