/* Fixtures for R-PURE.  Compiled only by the analyser (with -DWANT_ASSERT=1). */
#include "mpir.h"
#include "gmp-impl.h"

/* the subtraction happens only in --enable-assert builds */
void
fix_impure_call (mp_ptr rp, mp_srcptr tp, mp_size_t n)
{
  ASSERT (mpn_sub_n (rp, rp, tp, n) == 0);
}

/* state updated only in --enable-assert builds */
mp_size_t
fix_assert_write (mp_srcptr ap, mp_size_t n)
{
  ASSERT (n-- > 0);
  return n + (ap[0] != 0);
}

/* negative twin: evaluated in every build / pure callee / assert-only variable */
mp_limb_t
fix_pure_ok (mp_ptr rp, mp_srcptr ap, mp_srcptr bp, mp_size_t n)
{
  mp_limb_t cy;
  ASSERT_CODE (mp_size_t orig_n = n);
  ASSERT (n >= 1);
  ASSERT (mpn_cmp (ap, bp, n) >= 0);
  ASSERT_NOCARRY (mpn_sub_n (rp, ap, bp, n));
  cy = mpn_add_n (rp, rp, bp, n);
  ASSERT (orig_n == n);
  return cy;
}
