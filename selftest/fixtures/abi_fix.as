; Fixtures for R-ABI.  Assembled only by the analyser.
%include 'yasm_mac.inc'
    BITS 64

; rbx used as a temporary without being saved
GLOBAL_FUNC fix_abi_clobber
    mov     rbx, [rsi]
    add     rbx, [rdx]
    mov     [rdi], rbx
    xor     eax, eax
    ret

; adc chain started without clearing the carry
GLOBAL_FUNC fix_abi_carry
    mov     rax, [rsi]
    adc     rax, [rdx]
    mov     [rdi], rax
    sbb     eax, eax
    ret

; one exit forgets to pop
GLOBAL_FUNC fix_abi_stack
    push    r12
    mov     r12, [rsi]
    test    r12, r12
    jz      .short
    mov     [rdi], r12
    pop     r12
    xor     eax, eax
    ret
.short:
    xor     eax, eax
    ret

; reads the 5th argument register in a 3-argument function
GLOBAL_FUNC fix_abi_undef
    mov     rax, [rsi]
    add     rax, r8
    mov     [rdi], rax
    ret

; negative twin: saves and restores, clears the carry, balanced stack, red-zone save
GLOBAL_FUNC fix_abi_good
    push    rbx
    mov     [rsp-8], r12
    mov     rbx, [rsi]
    mov     r12, [rdx]
    xor     eax, eax
    add     rbx, r12
    adc     rax, rax
    mov     [rdi], rbx
    mov     r12, [rsp-8]
    pop     rbx
    ret

; the loop counter update feeds the carry chain: CF of `sub rdx, 1` reaches the next adc
GLOBAL_FUNC fix_abi_counter_carry
    xor     eax, eax
    mov     r9, rdx
    mov     rdx, [rdi]
.lp:
    mov     rax, [rsi]
    adc     rax, rdx
    mov     [rdi], rax
    lea     rsi, [rsi+8]
    lea     rdi, [rdi+8]
    sub     r9, 1
    jnz     .lp
    sbb     eax, eax
    ret

; negative twins: a saved carry restored from a setc byte, and CF known to be 0 after jc was not taken
GLOBAL_FUNC fix_abi_saved_carry
    xor     eax, eax
    mov     r9, rdx
    mov     rdx, [rdi]
    xor     r8d, r8d
.lp:
    add     r8b, -1
    mov     rax, [rsi]
    adc     rax, rdx
    setc    r8b
    mov     [rdi], rax
    lea     rsi, [rsi+8]
    lea     rdi, [rdi+8]
    sub     r9, 1
    jnz     .lp
    movzx   eax, r8b
    ret

GLOBAL_FUNC fix_abi_cf0
    mov     r9, rdx
    mov     rdx, [rdi]
    sub     r9, 4
    jc      .small
    mov     rax, [rsi]
    adc     rax, rdx
    mov     [rdi], rax
    sbb     eax, eax
    ret
.small:
    mov     [rdi], rdx
    xor     eax, eax
    ret
