; Fixtures for R-ABI.  Assembled only by the analyser.
%include 'yasm_mac.inc'
    BITS 64

; rbx used as a temporary without being saved
GLOBAL_FUNC fix_abi_clobber
    mov     rbx, [rsi]
    add     rbx, [rdx]
    mov     [rdi], rbx
    xor     eax, eax
    ret

; adc chain started without clearing the carry
GLOBAL_FUNC fix_abi_carry
    mov     rax, [rsi]
    adc     rax, [rdx]
    mov     [rdi], rax
    sbb     eax, eax
    ret

; one exit forgets to pop
GLOBAL_FUNC fix_abi_stack
    push    r12
    mov     r12, [rsi]
    test    r12, r12
    jz      .short
    mov     [rdi], r12
    pop     r12
    xor     eax, eax
    ret
.short:
    xor     eax, eax
    ret

; reads the 5th argument register in a 3-argument function
GLOBAL_FUNC fix_abi_undef
    mov     rax, [rsi]
    add     rax, r8
    mov     [rdi], rax
    ret

; negative twin: saves and restores, clears the carry, balanced stack, red-zone save
GLOBAL_FUNC fix_abi_good
    push    rbx
    mov     [rsp-8], r12
    mov     rbx, [rsi]
    mov     r12, [rdx]
    xor     eax, eax
    add     rbx, r12
    adc     rax, rax
    mov     [rdi], rbx
    mov     r12, [rsp-8]
    pop     rbx
    ret
