/* fixtures for R-PRINTF.reset; compiled only by the analyser */
struct prm { int base, conv, width; };
extern int emit (const struct prm *p, int v);
extern int next_char (void);

int fix_bad_carry (int n)
{
  struct prm param;
  int c, total = 0;
  param.conv = 0;                 /* reset hoisted out of the loop although the loop changes it */
  for (;;)
    {
      param.base = 10;
      param.width = 0;
      for (;;)
        {
          c = next_char ();
          if (c == 'x') { param.base = 16; break; }
          if (c == 'e') { param.conv = 1; break; }
          if (c == 'w') { param.width = param.width * 10 + 1; continue; }
          if (c == 0) return total;
          break;
        }
      total += emit (&param, n);
    }
}

int fix_good_carry (int n)
{
  struct prm param;
  int c, total = 0;
  for (;;)
    {
      param.base = 10;
      param.conv = 0;
      param.width = 0;
      for (;;)
        {
          c = next_char ();
          if (c == 'x') { param.base = 16; break; }
          if (c == 'e') { param.conv = 1; break; }
          if (c == 'w') { param.width = param.width * 10 + 1; continue; }
          if (c == 0) return total;
          break;
        }
      total += emit (&param, n);
    }
}

int fix_good_hoisted (int n)
{
  struct prm param;
  int c, total = 0;
  param.conv = 0;                 /* never changed inside the loop: hoisting is fine */
  for (;;)
    {
      param.base = 10;
      param.width = 0;
      for (;;)
        {
          c = next_char ();
          if (c == 'x') { param.base = 16; break; }
          if (c == 'w') { param.width = param.width * 10 + 1; continue; }
          if (c == 0) return total;
          break;
        }
      total += emit (&param, n);
    }
}
