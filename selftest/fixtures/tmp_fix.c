/* Positive and negative fixtures for R-TMP.  Compiled only by the analyser. */
#include "mpir.h"
#include "gmp-impl.h"

/* leak: early return after an allocation skips TMP_FREE */
int
fix_tmp_leak (mp_srcptr ap, mp_size_t n)
{
  mp_ptr tp;
  TMP_DECL;
  TMP_MARK;
  tp = TMP_ALLOC_LIMBS (n);
  MPN_COPY (tp, ap, n);
  if (tp[0] == 0)
    return 0;
  TMP_FREE;
  return 1;
}

/* use after free: scratch read after TMP_FREE (only on one branch it is TMP) */
mp_limb_t
fix_tmp_uaf (mp_ptr rp, mp_srcptr ap, mp_size_t n)
{
  mp_srcptr sp = ap;
  TMP_DECL;
  TMP_MARK;
  if (rp == ap)
    {
      mp_ptr tp = TMP_ALLOC_LIMBS (n);
      MPN_COPY (tp, ap, n);
      sp = tp;
    }
  TMP_FREE;
  return mpn_add_n (rp, sp, sp, n);
}

/* escape: TMP block installed as the limb block of a result */
void
fix_tmp_escape (mpz_ptr w, mp_size_t n)
{
  mp_ptr tp;
  TMP_DECL;
  TMP_MARK;
  tp = TMP_ALLOC_LIMBS (n);
  MPN_ZERO (tp, n);
  PTR (w) = tp;
  TMP_FREE;
}

/* negative twin: everything in order, including return-after-mark-without-alloc */
int
fix_tmp_good (mp_ptr rp, mp_srcptr ap, mp_size_t n)
{
  mp_ptr tp;
  TMP_DECL;
  TMP_MARK;
  if (n == 0)
    return 0;
  tp = TMP_ALLOC_LIMBS (n);
  MPN_COPY (tp, ap, n);
  MPN_COPY (rp, tp, n);
  TMP_FREE;
  return 1;
}

/* zero-size: the second block of the pair is asked for 0 limbs when no padding is needed */
void
fix_tmp_zero (mp_ptr rp, mp_srcptr ap, mp_size_t n, mp_size_t zeros)
{
  mp_ptr xp, yp;
  TMP_DECL;
  TMP_MARK;
  TMP_ALLOC_LIMBS_2 (xp, n, yp, (zeros > 0 ? n + zeros : 0));
  MPN_COPY (xp, ap, n);
  if (zeros > 0)
    MPN_ZERO (yp, n + zeros);
  MPN_COPY (rp, xp, n);
  TMP_FREE;
}
