/* Fixtures for aliasflow (R-STALE, R-CLOBBER).  Compiled only by the analyser. */
#include "mpir.h"
#include "gmp-impl.h"

/* source pointer fetched before the destination is reallocated; w may be u */
void
fix_stale_ptr (mpz_ptr w, mpz_srcptr u)
{
  mp_size_t n = ABSIZ (u);
  mp_srcptr up = PTR (u);
  mp_ptr wp;
  if (n == 0)
    {
      SIZ (w) = 0;
      return;
    }
  wp = MPZ_REALLOC (w, n + 1);
  wp[n] = mpn_lshift (wp, up, n, 1);
  SIZ (w) = n + (wp[n] != 0);
}

/* w is overwritten while v (possibly the same variable) is still needed */
void
fix_clobber_order (mpz_ptr w, mpz_srcptr u, mpz_srcptr v)
{
  mpz_mul (w, u, u);
  mpz_add (w, w, v);
}

/* negative twins */
void
fix_alias_good (mpz_ptr w, mpz_srcptr u)
{
  mp_size_t n = ABSIZ (u);
  mp_srcptr up;
  mp_ptr wp;
  if (n == 0)
    {
      SIZ (w) = 0;
      return;
    }
  wp = MPZ_REALLOC (w, n + 1);
  up = PTR (u);
  wp[n] = mpn_lshift (wp, up, n, 1);
  SIZ (w) = n + (wp[n] != 0);
}

void
fix_alias_guarded (mpz_ptr w, mpz_srcptr u, mpz_srcptr v)
{
  mpz_t t;
  if (w == v)
    {
      mpz_init_set (t, v);
      mpz_mul (w, u, u);
      mpz_add (w, w, t);
      mpz_clear (t);
      return;
    }
  mpz_mul (w, u, u);
  mpz_add (w, w, v);
}

/* one limb short: the carry of the shift is stored at index n of a block sized n */
void
fix_extent_carry (mpz_ptr w, mpz_srcptr u)
{
  mp_size_t n = ABSIZ (u);
  mp_ptr wp;
  mp_limb_t cy;
  if (n == 0)
    {
      SIZ (w) = 0;
      return;
    }
  wp = MPZ_REALLOC (w, n);
  cy = mpn_lshift (wp, PTR (u), n, 1);
  if (cy != 0)
    {
      wp[n] = cy;
      n++;
    }
  SIZ (w) = n;
}

/* R-CONSTSRC positive: normalises the input in place "to save a copy" - with distinct variables u is changed */
void
fix_constsrc_scratch (mpz_ptr w, mpz_srcptr u)
{
  mp_size_t n = ABSIZ (u);
  mp_ptr up = PTR (u);
  mp_ptr wp;
  if (n == 0)
    {
      SIZ (w) = 0;
      return;
    }
  mpn_rshift (up, up, n, 1);
  wp = MPZ_REALLOC (w, n);
  up = PTR (u);
  MPN_COPY (wp, up, n);
  SIZ (w) = n;
}

/* R-CONSTSRC negative: the same write, but only on the path where u is w */
void
fix_constsrc_guarded (mpz_ptr w, mpz_srcptr u)
{
  mp_size_t n = ABSIZ (u);
  mp_ptr up = PTR (u);
  if (n == 0 || w != u)
    return;
  mpn_rshift (up, up, n, 1);
}

/* view-alias positive: |v| as a borrowed view, handed to a function that detects w == v by object identity */
void
fix_view_alias (mpz_ptr w, mpz_srcptr u, mpz_srcptr v)
{
  mpz_t av;
  ALLOC (av) = 0;
  PTR (av) = PTR (v);
  SIZ (av) = ABSIZ (v);
  mpz_fdiv_r (w, u, av);
}

/* view-alias negative: the destination is a local, the result is moved afterwards */
void
fix_view_local (mpz_ptr w, mpz_srcptr u, mpz_srcptr v)
{
  mpz_t av, t;
  ALLOC (av) = 0;
  PTR (av) = PTR (v);
  SIZ (av) = ABSIZ (v);
  mpz_init (t);
  mpz_fdiv_r (t, u, av);
  mpz_swap (w, t);
  mpz_clear (t);
}

/* R-NORM positive: the difference of two n-limb numbers can lose any number of high limbs */
void
fix_norm_after_sub (mpz_ptr w, mpz_srcptr u, mpz_srcptr v)
{
  mp_size_t n = ABSIZ (u);
  mp_ptr wp;
  if (n == 0 || ABSIZ (v) != n || mpn_cmp (PTR (u), PTR (v), n) <= 0)
    {
      SIZ (w) = 0;
      return;
    }
  wp = MPZ_REALLOC (w, n);
  mpn_sub_n (wp, PTR (u), PTR (v), n);
  n -= (wp[n - 1] == 0);
  SIZ (w) = n;
}

/* R-NORM negative: a square loses at most one limb */
void
fix_norm_after_mul (mpz_ptr w, mpz_srcptr u)
{
  mp_size_t n = ABSIZ (u), wn;
  mp_ptr wp;
  if (n == 0 || w == u)
    {
      SIZ (w) = 0;
      return;
    }
  wp = MPZ_REALLOC (w, 2 * n);
  mpn_sqr (wp, PTR (u), n);
  wn = 2 * n;
  wn -= (wp[wn - 1] == 0);
  SIZ (w) = wn;
}

/* size-store positive: claims n + 1 limbs in a block that was only asked to hold n */
void
fix_size_exceeds (mpz_ptr w, mpz_srcptr u)
{
  mp_size_t n = ABSIZ (u);
  mp_ptr wp;
  if (n == 0 || w == u)
    {
      SIZ (w) = 0;
      return;
    }
  wp = MPZ_REALLOC (w, n);
  MPN_COPY (wp, PTR (u), n);
  SIZ (w) = n + 1;
}

/* negative: the pointer that is read afterwards is redirected to the output on the path that wrote the output */
void
fix_alias_selected (mpz_ptr z, mpir_ui l, mpz_srcptr w)
{
  int negative = (SIZ (w) < 0);
  mpz_srcptr absw = w;
  if (negative)
    {
      mpz_neg (z, w);
      absw = z;
    }
  if (mpz_fits_ui_p (absw))
    mpz_set_ui (z, l / mpz_get_ui (absw));
  else
    mpz_set_ui (z, 0);
}

/* positive twin: not redirected - w is read after z, which may be w, was negated */
void
fix_alias_selected_bad (mpz_ptr z, mpir_ui l, mpz_srcptr w)
{
  int negative = (SIZ (w) < 0);
  mpz_srcptr absw = w;
  if (negative)
    mpz_neg (z, w);
  if (mpz_fits_ui_p (absw))
    mpz_set_ui (z, l / mpz_get_ui (absw));
  else
    mpz_set_ui (z, 0);
}

/* negative: in place, but the two ranges cannot meet - the upper half of the block is moved onto the lower half */
void
fix_copy_halves (mpz_ptr w, mpz_srcptr u, mp_size_t n)
{
  mp_ptr wp = MPZ_REALLOC (w, 2 * n);
  mp_srcptr up = PTR (u);
  MPN_COPY (wp, up + n, n);
  SIZ (w) = n;
}

/* positive twin: distance 1, length n - the in-place call trips MPN_COPY's assertion */
void
fix_copy_shift_one (mpz_ptr w, mpz_srcptr u, mp_size_t n)
{
  mp_ptr wp = MPZ_REALLOC (w, n + 1);
  mp_srcptr up = PTR (u);
  MPN_COPY (wp, up + 1, n);
  SIZ (w) = n;
}

/* positive: a length clamped to the allocation, then a store at that index - one limb past the block when the clamp was active */
void
fix_extent_clamp_store (mpz_ptr w, mp_size_t have, mp_size_t n)
{
  mp_ptr wp = MPZ_REALLOC (w, n);
  mp_size_t k = MIN (have, n);
  wp[k] = 1;
  SIZ (w) = 1;
}

/* negative: the block is sized by the larger of two lengths (plus one) and written at the smaller */
void
fix_extent_max_alloc (mpz_ptr w, mp_size_t un, mp_size_t vn)
{
  mp_size_t wn = MAX (un, vn);
  mp_ptr wp = MPZ_REALLOC (w, wn + 1);
  wp[un] = 0;
  SIZ (w) = 0;
}
