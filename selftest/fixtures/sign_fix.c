/* Fixtures for R-SIGN.  Compiled only by the analyser. */
#include "mpir.h"
#include "gmp-impl.h"

/* positive: the sign of the numerator reaches the new denominator */
void
fix_sign_bad_inv (mpq_ptr dest, mpq_srcptr src)
{
  mp_size_t num_size = SIZ (mpq_numref (src));
  mp_size_t den_size = SIZ (mpq_denref (src));

  if (num_size == 0)
    DIVIDE_BY_ZERO;
  if (num_size < 0)
    den_size = -den_size;
  mpz_set (mpq_denref (dest), mpq_numref (src));
  SIZ (mpq_denref (dest)) = num_size;
  SIZ (mpq_numref (dest)) = den_size;
}

/* negative: both sizes change sign together */
void
fix_sign_good_inv (mpq_ptr dest, mpq_srcptr src)
{
  mp_size_t num_size = SIZ (mpq_numref (src));
  mp_size_t den_size = SIZ (mpq_denref (src));

  if (num_size == 0)
    DIVIDE_BY_ZERO;
  if (num_size < 0)
    {
      num_size = -num_size;
      den_size = -den_size;
    }
  SIZ (mpq_denref (dest)) = num_size;
  SIZ (mpq_numref (dest)) = den_size;
}

/* positive: product with the divisor's numerator, sign never moved */
void
fix_sign_bad_div (mpq_ptr quot, mpq_srcptr op1, mpq_srcptr op2)
{
  mpz_t g, t;
  if (SIZ (mpq_numref (op2)) == 0)
    DIVIDE_BY_ZERO;
  mpz_init (g);
  mpz_init (t);
  mpz_gcd (g, mpq_numref (op2), mpq_denref (op1));
  mpz_divexact_gcd (t, mpq_numref (op2), g);
  mpz_mul (mpq_denref (quot), t, mpq_denref (op1));
  mpz_clear (g);
  mpz_clear (t);
}

/* negative */
void
fix_sign_good_div (mpq_ptr quot, mpq_srcptr op1, mpq_srcptr op2)
{
  mpz_t g, t;
  if (SIZ (mpq_numref (op2)) == 0)
    DIVIDE_BY_ZERO;
  mpz_init (g);
  mpz_init (t);
  mpz_gcd (g, mpq_numref (op2), mpq_denref (op1));
  mpz_divexact_gcd (t, mpq_numref (op2), g);
  mpz_mul (mpq_denref (quot), t, mpq_denref (op1));
  if (SIZ (mpq_denref (quot)) < 0)
    {
      SIZ (mpq_denref (quot)) = -SIZ (mpq_denref (quot));
      SIZ (mpq_numref (quot)) = -SIZ (mpq_numref (quot));
    }
  mpz_clear (g);
  mpz_clear (t);
}

/* negative: the test is on n, the store uses its copy m; the sign link between the two carries the refinement over */
void
fix_sign_good_copytest (mpq_ptr d, mpq_srcptr s)
{
  mp_size_t n = SIZ (mpq_numref (s));
  mp_size_t m = n;
  if (n <= 0)
    {
      SIZ (mpq_denref (d)) = 1;
      return;
    }
  SIZ (mpq_denref (d)) = m;
}

/* positive only when the result is the operand itself */
void
fix_sign_bad_inplace (mpq_ptr d, mpq_srcptr s)
{
  if (d != s)
    {
      mpz_set (mpq_numref (d), mpq_numref (s));
      mpz_set (mpq_denref (d), mpq_denref (s));
    }
  else
    {
      mp_size_t t = SIZ (mpq_numref (d));
      if (t == 0)
        DIVIDE_BY_ZERO;
      SIZ (mpq_numref (d)) = SIZ (mpq_denref (d));
      SIZ (mpq_denref (d)) = t;
    }
}

/* negative */
void
fix_sign_good_inplace (mpq_ptr d, mpq_srcptr s)
{
  if (d != s)
    {
      mpz_set (mpq_numref (d), mpq_numref (s));
      mpz_set (mpq_denref (d), mpq_denref (s));
    }
  else
    {
      mp_size_t t = SIZ (mpq_numref (d));
      if (t == 0)
        DIVIDE_BY_ZERO;
      SIZ (mpq_numref (d)) = t < 0 ? -SIZ (mpq_denref (d)) : SIZ (mpq_denref (d));
      SIZ (mpq_denref (d)) = ABS (t);
    }
}

/* undecided by design: a square is positive, but the sign algebra multiplies two unknown signs */
void
fix_sign_good_square (mpq_ptr d, mpq_srcptr s)
{
  mpz_mul (mpq_denref (d), mpq_numref (s), mpq_numref (s));
  if (SIZ (mpq_denref (d)) == 0)
    DIVIDE_BY_ZERO;
}

/* R-DENONE positive: zero result, denominator size 1 but its limb untouched */
void
fix_denone_bad (mpq_ptr q, mpq_srcptr a)
{
  if (SIZ (mpq_numref (a)) == 0)
    {
      SIZ (mpq_numref (q)) = 0;
      SIZ (mpq_denref (q)) = 1;
      return;
    }
  mpq_set (q, a);
}

/* positive: one path forgets */
void
fix_denone_bad_path (mpq_ptr q, mpq_srcptr a, int flag)
{
  SIZ (mpq_numref (q)) = 0;
  SIZ (mpq_denref (q)) = 1;
  if (flag)
    PTR (mpq_denref (q))[0] = 1;
}

/* negative */
void
fix_denone_good (mpq_ptr q, mpq_srcptr a)
{
  SIZ (mpq_numref (q)) = 0;
  q->_mp_den._mp_d[0] = 1;
  q->_mp_den._mp_size = 1;
}

/* negative: through a local limb pointer, written before the size */
void
fix_denone_good_alias (mpq_ptr q, mpq_srcptr a)
{
  mp_ptr dp = PTR (mpq_denref (q));
  dp[0] = 1;
  SIZ (mpq_numref (q)) = 0;
  SIZ (mpq_denref (q)) = 1;
}

/* negative: the mpz function sets size and limb */
void
fix_denone_good_setui (mpq_ptr q, mpq_srcptr a)
{
  SIZ (mpq_numref (q)) = 0;
  mpz_set_ui (mpq_denref (q), 1);
}

/* R-SIGN.alloc positive: the signed size where the limb count is meant */
void
fix_realloc_bad (mpz_ptr w, mpz_srcptr u)
{
  mp_size_t n = SIZ (u);
  mp_size_t an = ABS (n);
  MPZ_REALLOC (w, n);
  MPN_COPY (PTR (w), PTR (u), an);
  SIZ (w) = n;
}

/* negative */
void
fix_realloc_good (mpz_ptr w, mpz_srcptr u)
{
  mp_size_t n = SIZ (u);
  mp_size_t an = ABS (n);
  MPZ_REALLOC (w, an);
  MPN_COPY (PTR (w), PTR (u), an);
  SIZ (w) = n;
}

/* R-SIGN.count positive: the signed size as a limb count */
void
fix_count_bad (mpz_ptr w, mpz_srcptr u, unsigned long c)
{
  mp_size_t n = SIZ (u);
  mp_size_t an = ABS (n);
  MPZ_REALLOC (w, an + 1);
  PTR (w)[an] = mpn_lshift (PTR (w), PTR (u), n, (unsigned) (c % GMP_NUMB_BITS) + 1);
  SIZ (w) = n;
}

/* negative */
void
fix_count_good (mpz_ptr w, mpz_srcptr u, unsigned long c)
{
  mp_size_t n = SIZ (u);
  mp_size_t an = ABS (n);
  MPZ_REALLOC (w, an + 1);
  PTR (w)[an] = mpn_lshift (PTR (w), PTR (u), an, (unsigned) (c % GMP_NUMB_BITS) + 1);
  SIZ (w) = n;
}
