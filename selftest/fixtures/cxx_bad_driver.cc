// Positive / negative fixture for R-CXXALIAS: two stand-alone eval() bodies in the shape mpirxx.h uses.
#include "mpirxx.h"
template <class V1, class V2> struct fix_pair { const V1 &val1; const V2 &val2; };

template <class V2> struct fix_expr_fix_bad
{
  fix_pair<mpz_class, V2> expr;
  void eval (mpz_ptr p) const
  {
    __gmp_set_expr (p, expr.val2);                  // writes p ...
    mpz_sub (p, expr.val1.__get_mp (), p);          // ... then reads a leaf that may be p's own object
  }
};

template <class V2> struct fix_expr_fix_good
{
  fix_pair<mpz_class, V2> expr;
  void eval (mpz_ptr p) const
  {
    if (p != expr.val1.__get_mp ())
      {
        __gmp_set_expr (p, expr.val2);
        mpz_sub (p, expr.val1.__get_mp (), p);
      }
    else
      {
        mpz_class temp (expr.val2);
        mpz_sub (p, expr.val1.__get_mp (), temp.__get_mp ());
      }
  }
};

void fix_use (mpz_class &a, const mpz_class &b, const mpz_class &c)
{
  typedef __gmp_expr<mpz_t, __gmp_binary_expr<mpz_class, mpz_class, __gmp_binary_multiplies> > prod_t;
  prod_t pr (b, c);
  fix_expr_fix_bad<prod_t> x = { { a, pr } };
  fix_expr_fix_good<prod_t> y = { { a, pr } };
  x.eval (a.get_mpz_t ());
  y.eval (a.get_mpz_t ());
}

// Fixtures for R-CXXMAP: operator functors that reach a C function with other semantics
struct __gmp_fix_divides_floor          // judged as a `divides` functor: must truncate
{
  static void eval(mpz_ptr z, mpz_srcptr w, mpz_srcptr v) { mpz_fdiv_q(z, w, v); }
};
struct __gmp_fix_divides_good
{
  static void eval(mpz_ptr z, mpz_srcptr w, mpz_srcptr v) { mpz_tdiv_q(z, w, v); }
  static void eval(mpz_ptr z, mpz_srcptr w, unsigned long l) { mpz_tdiv_q_ui(z, w, l); }
};
struct __gmp_fix_divides_via_shift      // reaches the floor shift through another functor
{
  static void eval(mpz_ptr z, mpz_srcptr w, unsigned long l) { __gmp_binary_rshift::eval(z, w, l); }
};

void fix_use_map (mpz_class &a, const mpz_class &b, const mpz_class &c)
{
  __gmp_fix_divides_floor::eval (a.get_mpz_t (), b.get_mpz_t (), c.get_mpz_t ());
  __gmp_fix_divides_good::eval (a.get_mpz_t (), b.get_mpz_t (), c.get_mpz_t ());
  __gmp_fix_divides_good::eval (a.get_mpz_t (), b.get_mpz_t (), 3UL);
  __gmp_fix_divides_via_shift::eval (a.get_mpz_t (), b.get_mpz_t (), 3UL);
}
