// Driver TU for R-CXXALIAS: instantiates every expression-template shape of mpirxx.h (each partial
// specialisation of __gmp_expr that has an eval()).  Parsed only, never compiled or run.
#include "mpirxx.h"
void drv_z (mpz_class &a, const mpz_class &b, const mpz_class &c, const mpz_class &d)
{
  a = b + c; a = b + 1; a = 1 + b; a = -b; a = b + c*d; a = c*d + b; a = (b+c) + 2; a = 2 + (b+c);
  a = (b+c)*(c+d); a = -(b+c); a = b - c*d; a = a - b*c; a += b*c; a = abs(b+c); a = b << 3; a = (b*c) >> 2;
  a = b & c; a = ~b; a = b / c; a = b % (c+d); a = sqrt(b*c); a = gcd(b, c*d); a = b * 2.5; a = 3UL - (b*c);
}
void drv_q (mpq_class &a, const mpq_class &b, const mpq_class &c, const mpq_class &d, const mpz_class &z, const mpz_class &y)
{
  a = b + c; a = b + 1; a = 1 + b; a = -b; a = b + c*d; a = c*d + b; a = (b+c) + 2; a = 2 + (b+c);
  a = (b+c)*(c+d); a = -(b+c); a = b - c*d; a = a - b*c; a += b*c;
  a = b * z; a = z * b; a = b * (z*y); a = (z*y) * b; a = (b+c) * z; a = z * (b+c); a = (b*c) / (z+y); a = (z+y) / (b*c);
  // the mpz-in-mpq plus / minus specialisations (__GMPZQ_DEFINE_EXPR)
  a = z + (b*c); a = b + (z*y); a = (z*y) + b; a = (b*c) + z; a = (z*y) + (b*c); a = (b*c) + (z*y);
  a = z - (b*c); a = b - (z*y); a = (z*y) - b; a = (b*c) - z; a = (z*y) - (b*c); a = (b*c) - (z*y);
  a = a + (z*y); a = (z*y) - a;
}
void drv_f (mpf_class &a, const mpf_class &b, const mpf_class &c, const mpf_class &d, const mpz_class &z)
{
  a = b + c; a = b + 1; a = 1 + b; a = -b; a = b + c*d; a = c*d + b; a = (b+c) + 2.5; a = 2 + (b+c);
  a = (b+c)*(c+d); a = -(b+c); a = b - c*d; a = a - b*c; a += b*c; a = sqrt(b+c); a = floor(b*c);
  a = b * z; a = (z*z) + b; a = b / (z+z);
}
