/* fixtures for R-CONSTSRC.ir; compiled only by the analyser */
#include "mpir.h"
#include "gmp-impl.h"

static void fx_scale (mp_ptr p, mp_size_t n) { mp_size_t i; for (i = 0; i < n; i++) p[i] <<= 1; }

/* masks the top limb of its const operand "temporarily" */
mp_limb_t fix_const_bad_direct (mp_srcptr up, mp_size_t n)
{
  mp_ptr wp = (mp_ptr) up;
  mp_limb_t save = wp[n - 1], r;
  wp[n - 1] &= 0xff;
  r = up[0] + up[n - 1];
  wp[n - 1] = save;
  return r;
}

/* hands the const operand to a helper that writes */
void fix_const_bad_chain (mp_ptr rp, mp_srcptr up, mp_size_t n)
{
  fx_scale ((mp_ptr) up + 1, n - 1);
  MPN_COPY (rp, up, n);
}

/* drops the qualifier but only reads */
mp_limb_t fix_const_good (mp_ptr rp, mp_srcptr up, mp_size_t n)
{
  mp_ptr alias = (mp_ptr) up;
  MPN_COPY (rp, alias, n);
  fx_scale (rp, n);
  return alias[0];
}

/* const char ** : the pointer variable is the output, the characters are const */
void fix_const_ptrptr (const char **sp, int k)
{
  *sp += k;
}
