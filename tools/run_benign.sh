#!/bin/bash
# usage: tools/run_benign.sh [patch-id ...]   apply each benign/<id>/patch.diff to /repo, run every quick check, undo.
# A behaviour-preserving patch must leave every check silent (exit 0); anything else is a false alarm of the machinery.
cd /verif
ids="$@"; [ -z "$ids" ] && ids=$(ls benign)
props=$(python3 -c "import json;print(' '.join(c['property_id'] for c in json.load(open('MANIFEST.json'))['checks']))" 2>/dev/null)
[ -z "$props" ] && props="C01 C02 C04 C05 C06 C10 C14 C15 C16 C17 C18 C19 C20"
mkdir -p /tmp/benign-out
for id in $ids; do
  git -C /repo apply --check /verif/benign/$id/patch.diff 2>/dev/null || { echo "[$id] patch does not apply"; continue; }
  rm -f /tmp/benign-out/$id.rc; git -C /repo apply /verif/benign/$id/patch.diff
  for p in $props; do echo $p; done | xargs -P 5 -I{} sh -c "bin/verif check {} --tier quick > /tmp/benign-out/$id-{}.log 2>&1; echo {}=\$? >> /tmp/benign-out/$id.rc"
  git -C /repo checkout -- .
  bad=$(grep -v "=0$" /tmp/benign-out/$id.rc | tr '\n' ' ')
  echo "[$id] $(git -C /repo status --short | wc -l) dirty; nonzero: ${bad:-none}"
done
