#!/bin/bash
# Dev tool: really build and run the pinned test suite with a stored patch applied, in the scratch tree /tmp/wt-T whose tests link
# ITS OWN library (a plain copy of /repo runs its tests against /repo/.libs/libmpir.so: tests/libtests.la and the libtool wrappers
# record absolute paths).  Create it with:  cp -a /repo /tmp/wt-T && make -C /tmp/wt-T/tests clean && make -C /tmp/wt-T -j16 check
# usage: tools/validate_patch.sh benign/BA-4 seeded/C01-7 ...     -> one line per patch: <dir> build=<rc> PASS=<n> FAIL=<list>
WT=/tmp/wt-T
for d in "$@"; do
  p=/verif/$d/patch.diff
  git -C $WT checkout -- . 2>/dev/null
  if ! git -C $WT apply --check $p 2>/dev/null; then echo "$d does-not-apply"; continue; fi
  git -C $WT apply $p
  # no header dependency tracking in the makefiles: a header change needs every unit rebuilt
  if grep -q '^+++ b/.*\.h$' $p; then find $WT -name '*.c' -not -path '*/tests/*' | xargs touch; find $WT/tests -name '*.c' | xargs touch; fi
  # symlinked mpn sources: touching the target is what make sees
  (cd $WT && make -j16 >/tmp/wt-T-build.log 2>&1); b=$?
  (cd $WT && make -j16 check >/tmp/wt-T-check.log 2>&1)
  echo "$d build=$b PASS=$(grep -c '^PASS:' /tmp/wt-T-check.log) FAIL=$(grep '^FAIL:' /tmp/wt-T-check.log | tr '\n' ' ')"
  git -C $WT checkout -- .
  if grep -q '^+++ b/.*\.h$' $p; then find $WT -name '*.c' -not -path '*/tests/*' | xargs touch; fi
done
(cd $WT && make -j16 >/dev/null 2>&1)
