#!/usr/bin/env python3
"""Print the prompt for a seeding sub-agent: only the property text and its scratch tree."""
import json, sys
pid, wt, outdir = sys.argv[1], sys.argv[2], sys.argv[3]
n = sys.argv[4] if len(sys.argv) > 4 else "3"
first = 1
avoid = ""
if len(sys.argv) > 5:
    import glob, os
    prev = []
    for d in sorted(glob.glob(os.path.join(sys.argv[5], pid + "-*"))):
        try:
            prev.append("  - " + json.load(open(os.path.join(d, "meta.json")))["summary"][:300])
        except Exception:
            pass
    first = len(prev) + 1
    if prev:
        avoid = "\nAn earlier round already produced the following changes; produce DIFFERENT ones (other files, other mechanisms, other clauses of the property):\n" + "\n".join(prev) + "\n"
p = [json.loads(l) for l in open('/verif/properties.jsonl') if json.loads(l)['id'] == pid][0]
print(f"""You are helping to evaluate a verification effort by playing the role of a developer who introduces a subtle regression.

The code base is MPIR (a GMP fork: arbitrary-precision arithmetic in C with x86-64 assembly kernels), already configured and built IN PLACE in your private scratch copy at {wt} (it is a full copy with its own .git; `git -C {wt} diff` shows your edits). Work ONLY inside {wt} and {outdir}. Do NOT read or touch /repo, /verif, /root/.vp or any other directory outside those two (and the system toolchain). There is no network.

Build and test commands (from {wt}):  `make -j6 >/dev/null 2>&1; echo $?`  then  `make -j6 check > {outdir}/check.log 2>&1; grep -c '^PASS:' {outdir}/check.log; grep '^FAIL:' {outdir}/check.log`  (the pinned suite has 198 tests and all must still PASS; a full run takes 2-4 minutes). Do not run `make -B`, `make -n -B`, `./configure`, or autoreconf. NOTE: the makefiles have no header dependency tracking - after editing any .h file (gmp-impl.h, mpir.h, longlong.h, mpz/aors.h, ...) you must `touch` every .c file that includes it (simplest: `find . -name '*.c' | xargs touch`) before `make`, or the change is not compiled; and always run `make` before `make check`. The library is {wt}/.libs/libmpir.a with headers {wt}/mpir.h and {wt}/gmp-impl.h (internal). The pinned build is plain x86_64, gcc, no C++ (--enable-cxx off), no fat binary, alloca temporaries, assertions off; files under mpn/x86_64/<cpu>/ other than the top-level directory, mpirxx.h, and the other tuning tables are NOT compiled by this build, but they are part of the code base and changes to them count.

The property that users of the library rely on:

  id: {p['id']}
  title: {p['title']}
  statement: {p['statement']}
  quantified over: {p['quantifier']['text']}
  why the existing tests cannot settle it: {p['why_tests_cant']}
  code anchors: {json.dumps(p['anchors'])}

YOUR TASK: produce {n} INDEPENDENT, DIFFERENT changes to the MPIR sources (each one is a separate patch that applies alone to the clean tree) such that each change
  (a) BREAKS the property above (a real user-visible violation of the statement, not a style issue),
  (b) still compiles, and the whole pinned test suite (198 tests) still passes with it,
  (c) looks like something a developer could plausibly commit (an optimisation, refactoring, clean-up, a 'simplification', a micro-fix that is wrong in a corner), and is small (a few lines up to a few dozen),
  (d) needs something SPECIFIC to manifest: a particular interleaving, a fault at a particular point, a multi-step sequence of operations, an unusual input or size, a rarely-taken branch, a non-default build configuration named in the property, or two cooperating sites that each look fine alone. Not something ordinary use would expose at once.
Make the {n} changes differ in mechanism and in location (different files / different parts of the property), so that they exercise different parts of a checker.
{avoid}
Number the deliverable directories starting at k = {first}.

For each change k = {first}..{first + int(n) - 1} deliver, in {outdir}/{pid}-k/ :
  - patch.diff    : `git -C {wt} diff` of exactly that change against the clean tree (verify it applies with `git apply --check` on a clean tree),
  - a demonstration: a small C (or C++/shell) program or script `demo.*` plus `run.sh` that builds it against the tree's library and exits NON-ZERO (printing what went wrong) when the change is applied and exits 0 on the clean tree. If the violation only exists in a configuration the pinned build does not compile (another CPU's kernel, C++ wrapper, malloc-reentrant temporaries, --enable-assert, fat build...), the demo may compile just the affected file(s) itself with the needed flags, or assemble the kernel and call it directly; say so.
  - meta.json     : {{"property": "{pid}", "summary": "...what the change does...", "needs": "...what is required for it to manifest...", "files": [...], "ran": ["commands you ran and their outcome: build ok, 198 PASS, demo fails with patch, demo passes without"]}}
You MUST actually verify (b) and the demo both ways yourself before reporting; between changes restore the tree with `git -C {wt} checkout -- .` and rebuild. If a candidate change makes any of the 198 tests fail, discard or refine it. At the end leave the tree clean (`git -C {wt} checkout -- .`; rebuilding is not needed).

Final answer: a short list of the changes you delivered (directory, one-line summary, what it needs to manifest, and confirmation of what you verified).""")
