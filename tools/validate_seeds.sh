#!/bin/bash
# usage: validate_seeds.sh C12  -> validates /tmp/out-C12/C12-* in /tmp/wt-C12
P=$1; WT=/tmp/wt-$P; OUT=${OUTDIR:-/tmp/out-$P}; LOG=${LOGF:-/tmp/validate-$P.log}; : > $LOG
for d in $OUT/$P-*; do
  [ -f $d/patch.diff ] || { echo "$d no-patch" >> $LOG; continue; }
  git -C $WT checkout -- . 2>/dev/null
  if ! git -C $WT apply --check $d/patch.diff 2>/dev/null; then echo "$d does-not-apply" >> $LOG; continue; fi
  git -C $WT apply $d/patch.diff
  if grep -q '^+++ b/.*\.h' $d/patch.diff; then find $WT -name '*.c' | xargs touch; fi
  (cd $WT && make -j3 >/tmp/v-$P-build.log 2>&1); b=$?
  (cd $WT && make -j3 check >/tmp/v-$P-check.log 2>&1)
  pass=$(grep -c '^PASS:' /tmp/v-$P-check.log); fail=$(grep '^FAIL:' /tmp/v-$P-check.log | tr '\n' ' ')
  (cd $d && bash ./run.sh >/tmp/v-$P-demo1.log 2>&1); d1=$?
  git -C $WT checkout -- .
  if grep -q '^+++ b/.*\.h' $d/patch.diff; then find $WT -name '*.c' | xargs touch; fi
  (cd $WT && make -j3 >/dev/null 2>&1)
  (cd $d && bash ./run.sh >/tmp/v-$P-demo0.log 2>&1); d0=$?
  echo "$(basename $d) build=$b PASS=$pass FAIL=[$fail] demo_with_patch=$d1 demo_clean=$d0" >> $LOG
done
echo DONE >> $LOG
