#!/usr/bin/env python3
"""import validated seeds from /tmp/out-<P>/ into /verif/seeded/ using the validation log"""
import sys, os, json, shutil, re
P = sys.argv[1]
log = open(os.environ.get('LOGF', '/tmp/validate-%s.log' % P)).read()
for m in re.finditer(r'^(%s-\d+) build=(\d+) PASS=(\d+) FAIL=\[(.*?)\] demo_with_patch=(\d+) demo_clean=(\d+)' % P, log, re.M):
    sid, b, npass, fail, d1, d0 = m.groups()
    ok = b == '0' and npass == '198' and not fail.strip() and d1 != '0' and d0 == '0'
    src = os.environ.get('OUTDIR', '/tmp/out-%s' % P) + '/' + sid
    dst = '/verif/seeded/%s' % sid
    if not ok:
        print(sid, 'NOT CONFIRMED', m.group(0)); continue
    if os.path.exists(dst):
        print(sid, 'exists'); continue
    os.makedirs(dst)
    for f in os.listdir(src):
        if f in ('demo',) or os.path.isdir(os.path.join(src, f)) or os.path.getsize(os.path.join(src, f)) > 200000:
            continue
        shutil.copy(os.path.join(src, f), dst)
    meta = json.load(open(os.path.join(dst, 'meta.json')))
    meta.setdefault('ran', [])
    meta['confirmed_by_me'] = ["scratch tree /tmp/wt-%s (tests link its own library): patch applied alone, make -> 0, make check -> 198 PASS 0 FAIL, run.sh -> exit %s; clean tree rebuilt, run.sh -> exit 0" % (P, d1)]
    json.dump(meta, open(os.path.join(dst, 'meta.json'), 'w'), indent=1)
    print(sid, 'imported')
