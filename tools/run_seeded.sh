#!/bin/bash
# usage: tools/run_seeded.sh <seed-id> [property ...]   apply seeded/<id>/patch.diff to /repo, run the quick checks, undo.
set -u
id=$1; shift
cd /verif
props="$@"
if [ -z "$props" ]; then props=$(python3 -c "import json;print(json.load(open('seeded/$id/meta.json'))['property'])"); fi
git -C /repo apply --check /verif/seeded/$id/patch.diff || { echo "patch does not apply"; exit 3; }
git -C /repo apply /verif/seeded/$id/patch.diff
trap 'git -C /repo checkout -- . ' EXIT
rc=0
for p in $props; do
  bin/verif check $p --tier ${TIER:-quick} | grep -v "^mutant" | tail -${LINES_OUT:-6}
  r=${PIPESTATUS[0]}; echo "[$id] property $p exit=$r"; [ $r -ne 0 ] && rc=$r
done
exit $rc
