#!/usr/bin/env python3
"""Print the prompt for a sub-agent that produces behaviour-PRESERVING changes (to test that the checks stay silent)."""
import json, sys
tag, wt, outdir = sys.argv[1], sys.argv[2], sys.argv[3]
pids = sys.argv[4].split(",")
n = sys.argv[5] if len(sys.argv) > 5 else "6"
focus = sys.argv[6] if len(sys.argv) > 6 else ""
props = [json.loads(l) for l in open('/verif/properties.jsonl')]
props = [p for p in props if p['id'] in pids]
txt = "\n".join(f"  id: {p['id']}\n  title: {p['title']}\n  statement: {p['statement']}\n  code anchors: {json.dumps(p['anchors']['files'])}\n" for p in props)
print(f"""You are helping to evaluate a verification effort by playing the role of a careful maintainer who makes CORRECT, behaviour-preserving changes.

The code base is MPIR (a GMP fork: arbitrary-precision arithmetic in C with x86-64 assembly kernels), already configured and built IN PLACE in your private scratch copy at {wt} (a full copy with its own .git; `git -C {wt} diff` shows your edits). Work ONLY inside {wt} and {outdir}. Do NOT read or touch /repo, /verif, /root/.vp or any other directory outside those two (and the system toolchain). There is no network.

Build and test commands (from {wt}):  `make -j6 >/dev/null 2>&1; echo $?`  then  `make -j6 check > {outdir}/check.log 2>&1; grep -c '^PASS:' {outdir}/check.log; grep '^FAIL:' {outdir}/check.log`  (198 tests, all must PASS; a full run takes 2-4 minutes). Do not run `make -B`, `make -n -B`, `./configure`, or autoreconf. NOTE: the makefiles have no header dependency tracking - after editing any .h file (gmp-impl.h, mpir.h, longlong.h, mpz/aors.h, ...) you must `touch` every .c file that includes it (simplest: `find . -name '*.c' | xargs touch`) before `make`, or the change is not compiled; and always run `make` before `make check`. The pinned build is plain x86_64, gcc, no C++, no fat binary, alloca temporaries, assertions off; files under mpn/x86_64/<cpu>/ subdirectories, mpirxx.h and the other gmp-mparam.h tuning tables are NOT compiled by this build but are part of the code base.

Properties that users rely on (for orientation: your changes must KEEP all of them true):

{txt}
YOUR TASK: produce {n} INDEPENDENT patches (each applies alone to the clean tree) in the files these properties are anchored in (or their close neighbours), each of which
  (a) PRESERVES behaviour exactly for every input, configuration and build option (the properties above still hold, nothing observable changes, no new undefined behaviour, no leak) - be rigorous: if in doubt, choose a safer refactoring,
  (b) compiles, and the whole pinned test suite still passes,
  (c) is the kind of thing a maintainer really does: rename locals, reorder independent statements, hoist or sink a computation, replace a macro use by its equivalent expansion or an equivalent helper call, change a loop form (for/while/do, index vs pointer), split a function into a static helper, merge two branches with identical bodies, add an early return for a trivial case that computes the same result, replace `if/else` by `switch` or a conditional expression, introduce a temporary variable, reload a pointer one more time than needed, allocate scratch space a little differently but correctly (e.g. one combined TMP allocation instead of two, freed on every exit), add a correct assertion, reword a condition into an equivalent one (`a >= b` for `!(a < b)`), move a correct reset/initialisation to an equivalent place, etc.
  (d) is non-trivial enough to change the code structure that a static analyser sees (not just comments/whitespace), 5 to 60 changed lines.
{focus}
Make the {n} patches differ in kind and in location; spread them over the different properties listed.  Prefer the code that does the delicate work (aliasing/overlap handling, reallocation and pointer reloads, temporary allocation and release, stream error handling, parsing loops, table lookups, dispatch on thresholds, global state, template eval functions in mpirxx.h).

For each patch k = 1..{n} deliver, in {outdir}/{tag}-k/ :
  - patch.diff  : `git -C {wt} diff` of exactly that change against the clean tree (verify with `git apply --check` on a clean tree),
  - meta.json   : {{"summary": "...what was changed...", "why_equivalent": "...the argument that behaviour is preserved...", "files": [...], "ran": ["build ok", "198 PASS"]}}
You MUST actually build and run the test suite for each patch (you may test two or three patches touching different files together in one build to save time, but each patch.diff must apply alone). Between patches restore the tree with `git -C {wt} checkout -- .`. At the end leave the tree clean.

Final answer: a short list of the patches (directory, one-line summary).""")
