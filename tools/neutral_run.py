#!/usr/bin/env python3
"""Dev tool: run every quick rule on a benign patch through the overlay (no change to the repository).
usage: VERIF_REPO=/tmp/wt-dev tools/neutral_run.py BM-1 [BM-2 ...]   (prints findings / analysis-broken per patch)"""
import sys, os, time
sys.path.insert(0, os.path.join(os.path.dirname(os.path.abspath(__file__)), "..", "py"))
import core, checks, mutants, importlib
from core import AnalysisBroken

for bid in sys.argv[1:]:
    m = dict(id="n-" + bid.replace("/", "-"), patch=("%s/patch.diff" % bid) if "/" in bid else "benign/%s/patch.diff" % bid)
    mp = mutants.apply(m)
    if mp is None:
        print("[%s] patch does not apply" % bid)
        continue
    core.set_overlay(mp)
    bad = []
    t0 = time.time()
    done = set()
    try:
        for prop, rules in checks.CHECKS.items():
            for rule, mod, fn, tiers in rules:
                if "quick" not in tiers or (mod, fn) in done:
                    continue
                done.add((mod, fn))
                try:
                    r = getattr(importlib.import_module(mod), fn)(prop=prop, tier="quick")
                    for f in r["findings"]:
                        bad.append("%s %s %s:%s %s %s" % (prop, rule, core.relpath(core.unoverlay(f.file)), f.line, f.function, f.signature))
                except AnalysisBroken as e:
                    bad.append("%s %s ANALYSIS-BROKEN %s" % (prop, rule, str(e)[:200]))
    finally:
        core.set_overlay({})
    print("[%s] %d problem(s) in %.0fs" % (bid, len(bad), time.time() - t0), flush=True)
    for b in bad:
        print("    " + b, flush=True)
